#!/venv/bin/python
"""Coverage-guided campaign for one target of vlib/fuzz_oracles.py (atheris / libFuzzer, in-process).

usage: fuzz/target.py <target> <corpus_dir> [libFuzzer flags...]     e.g. -runs=20000 -seed=7 -artifact_prefix=<dir>/
Only btclib is instrumented; the oracle raises on a violation, which libFuzzer records as a crash and saves under
the artifact prefix. The driver (checks/c19_fuzz.py) turns a saved input into a replay unit.
"""
import os
import sys

HERE = os.path.dirname(os.path.abspath(__file__))
VERIF = os.path.dirname(HERE)
REPO = os.environ.get("VERIF_REPO", "/repo")
sys.path[:0] = [os.path.join(VERIF, ".deps"), VERIF, REPO]

import atheris  # noqa: E402

with atheris.instrument_imports(include=["btclib"]):
    import btclib.block.block  # noqa: F401
    import btclib.descriptors.descriptors  # noqa: F401
    import btclib.descriptors.miniscript  # noqa: F401
    import btclib.ecc.bms  # noqa: F401
    import btclib.p2p.message  # noqa: F401
    import btclib.psbt.psbt  # noqa: F401
    import btclib.bip21  # noqa: F401
    import btclib.tx  # noqa: F401

from vlib import determinism, fuzz_oracles  # noqa: E402

determinism.install()


def main():
    name = sys.argv[1]
    oracle = fuzz_oracles.TARGETS[name]

    contract = "C19" in fuzz_oracles.ACTIVE

    def one(data: bytes) -> None:
        determinism.reset([name, data.hex()])  # the draws of a case depend on the case alone, in the campaign as in the replay
        try:
            oracle(data)
        except fuzz_oracles.FuzzViolation:
            raise
        except Exception:  # noqa: BLE001
            if contract:
                raise
            # an exception outside the library's classes is C19's finding: a campaign for another property goes on past it

    atheris.Setup([sys.argv[0], *sys.argv[2:]], one)
    atheris.Fuzz()


if __name__ == "__main__":
    main()
