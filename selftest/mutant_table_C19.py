# C19 mutants: each removes or weakens one of the mechanisms the property names (btclib/exceptions.py contract, bounded reads, boolean wrappers, depth bounds, JSON guards).
# While genuine findings of C19 are open the unchanged tree already exits 1; run this table with the open findings excluded, e.g.
#   C19_SKIP="$(paste -sd, <file with the known signatures>)" selftest/mutants.py --table selftest/mutant_table_C19.py
# (C19_SKIP is read by checks/C19.py; once the findings are recorded in known_findings.json the variable is not needed).
m("C19-varint-cap-removed", "C19", "btclib/var_int.py", "    if i > max_size:\n", "    if False:\n", ["--only", "parsers_bytes"])
m("C19-read-exactly-short-read", "C19", "btclib/utils.py", "    if len(data) != size:\n", "    if False:\n", ["--only", "parsers_bytes"])
m("C19-stream-trailing-check-on-streams", "C19", "btclib/utils.py", "    if isinstance(data, BytesIO):\n        return\n", "    if False:\n        return\n", ["--only", "parsers_bytes"])
m("C19-bms-verify-lets-refusals-out", "C19", "btclib/ecc/bms.py", "    except (ValueError, BTClibRuntimeError):\n        return False\n", "    except BTClibRuntimeError:\n        return False\n", ["--only", "predicates"])
m("C19-tr-tree-depth-unbounded", "C19", "btclib/descriptors/descriptors.py", "    if depth > MAX_TREE_DEPTH:\n", "    if False:\n", ["--only", "parsers_text"])
m("C19-json-number-typeerror-escapes", "C19", "btclib/utils.py", "    except TypeError as e:\n        raise BTClibTypeError(f\"invalid {what} type: {type(value).__name__}\") from e\n", "    except ZeroDivisionError as e:\n        raise BTClibTypeError(f\"invalid {what} type: {type(value).__name__}\") from e\n", ["--only", "from_dict"])
m("C19-json-object-not-asked", "C19", "btclib/utils.py", "    assert_type(dict_, Mapping, f\"{what} dict\")\n", "    pass\n", ["--only", "from_dict"])
m("C19-string-bytes-unicode-escapes", "C19", "btclib/utils.py", "    except UnicodeDecodeError as e:\n        raise BTClibValueError(f\"non-ascii character in {what}: {e}\") from e", "    except ZeroDivisionError as e:\n        raise BTClibValueError(f\"non-ascii character in {what}: {e}\") from e", ["--only", "parsers_text"])
