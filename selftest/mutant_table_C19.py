# C19 mutants: each removes or weakens one of the mechanisms the property names (btclib/exceptions.py contract, bounded reads, boolean wrappers, depth bounds, JSON guards).
# While genuine findings of C19 are open the unchanged tree already exits 1; run this table with the open findings excluded, e.g.
#   C19_SKIP="$(paste -sd, <file with the known signatures>)" selftest/mutants.py --table selftest/mutant_table_C19.py
# (C19_SKIP is read by checks/C19.py; once the findings are recorded in known_findings.json the variable is not needed).
# Signatures of the findings open when this table was written (join with commas for C19_SKIP; a trailing * matches a prefix):
#   crash:AttributeError@bip32/key_origin.py:assert_valid_hd_key_paths
#   crash:AttributeError@bip32/key_origin.py:decode_hd_key_paths
#   crash:AttributeError@psbt/psbt_utils.py:decode_dict_bytes_bytes
#   crash:AttributeError@psbt/psbt_utils.py:decode_leaf_scripts
#   crash:AttributeError@psbt/psbt_utils.py:decode_musig2_participant_pub_keys
#   crash:AttributeError@psbt/psbt_utils.py:decode_taproot_bip32
#   crash:IndexError@ecc/musig2.py:partial_sig_verify
#   crash:IndexError@psbt/psbt.py:ecdsa_sig_hash
#   crash:IndexError@psbt/psbt.py:taproot_sig_hash
#   crash:IndexError@psbt/psbt_utils.py:decode_leaf_scripts
#   crash:IndexError@psbt/psbt_utils.py:decode_taproot_bip32
#   crash:IndexError@psbt/psbt_utils.py:decode_taproot_tree
#   crash:IndexError@script/engine/__init__.py:verify_input
#   crash:KeyError@psbt/psbt_utils.py:decode_leaf_scripts
#   crash:TypeError@descriptors/miniscript.py:_key
#   crash:TypeError@ecc/borromean.py:_get_msg_format
#   crash:TypeError@ecc/musig2.py:_session_key_agg_coeff
#   crash:TypeError@hashes.py:merkle_root_from_branch
#   crash:TypeError@network.py:assert_valid
#   crash:TypeError@psbt/psbt_in.py:assert_valid
#   crash:TypeError@psbt/psbt_out.py:assert_valid
#   crash:TypeError@psbt/psbt_utils.py:decode_leaf_scripts
#   crash:TypeError@psbt/psbt_utils.py:decode_musig2_participant_pub_keys
#   crash:TypeError@psbt/psbt_utils.py:decode_taproot_bip32
#   crash:TypeError@psbt/psbt_utils.py:decode_taproot_tree
#   crash:TypeError@script/script_pub_key.py:assert_valid
#   crash:TypeError@script/sig_hash.py:assert_valid_hash_type
#   crash:TypeError@to_pub_key.py:_sec_from_pub_key
#   crash:UnicodeEncodeError@mnemonic/bip39.py:seed_from_mnemonic
#   crash:UnicodeEncodeError@mnemonic/electrum.py:_seed_version
#   crash:ValueError@descriptors/miniscript.py:_read_number
#   crash:ValueError@tx_or_psbt.py:_octets_from_text
#   predicate-raises:BasicBlockFilter.match:BTClibValueError
#   predicate-raises:BasicBlockFilter.match_any:BTClibValueError
#   predicate-raises:b32.is_segwit_prefixed:BTClibValueError
#   predicate-raises:miniscript.reads_back:BTClibValueError
#   predicate-raises:proof_of_work.is_negative_bits:BTClibValueError
#   predicate-raises:script_pub_key.is_p2ms:BTClibRuntimeError
#   predicate-raises:secp256k1.is_on_curve:BTClibValueError
# Result with those excluded (quick tier): 10/10 caught --
#   varint-cap-removed: crash:OverflowError@var_bytes.py:parse, @utils.py:read_exactly | read-exactly-short-read: crash:IndexError@p2p/block_filters.py:parse, @p2p/compact_blocks.py:parse
#   stream-trailing-check-on-streams: valid-encoding-refused@block.block.Block.parse ... | bms-verify-lets-refusals-out: predicate-raises:bms.verify:BTClibValueError
#   tr-tree-depth-unbounded: RecursionError@descriptors.descriptors.parse | json-number-typeerror-escapes: crash:TypeError@utils.py:int_from_json_number
#   json-object-not-asked: crash:TypeError@utils.py:__init__ ... | string-bytes-unicode-escapes: crash:UnicodeDecodeError@utils.py:str_from_string
#   sighash-annex-reads-first-byte: crash:IndexError@script/sig_hash.py:taproot_annex_and_ext | sighash-input-index-unchecked: crash:IndexError@script/sig_hash.py:from_tx
m("C19-varint-cap-removed", "C19", "btclib/var_int.py", "    if i > max_size:\n", "    if False:\n", ["--only", "parsers_bytes"])
m("C19-read-exactly-short-read", "C19", "btclib/utils.py", "    if len(data) != size:\n", "    if False:\n", ["--only", "parsers_bytes"])
m("C19-stream-trailing-check-on-streams", "C19", "btclib/utils.py", "    if isinstance(data, BytesIO):\n        return\n", "    if False:\n        return\n", ["--only", "seed_soundness,parsers_bytes"])
m("C19-bms-verify-lets-refusals-out", "C19", "btclib/ecc/bms.py", "    except (ValueError, BTClibRuntimeError):\n        return False\n", "    except BTClibRuntimeError:\n        return False\n", ["--only", "predicates"])
m("C19-tr-tree-depth-unbounded", "C19", "btclib/descriptors/descriptors.py", "    if depth > MAX_TREE_DEPTH:\n", "    if False:\n", ["--only", "nesting_bombs"])
m("C19-json-number-typeerror-escapes", "C19", "btclib/utils.py", "    except TypeError as e:\n        raise BTClibTypeError(f\"invalid {what} type: {type(value).__name__}\") from e\n", "    except ZeroDivisionError as e:\n        raise BTClibTypeError(f\"invalid {what} type: {type(value).__name__}\") from e\n", ["--only", "from_dict"])
m("C19-json-object-not-asked", "C19", "btclib/utils.py", "    assert_type(dict_, Mapping, f\"{what} dict\")\n", "    pass\n", ["--only", "from_dict"])
m("C19-string-bytes-unicode-escapes", "C19", "btclib/utils.py", "    except UnicodeDecodeError as e:\n        raise BTClibValueError(f\"non-ascii character in {what}: {e}\") from e", "    except ZeroDivisionError as e:\n        raise BTClibValueError(f\"non-ascii character in {what}: {e}\") from e", ["--only", "parsers_text"])
m("C19-sighash-annex-reads-first-byte", "C19", "btclib/script/sig_hash.py", "    if len(stack) >= 2 and stack[-1][:1] == b\"\\x50\":", "    if len(stack) >= 2 and stack[-1][0] == 0x50:", ["--only", "consumers"])
m("C19-sighash-input-index-unchecked", "C19", "btclib/script/sig_hash.py", "    _assert_valid_vin_i(tx, vin_i)\n    # both lists are indexed at vin_i below", "    # both lists are indexed at vin_i below", ["--only", "consumers"])
