#!/bin/bash
# usage: selftest/run_mutant.sh <patch.diff> <Cxx> [run_check args...]
# Applies the patch to a scratch copy of /repo's btclib (outside /repo and /verif),
# runs the check against it via VERIF_REPO, prints the exit code, removes the copy.
set -u
PATCH=$(realpath "$1"); shift
PROP=$1; shift
SCR=$(mktemp -d /root/scratch/mut.XXXXXX)
mkdir -p "$SCR"
rsync -a --exclude .git --exclude tests/_generated_files /repo/btclib /repo/tests "$SCR"/ >/dev/null
( cd "$SCR" && patch -p1 -s < "$PATCH" ) || { echo "PATCH-FAILED"; rm -rf "$SCR"; exit 3; }
cd /verif
VERIF_REPO="$SCR" /venv/bin/python run_check.py "$PROP" "$@" 2>&1 | grep -E "^(VIOLATION|KNOWN|HARNESS|C[0-9]+ tier|  signature)" | head -20
rc=${PIPESTATUS[0]}
rm -rf "$SCR"
echo "mutant-exit=$rc"
exit $rc
