#!/venv/bin/python
"""Sensitivity self-test: apply one small semantic mutation to a scratch copy of btclib
(outside /repo and /verif), run the property's quick check against it via VERIF_REPO,
expect exit 1. usage: selftest/mutants.py [name-substring ...]   (no args: all)
Mutants are (name, property, file, old, new[, extra run_check args]). `old` must occur exactly once."""
import json, os, shutil, subprocess, sys, tempfile, time

HERE = os.path.dirname(os.path.abspath(__file__))
VERIF = os.path.dirname(HERE)
M = []
def m(name, prop, file, old, new, args=()):
    M.append(dict(name=name, prop=prop, file=file, old=old, new=new, args=list(args)))

_table = os.path.join(HERE, "mutant_table.py")
if "--table" in sys.argv:
    _i = sys.argv.index("--table")
    _table = sys.argv[_i + 1]
    del sys.argv[_i : _i + 2]
    exec(open(_table).read())
else:
    exec(open(_table).read())
    import glob as _glob
    for _extra in sorted(_glob.glob(os.path.join(HERE, "mutant_table_C*.py"))):
        exec(open(_extra).read())

def run(mu, keep=False):
    scr = tempfile.mkdtemp(prefix="mut.", dir="/root/scratch")
    try:
        shutil.copytree("/repo/btclib", os.path.join(scr, "btclib"))
        path = os.path.join(scr, mu["file"])
        src = open(path).read()
        if src.count(mu["old"]) != 1:
            return "PATCH-FAILED(%d occurrences)" % src.count(mu["old"]), 0
        open(path, "w").write(src.replace(mu["old"], mu["new"]))
        env = dict(os.environ, VERIF_REPO=scr, VERIF_NO_EVIDENCE="1")
        t = time.time()
        r = subprocess.run(["/venv/bin/python", os.path.join(VERIF, "run_check.py"), mu["prop"], "--tier", "quick", *mu["args"]],
                           capture_output=True, text=True, env=env, cwd=VERIF)
        sigs = [l.strip() for l in r.stdout.splitlines() if l.strip().startswith("signature:")]
        out = {1: "CAUGHT", 0: "MISSED", 2: "HARNESS-ERROR"}.get(r.returncode, f"rc={r.returncode}")
        if r.returncode == 2:
            sigs = [l for l in r.stdout.splitlines() if "HARNESS" in l][:2]
        return out + " " + "; ".join(s.replace("signature: ", "") for s in sigs[:3]), time.time() - t
    finally:
        shutil.rmtree(scr, ignore_errors=True)

if __name__ == "__main__":
    if not os.path.isdir(os.path.join(VERIF, ".deps", "atheris")):
        # the coverage-guided sub-checks skip themselves without atheris (a fresh snapshot has no .deps): install as the checks' setup does
        subprocess.run(["bash", os.path.join(VERIF, "setup.sh")], cwd=VERIF, check=False, capture_output=True)
    want = sys.argv[1:]
    rows = []
    for mu in M:
        if want and not any(w in mu["name"] or w == mu["prop"] for w in want):
            continue
        res, dt = run(mu)
        print(f"{mu['prop']} {mu['name']:40s} {res[:200]}  ({dt:.0f}s)", flush=True)
        rows.append((mu, res, dt))
    if not want and _table.endswith("mutant_table.py"):
        with open(os.path.join(HERE, "RESULTS.md"), "w") as f:
            f.write("# Mutant self-test results (quick tier)\n\n| property | mutant | file | result | s |\n|---|---|---|---|---|\n")
            for mu, res, dt in rows:
                f.write(f"| {mu['prop']} | {mu['name']} | {mu['file']} | {res[:160]} | {dt:.0f} |\n")
