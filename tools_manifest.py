#!/venv/bin/python
"""Regenerates MANIFEST.json from the table below (single source of truth) and validates it."""
import json, os, sys
HERE = os.path.dirname(os.path.abspath(__file__))
PY = "/venv/bin/python"
BASE_OFF = "cd /repo && /venv/bin/python -m pytest -ra -q -p no:cacheprovider --timeout=900 --continue-on-collection-errors"

CHECKS = {}
def reg(pid, technique, text, note, design_ref, category="exploration"):
    CHECKS[pid] = dict(technique=technique, text=text, note=note, design_ref=design_ref, category=category)

exec(open(os.path.join(HERE, "manifest_table.py")).read())

props = [json.loads(l)["id"] for l in open(os.path.join(HERE, "properties.jsonl"))]
NOT_APPLICABLE = [{"property_id": p, "reason": NA_REASONS.get(p, "check under construction in this build phase (planned in DESIGN.md); not yet claimed")} for p in props if p not in CHECKS]
checks = []
for pid in props:
    if pid not in CHECKS:
        continue
    c = CHECKS[pid]
    checks.append({
        "property_id": pid,
        "quick_cmd": f"{PY} run_check.py {pid} --tier quick",
        "thorough_cmd": f"{PY} run_check.py {pid} --tier thorough",
        "evidence_file": f"/verif/evidence/{pid}.json",
        "replay_cmd_template": f"{PY} run_check.py {pid} --replay {{path}}",
        "engine": "pbt-runner",
        "level_claimed": {"category": c["category"], "text": c["text"], "design_ref": c["design_ref"]},
        "level_note": c["note"],
        "technique": c["technique"],
    })
man = {
    "version": 1,
    "setup_cmd": "./setup.sh",
    "hooks": {
        "guard": "BTCLIB_VERIF",
        "enable": "no source hooks are needed: the harness monkeypatches `secrets.*` (determinism) and `btclib.bip32.bip32.hmac` (fault injection) from outside; run_check.py sets BTCLIB_VERIF=1 for uniformity",
        "baseline_off_cmd": BASE_OFF,
        "source_commits": [],
        "add_only": True,
    },
    "engines": [{"name": "pbt-runner", "path": "run_check.py", "serves_properties": [c["property_id"] for c in checks],
                 "kind_free_text": "Hypothesis-driven generated-input search (16 shards) + exhaustive enumeration of small finite domains, against independent reference models in vlib/models; shrunk JSON cases are the replay files"}],
    "checks": checks,
    "not_applicable": NOT_APPLICABLE,
    "notes": NOTES,
}
json.dump(man, open(os.path.join(HERE, "MANIFEST.json"), "w"), indent=1)
try:
    import jsonschema
    jsonschema.validate(man, json.load(open("/root/.vp/MANIFEST.schema.json")))
    print("MANIFEST.json valid;", len(checks), "checks;", len(NOT_APPLICABLE), "not_applicable")
except ImportError:
    print("jsonschema missing; wrote MANIFEST.json unvalidated")
