# Table read by tools_manifest.py. One reg(...) per claimed property.
NOTES = "All checks: /venv/bin/python run_check.py Cxx --tier quick|thorough; see DESIGN.md."
reg("C09", "differential testing vs an independent Core/BIP143/BIP341 sighash transcription over Hypothesis-generated transactions",
    "Generated-input search: every digest the library computes (legacy, BIP143, BIP341; direct, via from_tx dispatch, with precomputed data) is compared byte for byte with an independent reference on thousands of generated (tx, index, script code, hash type, annex, extension) cases per run; refusals are compared too. Absence of a counterexample in the explored sample, not a proof.",
    "Trusted: vlib/models/sighash_ref.py (validated at start on Core's 500 sighash.json vectors, the BIP143 and BIP341 examples), hashlib.",
    "DESIGN.md §1 C09")
# properties not claimed, with a reason each (those without an explicit reason get the default below)
NA_REASONS = {}
reg("C01", "exhaustive enumeration of all toy curves + Hypothesis differential testing vs a naive affine group law on the 27 catalogued curves",
    "Every curve over every prime p<=23 (quick; <=43 thorough), every (a,b), every prime-order subgroup: constructor verdict equals an independent SEC 1 predicate over the brute-force point count, and mult / PreparedPoint.mult / double_mult_var equal the cyclic-group table for every scalar in [-n-1,2n+1] (plus 2^256-size ones) and every point incl. infinity - exhaustive on that finite domain. Catalogued curves, multi-scalar sums on both sides of the wNAF/Bos-Coster switch, both backends, off-curve refusals, modular helpers (every modulus<200 exhaustively; big primes of every residue class and 2-adicity) and SEC encodings are sampled by Hypothesis against the model.",
    "Trusted: vlib/models/ec_ref.py (textbook addition + double-and-add, validated on group axioms), Python pow/gcd. Cryptographic-size caller-defined curves are represented by the catalogue only.",
    "DESIGN.md §1 C01")
reg("C02", "exhaustive toy-curve truth tables + Hypothesis differential testing vs SEC 1 / RFC 6979 / BIP66 models; structure-aware DER mutation",
    "On toy curves every (key, challenge, nonce) triple is signed through the public API and compared with SEC 1 (signature, low-s, recovery id, recovery), and the verification verdict is compared on the complete (c,Q,r,s) table with r,s in [0,n] - exhaustive on those finite domains. On catalogued curves x 10 hash functions Hypothesis compares deterministic signatures byte for byte with an independent RFC 6979 + SEC 1 model (both backends on secp256k1), checks grinding, Signer, recovery and single-field forgeries; strict DER parsing is compared with BIP66 on canonical encodings under stacked structural mutations.",
    "Trusted: vlib/models/ecdsa_ref.py + ec_ref.py (validated on RFC 6979 A.2.5), hashlib/hmac. bms message signatures are exercised under C10.",
    "DESIGN.md §1 C02")
reg("C03", "Hypothesis differential testing vs the BIP340 reference implementation; batch = conjunction metamorphic relation; exhaustive toy-curve truth table",
    "Generated (key, message of 0..200 bytes, aux) signatures equal the BIP's reference.py byte for byte on both backends; verify_ equals the reference verdict on valid signatures, one-field near-misses (bit flips, n-s, r>=p, s>=n, x>=p, unliftable r/x) and random triples for every key spelling, never raising; batch_verify_ equals the conjunction of individual verdicts for sizes 1..40 with bad members anywhere, duplicates, permutations and cancelling pairs; sign-to-contract opens only with its commitment; on toy curves the whole (x_Q,r,s) table is compared with the verification equation.",
    "Trusted: vlib/models/bip340_ref.py (the BIP's reference, validated on its vectors). Off secp256k1/sha256 the oracle is the equation with the library's public challenge_.",
    "DESIGN.md §1 C03")
