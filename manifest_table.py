# Table read by tools_manifest.py. One reg(...) per claimed property.
NOTES = "All checks: /venv/bin/python run_check.py Cxx --tier quick|thorough; see DESIGN.md."
reg("C09", "differential testing vs an independent Core/BIP143/BIP341 sighash transcription over Hypothesis-generated transactions",
    "Generated-input search: every digest the library computes (legacy, BIP143, BIP341; direct, via from_tx dispatch, with precomputed data) is compared byte for byte with an independent reference on thousands of generated (tx, index, script code, hash type, annex, extension) cases per run; refusals are compared too. Absence of a counterexample in the explored sample, not a proof.",
    "Trusted: vlib/models/sighash_ref.py (validated at start on Core's 500 sighash.json vectors, the BIP143 and BIP341 examples), hashlib.",
    "DESIGN.md §1 C09")
_pending = ["C01","C02","C03","C04","C05","C06","C07","C08","C10","C11","C12","C13","C14","C15","C16","C17","C18","C19","C20"]
NOT_APPLICABLE = [{"property_id": p, "reason": "check under construction in this build phase (planned in DESIGN.md); not yet claimed"} for p in _pending if p not in CHECKS]
reg("C01", "exhaustive enumeration of all toy curves + Hypothesis differential testing vs a naive affine group law on the 27 catalogued curves",
    "Every curve over every prime p<=23 (quick; <=43 thorough), every (a,b), every prime-order subgroup: constructor verdict equals an independent SEC 1 predicate over the brute-force point count, and mult / PreparedPoint.mult / double_mult_var equal the cyclic-group table for every scalar in [-n-1,2n+1] (plus 2^256-size ones) and every point incl. infinity - exhaustive on that finite domain. Catalogued curves, multi-scalar sums on both sides of the wNAF/Bos-Coster switch, both backends, off-curve refusals, modular helpers (every modulus<200 exhaustively; big primes of every residue class and 2-adicity) and SEC encodings are sampled by Hypothesis against the model.",
    "Trusted: vlib/models/ec_ref.py (textbook addition + double-and-add, validated on group axioms), Python pow/gcd. Cryptographic-size caller-defined curves are represented by the catalogue only.",
    "DESIGN.md §1 C01")
