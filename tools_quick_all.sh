#!/bin/bash
# Run every registered quick check in /verif against /repo (evidence is rewritten), one after the other; summary lines to stdout.
cd "$(dirname "$0")"
ids=${@:-$(python3 -c "import json;print(' '.join(c['property_id'] for c in json.load(open('MANIFEST.json'))['checks']))")}
for id in $ids; do
  /venv/bin/python run_check.py "$id" 2>&1 | grep -E "VIOLATION|KNOWN-FINDING|HARNESS|signature:|tier=" | cut -c1-300
done
python3-vt tools_validate_evidence.py | grep -v "^ok"
echo "=== done $(date +%H:%M:%S)"
