#!/bin/bash
# Offline setup: hypothesis beside the repo's packages (no-op when present), atheris into /verif/.deps
cd "$(dirname "$0")"
export PIP_NO_INDEX=1
/venv/bin/python -c "import hypothesis" 2>/dev/null || /venv/bin/pip install --no-index --find-links /opt/veriftools/wheels hypothesis
mkdir -p .deps
PYTHONPATH=.deps /venv/bin/python -c "import atheris" 2>/dev/null || /venv/bin/pip install --no-index --find-links /opt/veriftools/wheels --target .deps atheris >/dev/null 2>&1 || echo "atheris not installable for this interpreter: coverage-guided tier disabled"
/venv/bin/python -c "import hypothesis, btclib; print('setup ok: hypothesis', hypothesis.__version__, 'btclib', btclib.__file__)"
