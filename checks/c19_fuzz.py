"""Coverage-guided tier of C19 (and of C05's round-trip oracle): atheris campaigns as units of an exhaustive-style sub-check.

A unit is [target, shard, runs]; it runs fuzz/target.py in a subprocess on a fresh corpus directory seeded with a few valid
encodings, with libFuzzer's -seed derived from VERIF_SEED. A saved crashing input is re-run in-process through the same oracle
to name its root cause and is reported as the replay unit [target, "input", hex]. Without atheris (no wheel for the interpreter)
the units are skipped and counted as such.
"""

from __future__ import annotations

import json
import os
import re
import shutil
import subprocess
import sys
import tempfile
import traceback

from vlib import fuzz_oracles
from vlib.runner import derive_seed

HERE = os.path.dirname(os.path.abspath(__file__))
VERIF = os.path.dirname(HERE)
TARGETS = sorted(fuzz_oracles.TARGETS)
RUNS = {"quick": 3000, "thorough": 2000000}
SHARDS = {"quick": 1, "thorough": 4}
MAX_TIME = {"quick": 60, "thorough": 900}


def _corpus():
    with open(os.path.join(VERIF, "vectors", "c19_corpus.json")) as fh:
        return json.load(fh)


def seeds(target: str) -> list[bytes]:
    c = _corpus()
    import base64

    if target == "tx":
        return [bytes.fromhex(x) for x in c["tx_hex"][:12]]
    if target == "block":
        return [bytes.fromhex(x)[:4000] for x in c["block_hex"][:2]] + [bytes.fromhex(c["block_hex"][0])[:80]]
    if target == "psbt":
        return [base64.b64decode(x) for x in c["psbt_b64"][:12]]
    if target == "message":
        from vlib.models import tx_ref

        payload = bytes(8)
        return [bytes.fromhex("f9beb4d9") + b"ping".ljust(12, b"\x00") + len(payload).to_bytes(4, "little") + tx_ref.hash256(payload)[:4] + payload]
    if target == "script":
        return [bytes.fromhex(x) for x in ("76a914" + "11" * 20 + "88ac", "0014" + "22" * 20, "5121" + "02" + "33" * 32 + "51ae", "6a04deadbeef", "02" + "0047" + "30" * 0x47 + "00")]
    if target == "keys_sigs":
        return [bytes.fromhex("30440220" + "11" * 32 + "0220" + "22" * 32), bytes(64), bytes.fromhex("0488b21e" + "00" * 9 + "11" * 32 + "02" + "79be667ef9dcbbac55a06295ce870b07029bfcdb2dce28d959f2815b16f81798")]
    if target == "descriptor":
        return [x.encode() for x in c["descriptors"][:20]]
    if target == "miniscript":
        return [x[0].encode() for x in c["miniscripts"][:20]]
    if target == "miniscript_script":
        from btclib.descriptors import miniscript

        out = []
        for expr, ctx in c["miniscripts"][:40]:
            node = miniscript.parse(expr, ctx)
            out.append(bytes(node.script() if callable(node.script) else node.script))
        return out
    if target == "text_codecs":
        # the structured form of the C06 oracle: (hrp, flags|version, length) + program + (position, character) edits; lower and upper case, both checksum constants
        # (the program of the seeds is the bit pattern of the letter k, the one letter of the alphabet that a character outside ASCII case-maps to)
        structured = [bytes([h, v, n]) + (b"\xb5\xad\x6b\x5a\xd6" * 8)[:n] + tail for h, (v, n) in enumerate([(0, 20), (0x90, 32), (1, 32), (0x91, 2), (0x40, 20), (16, 40)])
                      for tail in (b"", b"\x05\x71", b"\x00\x90")]
        return [x.encode() for x in c["addresses"][:10] + c["xkeys"][:4] + c["psbt_b64"][:2]] + [b"bitcoin:1BgGZ9tcN4rm9KBzDn7KprQz87SZ26SAMH?amount=1.5&label=x"] + structured
    return [b""]


# the targets whose oracle holds an assertion of each property (vlib/fuzz_oracles.py names the property of every assertion)
TARGETS_OF = {
    "C19": TARGETS,
    "C05": ["block", "keys_sigs", "message", "psbt", "script", "tx"],
    "C06": ["text_codecs"],
    "C14": ["descriptor"],
    "C15": ["miniscript", "miniscript_script"],
}


def units(tier: str, prop: str = "C19") -> list:
    return [[t, shard, RUNS[tier]] for t in TARGETS_OF[prop] for shard in range(SHARDS[tier])]


def name_root_cause(target: str, data: bytes, prop: str = "C19") -> tuple[str, str] | None:
    """Re-run the oracle in-process, asking for the assertions of one property: (signature, detail) of what it raises, None if it passes.
    An exception outside the library's classes is C19's to report; under another property it is not a finding of that property."""
    from vlib import determinism
    from vlib.runner import _through_btclib

    determinism.reset([target, data.hex()])
    before = fuzz_oracles.ACTIVE
    fuzz_oracles.ACTIVE = {prop}
    try:
        fuzz_oracles.TARGETS[target](data)
    except fuzz_oracles.FuzzViolation as v:
        return f"fuzz:{v.signature}", v.detail
    except RecursionError as e:
        return (f"fuzz:{target}:crash:RecursionError", repr(e)[:300]) if prop == "C19" else None
    except Exception as e:  # noqa: BLE001  bucketed by type and innermost library frame, as the runner does
        if prop != "C19":
            return None
        frame = _through_btclib(e.__traceback__)
        tb = "".join(traceback.format_exception(type(e), e, e.__traceback__))[-1500:]
        return f"fuzz:{target}:crash:{type(e).__name__}@{frame}", tb
    finally:
        fuzz_oracles.ACTIVE = before
    return None


def run_unit(unit, col, prop: str = "C19") -> None:
    target = unit[0]
    if unit[1] == "input":
        data = bytes.fromhex(unit[2])
        found = name_root_cause(target, data, prop)
        if found:
            col.fail(found[0], {"unit": unit}, found[1])
        else:
            col.bulk(1, 1)
        return
    _, shard, runs = unit
    try:
        sys.path.insert(0, os.path.join(VERIF, ".deps"))
        import atheris  # noqa: F401
    except ImportError:
        col.bulk(1, 0, tags={"atheris-not-installed": 1})
        return
    finally:
        sys.path.pop(0)
    work = tempfile.mkdtemp(prefix=f"fuzz.{target}.", dir=os.environ.get("VERIF_WORK") or None)
    try:
        corpus = os.path.join(work, "corpus")
        crashes = os.path.join(work, "crashes")
        os.makedirs(corpus)
        os.makedirs(crashes)
        for k, s in enumerate(seeds(target)):
            with open(os.path.join(corpus, f"seed{k:03d}"), "wb") as fh:
                fh.write(s)
        n_seeds = len(os.listdir(corpus))
        seed = derive_seed(int(os.environ.get("VERIF_SEED", "1")), "fuzz", target, shard) % (2**31 - 1) + 1
        tier_time = MAX_TIME["quick" if runs <= RUNS["quick"] else "thorough"]
        cmd = ["/venv/bin/python", os.path.join(VERIF, "fuzz", "target.py"), target, corpus, f"-runs={runs}", f"-seed={seed}", f"-max_total_time={tier_time}",
               f"-artifact_prefix={crashes}/", "-max_len=4096", "-print_final_stats=1", "-timeout=30", "-rss_limit_mb=4096"]
        env = dict(os.environ, PYTHONHASHSEED="0", FUZZ_PROPS=prop)
        try:
            r = subprocess.run(cmd, capture_output=True, text=True, env=env, timeout=tier_time + 600)
        except subprocess.TimeoutExpired:
            # the machine is too loaded for the campaign to end inside its budget: inconclusive, neither a violation nor a fault of the harness
            col.bulk(1, 0, tags={f"fuzz:{target}:campaign-timed-out-inconclusive": 1})
            return
        out = r.stderr + r.stdout
        m = re.search(r"stat::number_of_executed_units:\s*(\d+)", out)
        executed = int(m.group(1)) if m else len(re.findall(r"^#\d+", out, re.M))
        new_units = max(0, len(os.listdir(corpus)) - n_seeds)
        artifacts = sorted(os.listdir(crashes))
        for a in artifacts:
            with open(os.path.join(crashes, a), "rb") as fh:
                data = fh.read()
            kind = a.split("-")[0]
            if kind != "crash":
                # libFuzzer also saves slow units, time-outs and out-of-memory inputs under the prefix: none of them is a verdict of the oracle
                col.bulk(0, 0, tags={f"fuzz:{target}:{kind}-inconclusive": 1})
                continue
            found = name_root_cause(target, data, prop)
            if found:
                col.fail(found[0], {"unit": [target, "input", data.hex()]}, found[1])
            else:
                # what does not replay is not reported (the runner's rule for every other sub-check)
                col.bulk(0, 0, tags={f"fuzz:{target}:crash-that-does-not-replay": 1})
        if not artifacts and r.returncode not in (0,):
            col.harness_errors.append(f"fuzz target {target} exited {r.returncode}: {out[-400:]}")
        if executed < runs:
            col.bulk(0, 0, tags={f"fuzz:{target}:stopped-by-the-time-budget-after-{executed * 100 // max(runs, 1)}%": 1})
        col.bulk(max(executed, 1), new_units, {"target": target, "executions": executed, "corpus_units_added": new_units, "libfuzzer_seed": seed}, {f"target={target}": 1, "campaigns": 1})
    finally:
        shutil.rmtree(work, ignore_errors=True)
