"""C12 — taproot outputs commit to exactly their key and script tree."""

from __future__ import annotations

from hypothesis import strategies as st

import btclib.script.taproot as tap
from btclib.curves.curve import is_libsecp256k1_serving, set_libsecp256k1_serving
from btclib.exceptions import BTClibTypeError, BTClibValueError
from btclib.script.engine import taproot_unwrap_script
from vlib.models import bip340_ref as b340
from vlib.models import bip341_ref as ref
from vlib.runner import HarnessError, Outcome, SubCheck, Violation

PROPERTY = "C12"
LEVEL = "exploration"
RULE = (
    "Hypothesis-generated internal keys (every spelling, both parities) x recursive binary script trees (depth 0..8 quick, combs to 128/129 thorough, "
    "repeated and unbalanced leaves) x every leaf; oracle = BIP341 helper functions transcribed over the BIP340 reference (vlib/models/bip341_ref.py); "
    "single-bit tampering of control block / script / output key must never verify."
)
ASSUMPTIONS = ["bip341_ref transcribes BIP341's taproot_tweak_pubkey/taproot_tweak_seckey/taproot_tree_helper and the script-path commitment check; validated on a BIP341 wallet vector at start",
               "a tweak >= n (probability 2^-128) is reached by patching tagged_hash for one call (fault injection)"]
N, P = b340.n, b340.p
REFUSAL = (BTClibValueError, BTClibTypeError)
OPS = {"OP_CHECKSIG": 0xAC, "OP_TRUE": 0x51, "OP_DROP": 0x75, "OP_CHECKSIGADD": 0xBA, "OP_NUMEQUAL": 0x9C, "OP_EQUAL": 0x87, "OP_CHECKSIGVERIFY": 0xAD, "OP_DUP": 0x76}


class backend:
    def __init__(self, serving):
        self.serving = bool(serving)

    def __enter__(self):
        self.prev = is_libsecp256k1_serving()
        set_libsecp256k1_serving(serving=self.serving)

    def __exit__(self, *a):
        set_libsecp256k1_serving(serving=self.prev)


def validate_models() -> None:
    # BIP341 wallet-test-vectors, scriptPubKey[1]: one leaf
    ik = bytes.fromhex("187791b6f712a8ea41c8ecdd0ee77fab3e85263b37e1ec18a3651926b3a6cf27")
    script = bytes.fromhex("20d85a959b0290bf19bb89ed43c916be835475d013da4b362117393e25a48229b8ac")
    leaves, root = ref.tree_helper(("leaf", 0xC0, script))
    if root.hex() != "5b75adecf53548f3ec6ad7d78383bf84cc57b55a3127c72b9a2481752dd88b21":
        raise HarnessError("bip341_ref leaf hash")
    par, q = ref.taproot_tweak_pubkey(ik, root)
    if q.hex() != "147c9c57132f6e7ecddba9800bb0c4449251c92a1e60371ee77557b6620f3ea3":
        raise HarnessError("bip341_ref tweak")
    control = bytes([0xC0 | par]) + ik
    if control.hex() != "c1187791b6f712a8ea41c8ecdd0ee77fab3e85263b37e1ec18a3651926b3a6cf27" or not ref.verify_control(q, script, control):
        raise HarnessError("bip341_ref control block")


# ---- trees as JSON: ["leaf", version, [commands]] | ["branch", left, right]; a command is an opcode name or "push:<hex>"
def commands():
    return st.lists(st.one_of(st.sampled_from(list(OPS)), st.binary(min_size=2, max_size=40).map(lambda b: "push:" + b.hex()), st.binary(min_size=32, max_size=32).map(lambda b: "push:" + b.hex())), min_size=1, max_size=4)


def leaf():
    return st.tuples(st.just("leaf"), st.sampled_from([0xC0, 0xC0, 0xC0, 0xC2, 0x66, 0xFE, 0xC1]), commands()).map(list)


def tree(max_leaves=8):
    return st.recursive(leaf(), lambda ch: st.tuples(st.just("branch"), ch, ch).map(list), max_leaves=max_leaves)


def ser_cmds(cmds) -> bytes:
    out = b""
    for c in cmds:
        if c.startswith("push:"):
            d = bytes.fromhex(c[5:])
            out += bytes([len(d)]) + d
        else:
            out += bytes([OPS[c]])
    return out


def lib_cmds(cmds):
    return [bytes.fromhex(c[5:]) if c.startswith("push:") else c for c in cmds]


def to_lib(t):
    if t[0] == "leaf":
        return [(t[1], lib_cmds(t[2]))]
    return [to_lib(t[1]), to_lib(t[2])]


def _has_odd_version(t) -> bool:
    return bool(t[1] & 1) if t[0] == "leaf" else _has_odd_version(t[1]) or _has_odd_version(t[2])


def to_ref(t):
    if t[0] == "leaf":
        return ("leaf", t[1] & 0xFE, ser_cmds(t[2]))
    return ("branch", to_ref(t[1]), to_ref(t[2]))


def depth(t):
    return 0 if t[0] == "leaf" else 1 + max(depth(t[1]), depth(t[2]))


NUMS_X = bytes.fromhex("50929b74c1a04954b78b4b6035e97a5e078a5a0f28ec96d547bfee9ace803ac0")  # BIP341: H = lift_x(...), nobody's key


def nleaves(t):
    return 1 if t[0] == "leaf" else nleaves(t[1]) + nleaves(t[2])


def comb(k, version=0xC0):
    t = ["leaf", version, ["OP_TRUE"]]
    for i in range(k):
        t = ["branch", ["leaf", version, ["push:" + i.to_bytes(2, "big").hex(), "OP_DROP", "OP_TRUE"]], t]
    return t


def key_spellings(q: int, how: str, seed: bytes):
    Pt = b340.point_mul(b340.G, q)
    x = Pt[0].to_bytes(32, "big")
    if how == "prv-int":
        return q
    if how == "prv-bytes":
        return q.to_bytes(32, "big")
    if how == "prv-hex":
        return q.to_bytes(32, "big").hex()
    if how == "sec33-hex":
        return (bytes([2 + (Pt[1] & 1)]) + x).hex()
    if how == "sec33":
        return bytes([2 + (Pt[1] & 1)]) + x
    if how == "sec65":
        return b"\x04" + x + Pt[1].to_bytes(32, "big")
    if how == "sec65-hex":
        return (b"\x04" + x + Pt[1].to_bytes(32, "big")).hex()
    if how in ("wif", "wif-uncompressed"):
        from vlib.models import base58_ref

        return base58_ref.check_encode(b"\x80" + q.to_bytes(32, "big") + (b"\x01" if how == "wif" else b""))
    if how in ("xprv", "xpub"):
        from vlib.models import base58_ref

        chain = b"\x07" * 32
        if how == "xprv":
            return base58_ref.check_encode(bytes.fromhex("0488ade4") + bytes(9) + chain + b"\x00" + q.to_bytes(32, "big"))
        return base58_ref.check_encode(bytes.fromhex("0488b21e") + bytes(9) + chain + bytes([2 + (Pt[1] & 1)]) + x)
    if how == "point":
        return Pt
    return q


@st.composite
def commit_case(draw, max_leaves=8):
    return {"q": draw(st.one_of(st.sampled_from([1, 2, 3, N - 1]), st.integers(1, N - 1))), "tree": draw(st.one_of(st.none(), tree(max_leaves))),
            "spelling": draw(st.sampled_from(["prv-bytes", "prv-hex", "sec33", "sec33-hex", "sec65", "sec65-hex", "point", "prv-int", "wif", "wif-uncompressed", "xprv", "xpub", "nums"])), "dup_leaf": draw(st.booleans()), "backend": draw(st.booleans()),
            "root": draw(st.binary(min_size=32, max_size=32)).hex()}


def check_commit(case):
    q = case["q"]
    t = case["tree"]
    if t is not None and case["dup_leaf"] and t[0] == "branch":
        t = ["branch", t[1], ["branch", t[1], t[2]]]  # a repeated subtree
    Pt = b340.point_mul(b340.G, q)
    x = Pt[0].to_bytes(32, "big")
    nums = case["spelling"] == "nums" and t is not None  # no internal key: BIP341's unspendable point, script path only
    if nums:
        x = NUMS_X
    tags = [f"leaves={min(nleaves(t), 4) if t else 0}", f"bindings={case['backend']}", "spelling=" + ("nums" if nums else "prv-int" if case["spelling"] == "nums" else case["spelling"])]
    with backend(case["backend"]):
        if t is None:
            h = b""
            leaves = []
        else:
            leaves, h = ref.tree_helper(to_ref(t))
        par, Q = ref.taproot_tweak_pubkey(x, h)
        tags.append(f"parity={par}")
        key = None if nums else key_spellings(q, "prv-int" if case["spelling"] == "nums" else case["spelling"], b"")
        try:
            got = tap.output_pubkey(key, to_lib(t) if t else None)
        except BTClibValueError:
            if t is not None and _has_odd_version(t):
                # BIP341 leaf versions are even; a library may drop the low bit of an odd one (this one does) or refuse it
                return Outcome(False, (*tags, "odd-leaf-version-refused"))
            raise
        if got != (Q, par):
            raise Violation(f"commitment:output-key:spelling={case['spelling']}:bindings={case['backend']}", f"lib={got[0].hex()},{got[1]} ref={Q.hex()},{par} tree={t}")
        if tap.output_pubkey_from_merkle_root(x, h) != (Q, par):
            raise Violation("commitment:from-merkle-root", "")
        r = bytes.fromhex(case["root"])
        pr, Qr = ref.taproot_tweak_pubkey(x, r)
        if tap.output_pubkey_from_merkle_root(x, r) != (Qr, pr):
            raise Violation("commitment:from-arbitrary-root", "")
        # private side
        if nums:
            d = ref.taproot_tweak_seckey(q, h)  # nobody knows the key behind the unspendable point: the private side is asked of q all the same
            Q_own = ref.taproot_tweak_pubkey(Pt[0].to_bytes(32, "big"), h)[1]
        else:
            Q_own = Q
        d = tap.output_prvkey(q, to_lib(t) if t else None)
        # (the output key is x-only: d and n - d both open it, and which of the two is returned is the implementation's choice)
        if d not in (ref.taproot_tweak_seckey(q, h), N - ref.taproot_tweak_seckey(q, h)) or b340.point_mul(b340.G, d)[0].to_bytes(32, "big") != Q_own:
            raise Violation(f"commitment:output-prvkey:bindings={case['backend']}", f"q={q:x}")
        if tap.output_prvkey_from_merkle_root(q, r) not in (ref.taproot_tweak_seckey(q, r), N - ref.taproot_tweak_seckey(q, r)):
            raise Violation("commitment:prvkey-from-root", "")
        # proofs for every leaf
        if t is not None:
            lt = to_lib(t)
            lib_leaves, lib_root = tap.tree_helper(lt)
            if lib_root != h or len(lib_leaves) != len(leaves):
                raise Violation("proofs:merkle-root", f"tree={t}")
            for i, ((ver, script), path) in enumerate(leaves):
                cmds, control = tap.input_script_sig(key, lt, i)
                sb = tap.serialize(cmds)
                want_control = bytes([ver | par]) + x + path
                if sb != script or control != want_control:
                    raise Violation("proofs:control-block", f"leaf={i} lib={control.hex()} ref={want_control.hex()}")
                if tap.check_output_pubkey(Q, sb, control) is not True or not ref.verify_control(Q, sb, control):
                    raise Violation(f"proofs:own-proof-rejected:bindings={case['backend']}", f"leaf={i}")
                spk = b"\x51\x20" + Q
                s2, stack, lv = taproot_unwrap_script(spk, [b"\x01", sb, control])
                if (s2, stack, lv) != (sb, [b"\x01"], ver):
                    raise Violation("proofs:engine-unwrap", f"leaf={i}")
            for bad in (len(leaves), -1):
                try:
                    tap.input_script_sig(key, lt, bad)
                    raise Violation("proofs:leaf-index-out-of-range-answered", str(bad))
                except REFUSAL:
                    pass
    nt = t is not None and (nleaves(t) >= 3 or depth(t) != 0 and nleaves(t) != 2 ** depth(t))
    return Outcome(bool(nt) or t is None and par == 1, tuple(tags))


# ---------------------------------------------------------------- tampering
@st.composite
def tamper_case(draw):
    return {"q": draw(st.integers(1, N - 1)), "tree": draw(tree(6)), "leaf": draw(st.integers(0, 100)), "what": draw(st.sampled_from(["control-bit", "control-bit", "script-bit", "key-bit", "truncate", "extend", "swap-path", "drop-path-el", "append-path-el", "parity", "leaf-version"])),
            "bit": draw(st.integers(0, 10**6)), "backend": draw(st.booleans())}


def check_tamper(case):
    t = case["tree"]
    q = case["q"]
    x = b340.point_mul(b340.G, q)[0].to_bytes(32, "big")
    leaves, h = ref.tree_helper(to_ref(t))
    par, Q = ref.taproot_tweak_pubkey(x, h)
    i = case["leaf"] % len(leaves)
    (ver, script), path = leaves[i]
    control = bytes([ver | par]) + x + path
    what, bit = case["what"], case["bit"]
    c2, s2, q2 = bytearray(control), bytearray(script), bytearray(Q)
    if what == "control-bit":
        b = bit % (8 * len(c2)); c2[b // 8] ^= 1 << (b % 8)
    elif what == "script-bit":
        b = bit % (8 * len(s2)); s2[b // 8] ^= 1 << (b % 8)
    elif what == "key-bit":
        b = bit % 256; q2[b // 8] ^= 1 << (b % 8)
    elif what == "truncate":
        c2 = c2[: max(0, len(c2) - 1 - bit % 33)]
    elif what == "extend":
        c2 += bytes([bit % 256]) * (1 + bit % 32)
    elif what == "swap-path":
        m = len(path) // 32
        if m < 2:
            return Outcome(False, ("no-two-path-elements",))
        a, b = bit % m, (bit // 7) % m
        if a == b:
            b = (a + 1) % m
        els = [bytes(c2[33 + 32 * k : 65 + 32 * k]) for k in range(m)]
        els[a], els[b] = els[b], els[a]
        c2 = c2[:33] + b"".join(els)
    elif what == "drop-path-el":
        if len(path) < 32:
            return Outcome(False, ("no-path",))
        c2 = c2[:-32]
    elif what == "append-path-el":
        c2 += bytes([bit % 256]) * 32
    elif what == "parity":
        c2[0] ^= 1
    elif what == "leaf-version":
        c2[0] ^= 2 << (bit % 7)
    c2, s2, q2 = bytes(c2), bytes(s2), bytes(q2)
    if (c2, s2, q2) == (control, script, Q):
        return Outcome(False, ("unchanged",))
    want = ref.verify_control(q2, s2, c2)
    with backend(case["backend"]):
        try:
            got = tap.check_output_pubkey(q2, s2, c2)
        except BTClibValueError:
            got = False
    if got is not want:
        raise Violation(f"tamper:{what}:lib={got}:ref={want}:bindings={case['backend']}", f"control={c2.hex()} script={s2.hex()} q={q2.hex()}")
    if got and what not in ("swap-path",):
        raise Violation(f"tamper:{what}:altered-proof-verifies", "")
    return Outcome(True, (what, f"bindings={case['backend']}"))


# ---------------------------------------------------------------- refusals
@st.composite
def refusal_case(draw):
    return {"kind": draw(st.sampled_from(["x-not-on-curve", "x>=p", "x-short", "x-long", "tweak>=n", "tweak>=n-prv", "tweak>=n-check"])), "x": draw(st.integers(0, 2**256 - 1)), "q": draw(st.integers(1, N - 1)),
            "root": draw(st.one_of(st.just(""), st.binary(min_size=32, max_size=32).map(bytes.hex))), "backend": draw(st.booleans())}


def check_refusal(case):
    kind = case["kind"]
    root = bytes.fromhex(case["root"])
    x = case["x"]
    with backend(case["backend"]):
        try:
            if kind == "x-not-on-curve":
                x %= P
                while b340.lift_x(x) is not None:
                    x = (x + 1) % P
                r = tap.output_pubkey_from_merkle_root(x.to_bytes(32, "big"), root)
            elif kind == "x>=p":
                x = P + x % (2**256 - P)
                r = tap.output_pubkey_from_merkle_root(x.to_bytes(32, "big"), root)
            elif kind == "x-short":
                r = tap.output_pubkey_from_merkle_root(x.to_bytes(32, "big")[:31], root)
            elif kind == "x-long":
                r = tap.output_pubkey_from_merkle_root(x.to_bytes(32, "big") + b"\x00", root)
            else:
                # fault injection: the TapTweak hash of this one call is >= n
                real = tap.tagged_hash
                hit = [0]

                def fake(tag, m, *a, **k):
                    if tag == b"TapTweak":
                        hit[0] += 1
                        return (N + case["x"] % (2**256 - N)).to_bytes(32, "big")
                    return real(tag, m, *a, **k)

                xq = b340.point_mul(b340.G, case["q"])[0].to_bytes(32, "big")
                tap.tagged_hash = fake
                try:
                    if kind == "tweak>=n":
                        r = tap.output_pubkey_from_merkle_root(xq, root)
                    elif kind == "tweak>=n-prv":
                        r = tap.output_prvkey_from_merkle_root(case["q"], root)
                    else:
                        r = tap.check_output_pubkey(xq, b"\x51", b"\xc0" + xq)
                        if r is False:
                            raise BTClibValueError("refused as False")
                finally:
                    tap.tagged_hash = real
                if not hit[0]:
                    # the library no longer reaches its TapTweak hash through the name this injection replaces: there was no out-of-range tweak to refuse
                    return Outcome(False, (kind, "injection-not-in-effect"))
        except REFUSAL:
            return Outcome(True, (kind, f"bindings={case['backend']}"))
    raise Violation(f"refusals:answered:{kind}:bindings={case['backend']}", repr(r)[:200])


# ---------------------------------------------------------------- deep combs + bip86 (thorough-leaning)
@st.composite
def deep_case(draw):
    return {"q": draw(st.integers(1, N - 1)), "depth": draw(st.sampled_from([1, 2, 64, 127, 128, 129])), "leaf": draw(st.one_of(st.sampled_from([0, -1, -2, -3]), st.integers(0, 200))), "backend": draw(st.booleans())}


def check_deep(case):
    t = comb(case["depth"])
    x = b340.point_mul(b340.G, case["q"])[0].to_bytes(32, "big")
    import sys
    leaves, h = ref.tree_helper(to_ref(t))
    par, Q = ref.taproot_tweak_pubkey(x, h)
    with backend(case["backend"]):
        try:
            got = tap.output_pubkey(b'\x02' + x, to_lib(t))
        except BTClibValueError:
            if case["depth"] > 128:
                return Outcome(True, ("depth>128-refused",))
            raise
        if got != (Q, par):
            raise Violation("deep:output-key", f"depth={case['depth']}")
        i = case["leaf"] % len(leaves)
        (ver, script), path = leaves[i]
        try:
            cmds, control = tap.input_script_sig(b'\x02' + x, to_lib(t), i)
        except BTClibValueError:
            if len(path) // 32 > 128:
                return Outcome(True, ("deep-leaf-control-refused",))  # a leaf below depth 128 has no control block to be spent with
            raise
        if control != bytes([ver | par]) + x + path:
            raise Violation("deep:control", f"depth={case['depth']} leaf={i}")
        try:
            ok = tap.check_output_pubkey(Q, script, control)
        except BTClibValueError:
            ok = False
        want = ref.verify_control(Q, script, control)  # False for a path longer than 128
        if ok is not want:
            raise Violation(f"deep:check:lib={ok}:ref={want}", f"depth={case['depth']} leaf={i} pathlen={len(path)//32}")
    pl = len(path) // 32
    return Outcome(True, (f"depth={case['depth']}", f"pathlen={'>128' if pl > 128 else '=128' if pl == 128 else '<128'}"))


def _run_boundary(unit, col) -> None:
    depth, leaf_, bk = unit
    case = {"q": 0x1234567 + depth, "depth": depth, "leaf": leaf_, "backend": bk}
    try:
        out = check_deep(case)
    except Violation as v:
        col.fail(v.signature, {"unit": unit}, v.detail)
        return
    col.bulk(1, 1, sample={"unit": unit}, tags={t: 1 for t in (out.tags if out else ())})


SUBCHECKS = [
    SubCheck("commitment_and_proofs", check_commit, "output key/parity, tweaked private key, merkle root and every leaf's control block vs BIP341 reference; non-trivial: >=3 leaves or unbalanced tree, or key-only with odd parity", lambda: commit_case(8), quick=700, thorough=12000),
    SubCheck("tamper", check_tamper, "one bit of control block / script / output key flipped, control truncated/extended, path elements swapped/dropped/added: verdict equals the reference and an altered proof never verifies", tamper_case, quick=1100, thorough=20000),
    SubCheck("refusals", check_refusal, "internal x not on curve / >= p / wrong size refused; tweak >= n (forced through tagged_hash) refused, same on both backends", refusal_case, quick=300, thorough=3000),
    SubCheck("depth_boundary", lambda c: None, "the 128-element path limit met on purpose: comb trees of depth 127, 128 and 129 x the three deepest leaves x both back ends (18 units, the same at every seed)",
             units=lambda tier: [[d, leaf_, bk] for d in (127, 128, 129) for leaf_ in (-1, -2, -3) for bk in (True, False)], run_unit=lambda unit, col: _run_boundary(unit, col), exhaustive=True),
    SubCheck("deep_trees", check_deep, "comb trees of depth 1..129: output key, control block of any leaf, and the 128-element path limit", deep_case, quick=64, thorough=600),
]
