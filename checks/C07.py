"""C07 — BIP32 derivation obeys the BIP's equations and its algebraic laws."""

from __future__ import annotations

import hashlib
import hmac as _hmac

from hypothesis import strategies as st

import btclib.bip32.bip32 as lib_bip32
from btclib.bip32 import (
    BIP32KeyData,
    bytes_from_der_path,
    crack_prv_key_var,
    derive,
    derive_,
    derive_from_account_,
    derive_from_account_range_,
    indexes_from_der_path,
    rootxprv_from_seed_,
    str_from_der_path,
    xpub_from_xprv_,
)
from btclib.bip32.bip32 import fingerprint
from btclib.curves.curve import is_libsecp256k1_serving, set_libsecp256k1_serving
from btclib.exceptions import BTClibTypeError, BTClibValueError
from btclib.network import NETWORKS
from vlib.models import bip32_ref as ref
from vlib.models.bip340_ref import G, n, point_mul
from vlib.runner import HarnessError, Outcome, SubCheck, Violation

PROPERTY = "C07"
LEVEL = "exploration"
RULE = (
    "Hypothesis-generated seeds (128..512 bits), paths of depth 0..12 (quick) / up to 255 (thorough) with indexes on the 2^31 boundaries, "
    "every xprv/xpub version of every network, every path spelling, both backends; oracle = BIP32 transcription (vlib/models/bip32_ref.py); "
    "invalid children are forced by swapping the HMAC the derivation reads (fault injection)."
)
ASSUMPTIONS = ["bip32_ref transcribes BIP32's CKDpriv/CKDpub; validated on BIP32 test vector 1 at start", "fault injection replaces btclib.bip32.bip32.hmac from the harness for the duration of one call"]
H = 0x80000000

VERSIONS = []  # (name, prv, pub)
for _net in NETWORKS.values():
    for _k in ("bip32", "slip132_p2wpkh", "slip132_p2wpkh_p2sh", "slip132_p2wsh", "slip132_p2wsh_p2sh"):
        pair = (getattr(_net, _k + "_prv"), getattr(_net, _k + "_pub"))
        if pair not in [v[1:] for v in VERSIONS]:
            VERSIONS.append((f"{_k}", *pair))


class backend:
    def __init__(self, serving):
        self.serving = bool(serving)

    def __enter__(self):
        self.prev = is_libsecp256k1_serving()
        set_libsecp256k1_serving(serving=self.serving)

    def __exit__(self, *a):
        set_libsecp256k1_serving(serving=self.prev)


def validate_models() -> None:
    seed = bytes.fromhex("000102030405060708090a0b0c0d0e0f")
    d = ref.derive_priv(seed, [H, 1, H + 2, 2, 1000000000])
    if d["k"] != 0x471B76E389E528D6DE6D816857E012C5455051CAD6660850E58372A6C3E6E7C8 or d["chain_code"].hex() != "c783e67b921d2beb8f6b389cc646d7263b4145701dadd2161548a8b078e65e9e":
        raise HarnessError("bip32_ref vector 1")
    if d["parent_fingerprint"].hex() != "d880d7d8":
        raise HarnessError("bip32_ref fingerprint")
    # the public side of the model: m/0H/1 derived from m/0H's public key is the point of the private derivation
    from vlib.models import bip340_ref as _b

    a = ref.derive_priv(seed, [H])
    b = ref.derive_priv(seed, [H, 1])
    K, c = ref.ckd_pub(_b.point_mul(_b.G, a["k"]), a["chain_code"], 1)
    if K != _b.point_mul(_b.G, b["k"]) or c != b["chain_code"]:
        raise HarnessError("bip32_ref public derivation")


def index_st():
    return st.one_of(st.sampled_from([0, 1, 2, H - 1, H, H + 1, 2 * H - 1, 44 + H, 84 + H]), st.integers(0, 2 * H - 1), st.integers(0, 20))


def seeds():
    return st.sampled_from([16, 20, 24, 32, 33, 64]).flatmap(lambda k: st.binary(min_size=k, max_size=k)).map(bytes.hex)


def spell(path, how):
    if how == "list":
        return list(path)
    if how == "bytes":
        return b"".join(i.to_bytes(4, "little") for i in path)
    sym = {"h": "h", "'": "'", "H": "H"}.get(how, "h")
    body = "/".join(str(i - H) + sym if i >= H else str(i) for i in path)
    if how == "m-prefix" or not body:
        return "m" + ("/" + body if body else "")
    return body


def _xprv_fields(x: BIP32KeyData):
    return {"depth": x.depth, "parent_fingerprint": x.parent_fingerprint, "index": x.index, "chain_code": x.chain_code, "key": x.key, "version": x.version}


# ---------------------------------------------------------------- equations + laws
@st.composite
def derive_case(draw, max_depth=12):
    if max_depth > 12:
        # the length is drawn, not left to the list strategy (which almost never goes beyond a few dozen elements): the boundary depths and the range between
        length = draw(st.one_of(st.sampled_from([13, 64, 128, 254, 255, 255]), st.integers(13, max_depth)))
        path = draw(st.lists(index_st(), min_size=length, max_size=length))
    else:
        path = draw(st.lists(index_st(), max_size=max_depth))
    pub_from = draw(st.integers(0, max(len(path), 1)))
    if max_depth > 12 and draw(st.integers(0, 3)):
        # a long public tail: every step after the neutering point unhardened (a random index is hardened every other time, and a long
        # path would never be derived publicly); one deep case in four keeps the hardened step that must be refused
        path = path[:pub_from] + [i % H for i in path[pub_from:]]
    return {
        "seed": draw(seeds()), "path": path, "version": draw(st.integers(0, len(VERSIONS) - 1)),
        "spelling": draw(st.sampled_from(["list", "bytes", "h", "'", "H", "m-prefix"])),
        "split": draw(st.integers(0, max(len(path), 1))), "backend": draw(st.booleans()),
        "pub_from": pub_from,
    }


def check_derive(case):
    seed = bytes.fromhex(case["seed"])
    path = case["path"]
    _, vprv, vpub = VERSIONS[case["version"]]
    with backend(case["backend"]):
        root = rootxprv_from_seed_(seed, vprv)
        mk, mc = ref.master(seed)
        if (root.key, root.chain_code, root.depth, root.index, root.parent_fingerprint, root.version) != (b"\x00" + mk.to_bytes(32, "big"), mc, 0, 0, b"\x00" * 4, vprv):
            raise Violation("equations:master-key", seed.hex())
        want = ref.derive_priv(seed, path)
        got = derive_(root, spell(path, case["spelling"]))
        f = _xprv_fields(got)
        exp = {"depth": want["depth"], "parent_fingerprint": want["parent_fingerprint"], "index": want["index"], "chain_code": want["chain_code"],
               "key": b"\x00" + want["k"].to_bytes(32, "big"), "version": vprv}
        if f != exp:
            bad = [k for k in f if f[k] != exp[k]]
            raise Violation(f"equations:private-derivation:{'+'.join(bad)}:bindings={case['backend']}", f"path={path} spelling={case['spelling']}")
        # string spelling = object spelling; b58 round trip
        s = derive(root.b58encode(), spell(path, case["spelling"]))
        if BIP32KeyData.b58decode(s) != got:
            raise Violation("equations:string-vs-object", "")
        # law: any split of the path
        k = min(case["split"], len(path))
        if derive_(derive_(root, path[:k]), path[k:]) != got:
            raise Violation(f"laws:split:bindings={case['backend']}", f"path={path} k={k}")
        # neuter
        xpub = xpub_from_xprv_(got)
        K = point_mul(G, want["k"])
        if (xpub.key, xpub.version, xpub.chain_code, xpub.depth, xpub.index, xpub.parent_fingerprint) != (ref.ser_p(K), vpub, got.chain_code, got.depth, got.index, got.parent_fingerprint):
            raise Violation("laws:neuter-fields", f"path={path}")
        if fingerprint(got) != ref.hash160(ref.ser_p(K))[:4] or fingerprint(xpub) != fingerprint(got):
            raise Violation("equations:fingerprint", "")
        # public derivation from the ancestor at pub_from, over the unhardened tail
        j = min(case["pub_from"], len(path))
        tail = path[j:]
        anc = derive_(root, path[:j])
        anc_pub = xpub_from_xprv_(anc)
        if any(i >= H for i in tail):
            try:
                derive_(anc_pub, tail)
            except (BTClibValueError, BTClibTypeError):
                return Outcome(len(path) >= 2, ("hardened-from-public-refused", f"bindings={case['backend']}"))
            raise Violation(f"laws:hardened-from-public-answered:bindings={case['backend']}", f"tail={tail}")
        pub_child = derive_(anc_pub, spell(tail, case["spelling"]))
        if pub_child != xpub:
            raise Violation(f"laws:neuter-derive-commute:bindings={case['backend']}", f"path={path} from={j}")
        # independent CKDpub
        wa = ref.derive_priv(seed, path[:j])
        wp = ref.derive_pub_from(point_mul(G, wa["k"]), wa["chain_code"], wa["depth"], wa["parent_fingerprint"], wa["index"], tail)
        if (pub_child.key, pub_child.chain_code, pub_child.depth, pub_child.parent_fingerprint, pub_child.index) != (ref.ser_p(wp["K"]), wp["chain_code"], wp["depth"], wp["parent_fingerprint"], wp["index"]):
            raise Violation(f"equations:public-derivation:bindings={case['backend']}", f"path={path} from={j}")
        # crack: parent xpub + unhardened child xprv -> parent xprv
        if path and path[-1] < H:
            parent = derive_(root, path[:-1])
            cracked = crack_prv_key_var(xpub_from_xprv_(parent), got)
            if BIP32KeyData.b58decode(cracked) != parent:
                raise Violation("laws:crack-parent", f"path={path}")
        # der_path round trips
        if indexes_from_der_path(str_from_der_path(path)) != list(path) or indexes_from_der_path(bytes_from_der_path(path)) != list(path):
            raise Violation("equations:der-path-roundtrip", f"path={path}")
    nt = len(path) >= 2 or any(i in (H - 1, H, H + 1, 2 * H - 1) for i in path)
    depth_tag = f"depth={min(len(path), 5)}" if len(path) <= 12 else "depth=13..99" if len(path) < 100 else "depth=100..254" if len(path) < 255 else "depth=255"
    return Outcome(nt, (depth_tag, VERSIONS[case["version"]][0], f"bindings={case['backend']}", case["spelling"]))


# ---------------------------------------------------------------- invalid child (fault injection)
class _FaultedHmac:
    """The real HMAC object with its digest replaced when, at the time the digest is asked, it is the one of the faulted step."""

    def __init__(self, proxy, key, real):
        self._proxy, self._key, self._real, self._fed = proxy, bytes(key), real, b""

    def update(self, data):
        self._fed += bytes(data)
        return self._real.update(data)

    def copy(self):
        other = _FaultedHmac(self._proxy, self._key, self._real.copy())
        other._fed = self._fed
        return other

    def digest(self):
        real = self._real.digest()
        self._proxy.calls += 1
        # the faulted step is named by what is hashed (the parent's chain code as key, the child's index as the last four bytes), not by how many
        # HMACs the library computed before it
        if self._key == self._proxy.chain_code and self._fed[-4:] == self._proxy.index4:
            self._proxy.injected += 1
            return self._proxy.make_digest(real)
        return real

    def hexdigest(self):
        return self.digest().hex()

    def __getattr__(self, name):
        return getattr(self._real, name)


class _HmacProxy:
    """Stands in for the `hmac` module inside btclib.bip32.bip32 during one call."""

    def __init__(self, chain_code, index4, make_digest):
        self.calls = 0
        self.injected = 0
        self.chain_code, self.index4 = chain_code, index4
        self.make_digest = make_digest

    def new(self, key, msg=None, digestmod=""):
        try:
            h = _FaultedHmac(self, key, _hmac.new(key, None, digestmod))
            if msg is not None:
                h.update(msg)
            return h
        except Exception as e:  # noqa: BLE001  a fault of this stand-in is not the library's
            raise HarnessError(f"hmac stand-in: {type(e).__name__}: {e}") from e

    def digest(self, key, msg, digest):
        h = self.new(key, msg, digest)
        return h.digest()

    def __getattr__(self, name):
        return getattr(_hmac, name)


@st.composite
def invalid_case(draw):
    path = draw(st.lists(index_st(), min_size=1, max_size=6))
    public = draw(st.booleans())
    if public:
        path = [i % H for i in path]
    return {"seed": draw(seeds()), "path": path, "step": draw(st.integers(0, len(path) - 1)), "public": public,
            "fault": draw(st.sampled_from(["left>=n", "left=n", "left=2^256-1", "zero-key" if not public else "infinity"])), "backend": draw(st.booleans())}


def check_invalid(case):
    seed = bytes.fromhex(case["seed"])
    path, step = case["path"], case["step"]
    # private key of the parent at the faulted step, by the model
    parent = ref.derive_priv(seed, path[:step])
    kpar = parent["k"]

    def make(real):
        f = case["fault"]
        if f == "left>=n":
            left = n + (int.from_bytes(real[:4], "big") % (2**256 - n))
        elif f == "left=n":
            left = n
        elif f == "left=2^256-1":
            left = 2**256 - 1
        else:  # zero child key / child point at infinity: left = -k_parent
            left = n - kpar
        return left.to_bytes(32, "big") + real[32:]

    with backend(case["backend"]):
        root = rootxprv_from_seed_(seed)
        start = xpub_from_xprv_(root) if case["public"] else root
        proxy = _HmacProxy(parent["chain_code"], path[step].to_bytes(4, "big"), make)
        real_mod = lib_bip32.hmac
        lib_bip32.hmac = proxy
        try:
            try:
                out = derive_(start, path)
            except (BTClibValueError, BTClibTypeError):
                out = None
        finally:
            lib_bip32.hmac = real_mod
        if not proxy.injected:
            # the library no longer reaches HMAC through the name this stand-in replaces (or hashes something else): no invalid child was made, nothing to judge
            return Outcome(False, (case["fault"], "injection-not-in-effect"))
    if out is not None:
        raise Violation(f"invalid_child:answered:{case['fault']}:public={case['public']}:bindings={case['backend']}", f"path={path} step={step} -> index={out.index} key={out.key.hex()}")
    return Outcome(True, (case["fault"], f"public={case['public']}", f"bindings={case['backend']}"))


# ---------------------------------------------------------------- account ranges
@st.composite
def account_case(draw):
    return {"seed": draw(seeds()), "account": [44 + H, H, draw(st.integers(0, 5)) + H], "branch": draw(st.sampled_from([0, 1])),
            "indexes": draw(st.lists(st.one_of(st.integers(0, 0xFFFF), st.sampled_from([0, 1, 0xFFFF])), min_size=1, max_size=6)), "public": draw(st.booleans()), "backend": draw(st.booleans())}


def check_account(case):
    with backend(case["backend"]):
        acct = derive_(rootxprv_from_seed_(bytes.fromhex(case["seed"])), case["account"])
        if case["public"]:
            acct = xpub_from_xprv_(acct)
        rng = derive_from_account_range_(acct, case["branch"], case["indexes"])
        one = [derive_from_account_(acct, case["branch"], i) for i in case["indexes"]]
        ref_ = [derive_(acct, [case["branch"], i]) for i in case["indexes"]]
        if rng != ref_ or one != ref_:
            raise Violation(f"account_range:differs-from-derive:public={case['public']}:bindings={case['backend']}", str(case["indexes"]))
        for bad in (0x10000, -1):
            try:
                derive_from_account_(acct, case["branch"], bad)
                raise Violation("account_range:index-out-of-range-answered", str(bad))
            except (BTClibValueError, BTClibTypeError):
                pass
    return Outcome(len(case["indexes"]) >= 2, (f"public={case['public']}",))


# ---------------------------------------------------------------- refusals
@st.composite
def refusal_case(draw):
    return {"seed": draw(seeds()), "kind": draw(st.sampled_from(["depth-overflow", "index-too-big", "index-negative", "seed-short", "seed-long", "bad-bytes-path", "str-index-too-big", "wrong-version"])),
            "depth": draw(st.integers(200, 255))}


def check_refusal(case):
    seed = bytes.fromhex(case["seed"])
    root = rootxprv_from_seed_(seed)
    kind = case["kind"]
    try:
        if kind == "depth-overflow":
            deep = derive_(root, [0] * case["depth"])
            if deep.depth != case["depth"]:
                raise Violation("refusals:depth-field", "")
            derive_(deep, [0] * (256 - case["depth"]))
        elif kind == "index-too-big":
            derive_(root, [2**32])
        elif kind == "index-negative":
            derive_(root, [-1])
        elif kind == "seed-short":
            rootxprv_from_seed_(seed[:15])
        elif kind == "seed-long":
            rootxprv_from_seed_(seed + b"\x00" * (65 - len(seed)))
        elif kind == "bad-bytes-path":
            derive_(root, b"\x00\x00\x00")
        elif kind == "str-index-too-big":
            derive_(root, f"m/{2**31}")
        elif kind == "wrong-version":
            derive_(root, [0], NETWORKS["mainnet"].bip32_pub)
    except (BTClibValueError, BTClibTypeError):
        return Outcome(True, (kind,))
    raise Violation(f"refusals:answered:{kind}", "")


SUBCHECKS = [
    SubCheck("equations_and_laws", check_derive, "six fields of private and public derivation vs BIP32 model; split/neuter/crack laws; non-trivial: depth>=2 or an index on a 2^31 boundary", lambda: derive_case(12), quick=900, thorough=8000),
    SubCheck("deep_paths", check_derive, "same with paths up to depth 255", lambda: derive_case(255), quick=24, thorough=240, shards=8),
    SubCheck("invalid_child", check_invalid, "HMAC output forced to left>=n / zero child key / child at infinity at a generated step: must raise, never answer; non-trivial: all", invalid_case, quick=600, thorough=6000),
    SubCheck("account_range", check_account, "derive_from_account_range_ == element-wise derive", account_case, quick=300, thorough=3000),
    SubCheck("refusals", check_refusal, "documented refusals: depth>255, index outside 0..2^32-1, seed size, ragged byte path, foreign forced version", refusal_case, quick=100, thorough=600),
]
