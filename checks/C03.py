"""C03 — BIP340 Schnorr: sign, verify and batch-verify agree with the BIP for all inputs."""

from __future__ import annotations

import hashlib

from hypothesis import strategies as st

from btclib.curves.curve import CURVES, Curve, PreparedPoint, is_libsecp256k1_serving, set_libsecp256k1_serving
from btclib.ecc import ssa
from btclib.exceptions import BTClibRuntimeError, BTClibTypeError, BTClibValueError
from vlib.models import bip340_ref as b340
from vlib.models import ec_ref as ref
from vlib.runner import HarnessError, Outcome, SubCheck, Violation

PROPERTY = "C03"
LEVEL = "exploration"
RULE = (
    "secp256k1/sha256: Hypothesis-generated (key, message of any length, aux) compared byte for byte with the BIP's reference.py "
    "(vlib/models/bip340_ref.py); verification compared on valid signatures, near-miss forgeries and random triples; batches of 1..40; "
    "toy curves: full (x_Q, r, s) truth table against the verification equation."
)
ASSUMPTIONS = [
    "bip340_ref.py is the BIP's reference implementation; validated on BIP340 test vectors 0-3 at start",
    "on curves/hashes the BIP does not define, the oracle is the verification equation with the library's public challenge_, a zero challenge being a refusal (as the library documents)",
]
P, N = b340.p, b340.n


class backend:
    def __init__(self, serving):
        self.serving = bool(serving)

    def __enter__(self):
        self.prev = is_libsecp256k1_serving()
        set_libsecp256k1_serving(serving=self.serving)

    def __exit__(self, *a):
        set_libsecp256k1_serving(serving=self.prev)


def validate_models() -> None:
    vec = [
        ("0000000000000000000000000000000000000000000000000000000000000003", "F9308A019258C31049344F85F89D5229B531C845836F99B08601F113BCE036F9", "0000000000000000000000000000000000000000000000000000000000000000", "0000000000000000000000000000000000000000000000000000000000000000",
         "E907831F80848D1069A5371B402410364BDF1C5F8307B0084C55F1CE2DCA821525F66A4A85EA8B71E482A74F382D2CE5EBEEE8FDB2172F477DF4900D310536C0"),
        ("B7E151628AED2A6ABF7158809CF4F3C762E7160F38B4DA56A784D9045190CFEF", "DFF1D77F2A671C5F36183726DB2341BE58FEAE1DA2DECED843240F7B502BA659", "0000000000000000000000000000000000000000000000000000000000000001", "243F6A8885A308D313198A2E03707344A4093822299F31D0082EFA98EC4E6C89",
         "6896BD60EEAE296DB48A229FF71DFE071BDE413E6D43F917DC8DCF8C78DE33418906D11AC976ABCCB20B091292BFF4EA897EFCB639EA871CFA95F6DE339E4B0A"),
    ]
    for sk, pk, aux, msg, sig in vec:
        if b340.pubkey_gen(bytes.fromhex(sk)).hex().upper() != pk:
            raise HarnessError("bip340_ref pubkey")
        if b340.schnorr_sign(bytes.fromhex(msg), bytes.fromhex(sk), bytes.fromhex(aux)).hex().upper() != sig:
            raise HarnessError("bip340_ref sign")
        if not b340.schnorr_verify(bytes.fromhex(msg), bytes.fromhex(pk), bytes.fromhex(sig)):
            raise HarnessError("bip340_ref verify")


def keys():
    return st.one_of(st.sampled_from([1, 2, 3, N - 1, N - 2, (N + 1) // 2]), st.integers(1, N - 1))


def msgs():
    return st.one_of(st.sampled_from([0, 1, 31, 32, 33, 64]).flatmap(lambda k: st.binary(min_size=k, max_size=k)), st.binary(max_size=200))


# ---------------------------------------------------------------- sign_bytes
@st.composite
def sign_case(draw):
    return {"q": draw(keys()), "msg": draw(msgs()).hex(), "aux": draw(st.one_of(st.just(b"\x00" * 32), st.binary(min_size=32, max_size=32))).hex(), "backend": draw(st.booleans())}


def check_sign(case):
    q, msg, aux = case["q"], bytes.fromhex(case["msg"]), bytes.fromhex(case["aux"])
    want = b340.schnorr_sign(msg, q.to_bytes(32, "big"), aux)
    xq = b340.pubkey_gen(q.to_bytes(32, "big"))
    with backend(case["backend"]):
        sig = ssa.sign_(msg, q, aux)
        got = sig.serialize()
        if got != want:
            raise Violation(f"sign:bytes-differ:bindings={case['backend']}", f"q={q:x} msg={msg.hex()} aux={aux.hex()} lib={got.hex()} ref={want.hex()}")
        with ssa.Signer(q) as signer:
            got2 = signer.sign_(msg, aux)
        if got2 != want:
            raise Violation(f"sign:Signer-differs:bindings={case['backend']}", got2.hex())
        if ssa.sign_(msg, q.to_bytes(32, "big"), aux.hex()).serialize() != want:
            raise Violation("sign:octets-spelling-differs", "")
        if not ssa.verify_(msg, xq, sig):
            raise Violation(f"sign:own-signature-does-not-verify:bindings={case['backend']}", "")
        # sign (hashing spelling) = sign_ over sha256(msg)
        if ssa.sign(msg, q, aux).serialize() != b340.schnorr_sign(hashlib.sha256(msg).digest(), q.to_bytes(32, "big"), aux):
            raise Violation("sign:sign-vs-sign_", "")
        kq, kx = ssa.gen_keys(q)
        if kx != int.from_bytes(xq, "big") or kq not in (q, N - q):  # q and n - q are one BIP340 key: which of the two is handed back is not promised
            raise Violation("sign:gen_keys", f"{kq:x} {kx:x}")
    return Outcome(True, (f"len={min(len(msg), 65)}" if len(msg) in (0, 1, 31, 32, 33, 64) else "len=other", f"bindings={case['backend']}"))


# ---------------------------------------------------------------- verify truth
MUTS = ["none", "bit-r", "bit-s", "bit-x", "bit-msg", "neg-s", "r>=p", "s>=n", "s=n", "x>=p", "x-unliftable", "r-unliftable", "random", "r=0", "s=0", "msg-longer", "other-key"]


@st.composite
def verify_case(draw):
    return {
        "q": draw(keys()), "msg": draw(msgs()).hex(), "aux": draw(st.binary(min_size=32, max_size=32)).hex(),
        "mut": draw(st.sampled_from(MUTS)), "bit": draw(st.integers(0, 255)),
        "rand": [draw(st.integers(0, 2**256 - 1)) for _ in range(3)],
        "spelling": draw(st.sampled_from(["int", "bytes32", "hex32", "sec33", "sec65", "point", "prepared"])),
        "sig_spelling": draw(st.sampled_from(["Sig", "bytes", "hex"])),
        "backend": draw(st.booleans()),
    }


def _unliftable(x):
    while b340.lift_x(x % P) is not None:
        x += 1
    return x % P


def check_verify(case):
    q, msg = case["q"], bytes.fromhex(case["msg"])
    sk = q.to_bytes(32, "big")
    sig = b340.schnorr_sign(msg, sk, bytes.fromhex(case["aux"]))
    x = int.from_bytes(b340.pubkey_gen(sk), "big")
    r, s = int.from_bytes(sig[:32], "big"), int.from_bytes(sig[32:], "big")
    mut, bit = case["mut"], case["bit"]
    if mut == "bit-r": r ^= 1 << bit
    elif mut == "bit-s": s ^= 1 << bit
    elif mut == "bit-x": x ^= 1 << bit
    elif mut == "bit-msg":
        msg = (bytes([msg[0] ^ (1 << (bit % 8))]) + msg[1:]) if msg else b"\x00"
    elif mut == "neg-s": s = N - s
    elif mut == "r>=p":
        r = r + P if r + P < 2**256 else P + (r % 977)
    elif mut == "s>=n":
        s = s + N if s + N < 2**256 else N + (s % 1000)
    elif mut == "s=n": s = N
    elif mut == "x>=p":
        x = x + P if x + P < 2**256 else P + (x % 977)
    elif mut == "x-unliftable": x = _unliftable(case["rand"][0])
    elif mut == "r-unliftable": r = _unliftable(case["rand"][0])
    elif mut == "random": x, r, s = case["rand"]
    elif mut == "r=0": r = 0
    elif mut == "s=0": s = 0
    elif mut == "msg-longer": msg = msg + b"\x00"
    elif mut == "other-key": x = int.from_bytes(b340.pubkey_gen(((q % (N - 1)) + 1).to_bytes(32, "big")), "big")
    wide = None
    if case["sig_spelling"] == "Sig" and mut in ("s>=n", "r>=p"):
        # a Sig object can carry what 64 bytes cannot: the same valid signature with s+n / r+p -- BIP340 fails r >= p and s >= n
        r0, s0 = int.from_bytes(sig[:32], "big"), int.from_bytes(sig[32:], "big")
        wide = (r0, s0 + N * (1 + bit % 2)) if mut == "s>=n" else (r0 + P * (1 + bit % 2), s0)
        r, s = r0, s0
    if not (0 <= x < 2**256 and 0 <= r < 2**256 and 0 <= s < 2**256):
        return Outcome(False, ("unrepresentable",))
    want = wide is None and b340.schnorr_verify(msg, x.to_bytes(32, "big"), r.to_bytes(32, "big") + s.to_bytes(32, "big"))
    # key spellings: the point spellings exist only when x lifts
    sp = case["spelling"]
    Pt = b340.lift_x(x) if x < P else None
    if sp in ("sec33", "sec65", "point", "prepared") and Pt is None:
        sp = "int"
    key = {"int": x, "bytes32": x.to_bytes(32, "big"), "hex32": x.to_bytes(32, "big").hex(),
           "sec33": Pt and b"\x02" + x.to_bytes(32, "big"), "sec65": Pt and b"\x04" + x.to_bytes(32, "big") + Pt[1].to_bytes(32, "big"),
           "point": Pt, "prepared": None}[sp]
    with backend(case["backend"]):
        if sp == "prepared":
            key = PreparedPoint(Pt)
        ssp = case["sig_spelling"]
        sg = {"Sig": ssa.Sig(*(wide or (r, s)), check_validity=False), "bytes": r.to_bytes(32, "big") + s.to_bytes(32, "big"), "hex": (r.to_bytes(32, "big") + s.to_bytes(32, "big")).hex()}[ssp]
        try:
            got = ssa.verify_(msg, key, sg)
        except Exception as e:  # noqa: BLE001
            raise Violation(f"verify:raised:{type(e).__name__}:{mut}:key={sp}:bindings={case['backend']}", str(e)[:300])
    if got is not want:
        raise Violation(f"verify:verdict:{mut}:lib={got}:ref={want}:key={sp}:sig={ssp}:bindings={case['backend']}", f"msg={msg.hex()} x={x:x} r={r:x} s={s:x}")
    return Outcome(True, (mut, f"valid={want}", f"key={sp}", f"bindings={case['backend']}"))


# ---------------------------------------------------------------- batch
@st.composite
def batch_case(draw):
    size = draw(st.one_of(st.integers(1, 6), st.sampled_from([27, 28, 29, 40])))
    bad = draw(st.sampled_from(["none", "none", "first", "last", "middle", "several", "swap-sigs", "swap-msgs", "cancel-pair"]))
    return {
        "size": size, "bad": bad, "seed": draw(st.integers(0, 2**64)), "dups": draw(st.booleans()), "perm": draw(st.integers(0, 10**6)),
        "badkind": draw(st.sampled_from(["bit-s", "bit-r-liftable", "other-msg", "neg-s", "r-unliftable", "x-unliftable", "s>=n", "s+n", "s+2n", "r+p", "r+2^256", "s-n"])),
        "backend": draw(st.booleans()), "blind_seed": draw(st.integers(0, 2**32)),
    }


def _det(seed, i, tag):
    return hashlib.sha256(f"{seed}:{i}:{tag}".encode()).digest()


def check_batch(case):
    size, seed = case["size"], case["seed"]
    items = []
    for i in range(size):
        j = 0 if (case["dups"] and i % 3 == 2) else i  # duplicates of member 0
        q = 1 + int.from_bytes(_det(seed, j, "k"), "big") % (N - 1)
        msg = _det(seed, j, "m")[: 1 + j % 32] if j % 5 else _det(seed, j, "m")
        sig = b340.schnorr_sign(msg, q.to_bytes(32, "big"), _det(seed, j, "a"))
        items.append([msg, b340.pubkey_gen(q.to_bytes(32, "big")), sig])
    over = {}
    bad_idx = {"none": [], "first": [0], "last": [size - 1], "middle": [size // 2], "several": list(range(0, size, 2))}.get(case["bad"], [])
    for i in bad_idx:
        msg, pk, sig = items[i]
        r, s = int.from_bytes(sig[:32], "big"), int.from_bytes(sig[32:], "big")
        bk = case["badkind"]
        if bk == "bit-s": s ^= 1
        elif bk == "neg-s": s = N - s
        elif bk == "s>=n": s = N
        elif bk == "other-msg": msg = msg + b"!"
        elif bk == "bit-r-liftable":
            r = (r + 1) % P
            while b340.lift_x(r) is None:
                r = (r + 1) % P
        elif bk == "r-unliftable": r = _unliftable(r)
        elif bk == "x-unliftable": pk = _unliftable(int.from_bytes(pk, "big")).to_bytes(32, "big")
        elif bk in ("s+n", "s+2n", "r+p", "r+2^256", "s-n"):
            # non-canonical spellings of an otherwise valid signature: only a Sig object can carry them
            over[i] = {"s+n": (r, s + N), "s+2n": (r, s + 2 * N), "r+p": (r + P, s), "r+2^256": (r + 2**256, s), "s-n": (r, s - N)}[bk]
        items[i] = [msg, pk, r.to_bytes(32, "big") + s.to_bytes(32, "big")]
    if case["bad"] == "swap-sigs" and size >= 2:
        items[0][2], items[1][2] = items[1][2], items[0][2]
    if case["bad"] == "cancel-pair" and size >= 2:
        # s_0 + 1 and s_1 - 1: each invalid, their plain sum unchanged -- only random coefficients catch it
        for i, d in ((0, 1), (size - 1, -1)):
            sg = items[i][2]
            items[i][2] = sg[:32] + ((int.from_bytes(sg[32:], "big") + d) % N).to_bytes(32, "big")
    if case["bad"] == "swap-msgs" and size >= 2:
        items[0][0], items[1][0] = items[1][0], items[0][0]
    # permutation
    import random as _r
    for i, it in enumerate(items):
        it.append(over.get(i))
    if case["bad"] not in ("first", "last"):
        _r.Random(case["perm"]).shuffle(items)
    want = all(ov is None and b340.schnorr_verify(m, pk, sg) for m, pk, sg, ov in items)
    items = [(m, pk, sg if ov is None else ov) for m, pk, sg, ov in items]
    with backend(case["backend"]):
        sigs = [ssa.Sig(*sg, check_validity=False) if isinstance(sg, tuple) else ssa.Sig(int.from_bytes(sg[:32], "big"), int.from_bytes(sg[32:], "big"), check_validity=False) for _, _, sg in items]
        try:
            got = ssa.batch_verify_([m for m, _, _ in items], [pk for _, pk, _ in items], sigs)
        except Exception as e:  # noqa: BLE001
            raise Violation(f"batch:raised:{type(e).__name__}:{case['bad']}:{case['badkind']}", str(e)[:300])
        indiv = all(ssa.verify_(m, pk, sg) for (m, pk, _), sg in zip(items, sigs))
    if got is not want or indiv is not want:
        raise Violation(f"batch:verdict:bad={case['bad']}:{case['badkind'] if bad_idx else '-'}:lib={got}:individually={indiv}:ref={want}:size{'>=28' if size >= 28 else '<28'}:bindings={case['backend']}", f"size={size}")
    return Outcome(size >= 2, (f"size{'>=28' if size >= 28 else '<28'}", f"bad={case['bad']}", f"valid={want}", f"bindings={case['backend']}"))


# ---------------------------------------------------------------- sign-to-contract
@st.composite
def commit_case(draw):
    return {"q": draw(keys()), "msg": draw(msgs()).hex(), "aux": draw(st.binary(min_size=32, max_size=32)).hex(), "commit": draw(st.binary(min_size=32, max_size=32)).hex(),
            "other": draw(st.binary(min_size=32, max_size=32)).hex(), "backend": draw(st.booleans())}


def check_commit(case):
    q, msg, aux = case["q"], bytes.fromhex(case["msg"]), bytes.fromhex(case["aux"])
    ch, other = bytes.fromhex(case["commit"]), bytes.fromhex(case["other"])
    xq = b340.pubkey_gen(q.to_bytes(32, "big"))
    with backend(case["backend"]):
        sig, receipt = ssa.sign_(msg, q, aux, commit_hash=ch)
        raw = sig.serialize()
        if not b340.schnorr_verify(msg, xq, raw):
            raise Violation("commit:signature-invalid-under-BIP340", raw.hex())
        if not ssa.verify_(msg, xq, sig) or not ssa.verify_(msg, xq, sig, commit_hash=ch, receipt=receipt):
            raise Violation("commit:does-not-verify", "")
        # opening equation r == x(R + H(R||c) G) in the model
        t = bytes([2 + (receipt[1] & 1)]) + receipt[0].to_bytes(32, "big") + ch
        while True:
            t = b340.tagged_hash("s2c/bip340/point", t)
            tw = int.from_bytes(t, "big")
            if 0 < tw < N:
                break
        W = b340.point_add(receipt, b340.point_mul(b340.G, tw))
        # (the tag, the encoding of the receipt and the re-hash loop are the library's private construction, promised nowhere: that the model's reading of it
        # opens the commitment is recorded; what is asked is that the library's own opening accepts this commitment -- above -- and no other -- below)
        construction = "s2c-construction=model's" if W is not None and W[0] == sig.r and b340.lift_x(receipt[0]) is not None else "s2c-construction=another"
        if ch != other and ssa.verify_(msg, xq, sig, commit_hash=other, receipt=receipt):
            raise Violation("commit:other-commitment-accepted", "")
        R2 = b340.point_mul(b340.G, 7 + q % 1000)
        if R2 != receipt and ssa.verify_(msg, xq, sig, commit_hash=ch, receipt=R2):
            raise Violation("commit:other-receipt-accepted", "")
        sig2, receipt2 = ssa.sign_(msg, q, aux, commit_hash=ch)
        if (sig2, receipt2) != (sig, receipt):
            raise Violation("commit:not-deterministic", "")
    return Outcome(True, (f"bindings={case['backend']}", construction))


# ---------------------------------------------------------------- other curves: toy truth table
def toy_units(tier):
    acc = [c for c in ref.toy_curves(23) if ref.sec1_accepts(*c) and 5 <= c[4] <= (13 if tier == "quick" else 23)]
    picked, seen = [], set()
    for c in acc:
        p, a, b, G, n, h, N_ = c
        key = (p % 4, min(h, 2), n > p, n)
        if key not in seen:
            seen.add(key)
            picked.append(c)
    picked = picked[: 10 if tier == "quick" else 40]
    return [list(c[:3]) + [list(c[3])] + list(c[4:]) for c in picked]


def toy_run_unit(unit, col):
    p, a, b, G, n, h, N_ = unit
    G = tuple(G)
    try:
        ec = Curve(p, a, b, G, n, h, weakness_check=False)
    except (BTClibValueError, BTClibTypeError):
        col.bulk(1, 0, None, {"curve-not-taken-by-the-library": 1})  # which toy curves are curves is C01's question
        return
    hf = hashlib.sha1
    pts = {}
    for (x, y) in ref.points(p, a, b):
        pts.setdefault(x, []).append(y)
    evals = nontriv = refused = 0
    cid = {"p": p, "a": a, "b": b, "G": G, "n": n, "h": h}
    sub = {}
    R, k = G, 1
    while R is not None:
        sub[R] = k
        R = ref.add(R, G, p, a)
        k += 1
    for msg in (b"", b"a", b"toy message"):
        # sign => verify for every key and a few aux
        for q in range(1, n):
            for aux in (b"\x00" * 20, b"\x01" * 20):
                evals += 1
                try:
                    # verify=False: the signer's own check would turn a wrong signature into the same exception class as the one documented refusal
                    # (a challenge that is zero mod n, frequent on curves this small), and what came through would be the library checked by itself
                    sig = ssa.sign_(msg, q, aux, ec, hf, verify=False)
                except BTClibRuntimeError:
                    refused += 1
                    continue
                Q = ref.mult(q, G, p, a, n)
                if not ssa.verify_(msg, Q[0], sig, hf):
                    col.fail("toy:own-signature-does-not-verify", {"unit": unit}, f"{cid} q={q} msg={msg!r}")
                    return
                nontriv += 1
        # truth table over every subgroup x_Q and every (r, s) with r in [0,p], s in [0,n]
        for x_Q in sorted({P_[0] for P_ in sub}):
            ys = [y for y in pts[x_Q] if (x_Q, y) in sub]
            for r in range(p + 1):
                for s in range(n + 1):
                    evals += 1
                    # reference: the verification equation with the library's public challenge_
                    want = False
                    if r < p and s < n and r in pts and any(y for y in pts[r]):
                        try:
                            c = ssa.challenge_(msg, x_Q, r, ec, hf)
                        except BTClibRuntimeError:
                            c = None
                        if c is not None:
                            ye = [y for y in pts[x_Q] if y % 2 == 0 and y != 0]
                            if ye:
                                Qe = (x_Q, ye[0])
                                Rr = ref.add(ref.mult(s, G, p, a), ref.mult(-c, Qe, p, a), p, a)
                                want = Rr is not None and Rr[1] % 2 == 0 and Rr[0] == r
                    try:
                        got = ssa.verify_(msg, x_Q, ssa.Sig(r, s, ec, check_validity=False), hf)
                    except Exception as e:  # noqa: BLE001
                        col.fail(f"toy:verify-raised:{type(e).__name__}", {"unit": unit}, f"{cid} x={x_Q} r={r} s={s}: {e}")
                        return
                    if got is not want:
                        col.fail(f"toy:verify-verdict:lib={got}:ref={want}", {"unit": unit}, f"{cid} msg={msg!r} x={x_Q} r={r} s={s}")
                        return
                    if want or (r in pts and s < n):
                        nontriv += 1
    col.bulk(evals, nontriv, {"curve": cid, "table": f"x_Q over the subgroup, r in 0..{p}, s in 0..{n}, 3 messages"}, {f"pmod4={p % 4}": 1, "sign-refused(zero challenge)": refused})


@st.composite
def other_case(draw):
    name = draw(st.sampled_from(["secp256r1", "secp160k1", "bpp256r1", "secp224k1", "secp112r2", "secp521r1", "secp256k1"]))
    return {"curve": name, "hf": draw(st.sampled_from(["sha1", "sha256", "sha512", "sha3_256"])), "q": draw(st.integers(1, 2**600)), "msg": draw(msgs()).hex(),
            "aux": draw(st.integers(0, 2**512 - 1)), "mut": draw(st.sampled_from(["none", "s+1", "r-other", "msg", "key"]))}


def check_other(case):
    ec = CURVES[case["curve"]]
    hf = getattr(hashlib, case["hf"])
    if case["curve"] == "secp256k1" and case["hf"] == "sha256":
        return Outcome(False, ("bip-defined",))
    n, p, a = ec.n, ec.p, ec._a
    q = 1 + case["q"] % (n - 1)
    msg = bytes.fromhex(case["msg"])
    hl = hf().digest_size
    aux = (case["aux"] % 2 ** (8 * hl)).to_bytes(hl, "big")
    sig = ssa.sign_(msg, q, aux, ec, hf)
    Q = ref.mult(q, ec.G, p, a, n)
    x, r, s = Q[0], sig.r, sig.s
    mut = case["mut"]
    if mut == "s+1": s = (s + 1) % n
    elif mut == "r-other": r = ref.mult(q + 1, ec.G, p, a, n)[0]
    elif mut == "msg": msg += b"x"
    elif mut == "key": x = ref.mult(q + 1, ec.G, p, a, n)[0]
    # equation in the model with the library's public challenge
    c = ssa.challenge_(msg, x, r, ec, hf)
    y2 = (x**3 + a * x + ec._b) % p
    from vlib.models.ecdsa_ref import _sqrt
    y = _sqrt(y2, p)
    Qe = (x, y if y % 2 == 0 else p - y)
    Rr = ref.add(ref.mult(s, ec.G, p, a, n), ref.mult(-c, Qe, p, a, n), p, a)
    want = Rr is not None and Rr[1] % 2 == 0 and Rr[0] == r
    got = ssa.verify_(msg, x, ssa.Sig(r, s, ec, check_validity=False), hf)
    if got is not want or (mut == "none" and not got):
        raise Violation(f"other_curves:verdict:{mut}:lib={got}:ref={want}", f"{case['curve']}:{case['hf']}")
    # the key as the octets of its x (bytes and hex): the same verdict; and as the octets of x + k p where they still fit the curve's p_size octets (the
    # brainpool curves, secp521r1, secp112r2 have room above p): a number that is no x-coordinate of anything -- lift_x fails -- so the verdict is False
    size = ec.p_size
    spellings = [("octets", x.to_bytes(size, "big"), want), ("hex", x.to_bytes(size, "big").hex(), want)]
    k_max = (256**size - 1 - x) // p
    if k_max >= 1:
        k = 1 + case["q"] % min(k_max, 3)
        spellings.append((f"octets+{'p' if k == 1 else 'kp'}", (x + k * p).to_bytes(size, "big"), False))
    for how, key, expect in spellings:
        try:
            got_k = ssa.verify_(msg, key, ssa.Sig(r, s, ec, check_validity=False), hf)
        except Exception as e:  # noqa: BLE001  a bool-returning verifier is total over its declared types
            raise Violation(f"other_curves:verify-raised:{how}:{type(e).__name__}", f"{case['curve']}: {e}") from e
        if got_k is not expect:
            raise Violation(f"other_curves:verdict:key-as-{how}:lib={got_k}:ref={expect}", f"{case['curve']}:{case['hf']} mut={mut}")
    if ssa.sign_(msg if mut != "msg" else msg[:-1], q, aux, ec, hf) != sig:
        raise Violation("other_curves:not-deterministic", "")
    return Outcome(True, (case["curve"], case["hf"], mut, "room-above-p" if k_max >= 1 else "no-room-above-p"))


# ---------------------------------------------------------------- codec
@st.composite
def codec_case(draw):
    return {"data": draw(st.one_of(st.binary(min_size=64, max_size=64), st.binary(min_size=64, max_size=64), st.binary(min_size=64, max_size=64), st.binary(min_size=60, max_size=68), st.binary(max_size=70))).hex(), "valid_r": draw(st.booleans()), "q": draw(keys()),
            # the two range rules of the parser, which random bytes never meet (32 random bytes exceed n once in 2^128)
            "r_kind": draw(st.sampled_from(["as-is", "as-is", "as-is", "p-1", "p", "p+1", "max", "0"])), "s_kind": draw(st.sampled_from(["as-is", "as-is", "as-is", "0", "n-1", "n", "n+1", "max"]))}


def check_codec(case):
    data = bytes.fromhex(case["data"])
    if case["valid_r"] and len(data) >= 64:
        data = b340.pubkey_gen(case["q"].to_bytes(32, "big")) + data[32:]
    if len(data) == 64:
        edge = {"p-1": P - 1, "p": P, "p+1": P + 1, "max": 2**256 - 1, "0": 0, "n-1": N - 1, "n": N, "n+1": N + 1}
        if case.get("r_kind", "as-is") != "as-is":
            data = edge[case["r_kind"]].to_bytes(32, "big") + data[32:]
        if case.get("s_kind", "as-is") != "as-is":
            data = data[:32] + edge[case["s_kind"]].to_bytes(32, "big")
    ok_model = len(data) == 64 and b340.lift_x(int.from_bytes(data[:32], "big")) is not None and int.from_bytes(data[32:], "big") < N
    try:
        sig = ssa.Sig.parse(data)
        got = True
    except BTClibValueError:
        got = False
    if got != ok_model:
        raise Violation(f"codec:accept-verdict:lib={got}:model={ok_model}:len={'64' if len(data) == 64 else 'other'}", data.hex())
    if got and sig.serialize() != data:
        raise Violation("codec:round-trip", data.hex())
    if len(data) == 64:
        lax = ssa.Sig.parse(data, check_validity=False)
        if lax.serialize(check_validity=False) != data:
            raise Violation("codec:round-trip-unchecked", data.hex())
    why = "len" if len(data) != 64 else "r>=p" if int.from_bytes(data[:32], "big") >= P else "r-unliftable" if b340.lift_x(int.from_bytes(data[:32], "big")) is None else "s>=n" if int.from_bytes(data[32:], "big") >= N else "?"
    return Outcome(len(data) == 64, ("accepted" if got else "refused:" + why, f"s={case.get('s_kind', 'as-is')}"))


SUBCHECKS = [
    SubCheck("sign_bytes", check_sign, "sign_/Signer/sign bytes equal the BIP reference for messages of 0..200 bytes; non-trivial: all", sign_case, quick=700, thorough=10000),
    SubCheck("verify_truth", check_verify, "verdict equals the BIP reference on valid signatures, one-field mutations (bit flips, n-s, r>=p, s>=n, x>=p, unliftable x/r) and random triples, every key spelling; non-trivial: all representable cases", verify_case, quick=1500, thorough=25000),
    SubCheck("batch", check_batch, "batch_verify_ == all(verify_) for sizes 1..40 (28 signatures cross the Bos-Coster switch), bad members at any position, duplicates, permutations; non-trivial: size>=2", batch_case, quick=200, thorough=3000),
    SubCheck("commit", check_commit, "sign-to-contract: signature valid under BIP340, opens with (commit, receipt), not with another", commit_case, quick=300, thorough=4000),
    SubCheck("toy_truth", lambda c: None, "toy curves: sign=>verify for every key; full (x_Q,r,s) table vs the verification equation; distinct by construction", units=toy_units, run_unit=toy_run_unit, exhaustive=True),
    SubCheck("other_curves", check_other, "catalogued curves x hash functions: sign => verify, mutated => equation verdict", other_case, quick=300, thorough=4000),
    SubCheck("codec", check_codec, "64-byte parse/serialize identity; other lengths, unliftable r, s>=n refused", codec_case, quick=3000, thorough=30000),
]
