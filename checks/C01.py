"""C01 — curve and field arithmetic compute exactly the group law."""

from __future__ import annotations

from math import isqrt

from hypothesis import strategies as st

from btclib import number_theory as nt
from btclib.curves.curve import (
    CURVES,
    Curve,
    PreparedPoint,
    double_mult_var,
    is_libsecp256k1_serving,
    mult,
    multi_mult_var,
    set_libsecp256k1_serving,
)
from btclib.curves.sec_point import bytes_from_point, point_from_octets
from btclib.exceptions import BTClibTypeError, BTClibValueError
from vlib.models import ec_ref as ref
from vlib.runner import HarnessError, Outcome, SubCheck, Violation

PROPERTY = "C01"
LEVEL = "exploration"
RULE = (
    "Enumeration of every toy curve (all primes p up to the tier bound, all a,b, every prime-order subgroup) x every scalar in [-n-1,2n+1] "
    "x every subgroup point, plus Hypothesis cases on the 27 catalogued curves; oracle = naive affine group law (vlib/models/ec_ref.py)."
)
ASSUMPTIONS = [
    "ec_ref (textbook affine addition, double-and-add) is the group law; validated on group axioms for p<=7 at start",
    "caller-defined curves of cryptographic size are represented by the 27 catalogued ones and all toy curves",
]
REFUSAL = (BTClibValueError, BTClibTypeError)


def validate_models() -> None:
    # the model's primality test against trial division (a thorough run once took 43 for composite: it was its own Miller-Rabin base)
    if [n for n in range(2, 3000) if ref.is_prime(n)] != [n for n in range(2, 3000) if all(n % q for q in range(2, int(n**0.5) + 1))]:
        raise HarnessError("ec_ref.is_prime disagrees with trial division below 3000")
    for p, a, b, G, n, h, N in ref.toy_curves(7):
        pts = [None] + ref.points(p, a, b)
        for P in pts:
            for Q in pts:
                R = ref.add(P, Q, p, a)
                if not ref.on_curve(R, p, a, b) or R != ref.add(Q, P, p, a):
                    raise HarnessError("ec_ref closure/commutativity")
                for S in pts[:4]:
                    if ref.add(R, S, p, a) != ref.add(P, ref.add(Q, S, p, a), p, a):
                        raise HarnessError("ec_ref associativity")
        if ref.mult(n, G, p, a) is not None:
            raise HarnessError("ec_ref order")


def norm(Q):
    """library point -> model point"""
    if not (isinstance(Q, tuple) and len(Q) == 2 and all(isinstance(c, int) for c in Q)):
        raise Violation("result-not-a-point", repr(Q)[:200])
    return None if Q[1] == 0 else Q


def lib_pt(P):
    return (5, 0) if P is None else tuple(P)


# ---------------------------------------------------------------- toy enumeration
def toy_units(tier):
    max_p = 23 if tier == "quick" else 43
    primes = [q for q in range(3, max_p + 1) if ref.is_prime(q)]
    return [[p, a] for p in primes for a in range(p)]


def _toy_curve_check(p, a, b, G, n, h, N, col, full_double):
    accept = ref.sec1_accepts(p, a, b, G, n, h, N)
    # SEC 1 checks the cofactor against floor((sqrt(p)+1)^2 / n), which is the true cofactor only when n > 4 sqrt(p): on most toy curves it is not, and a
    # library may hold a curve to the formula (this one does) or to the truth (h = N/n, which is what is handed in here). Where the formula is the model's
    # only objection, either verdict is right; a truthful curve the library takes goes on to the arithmetic
    h_formula = (p + 1 + isqrt(4 * p)) // n
    only_the_formula_objects = not accept and ref.sec1_accepts(p, a, b, G, n, h_formula, N)
    case_id = {"p": p, "a": a, "b": b, "G": list(G), "n": n, "h": h}
    try:
        ec = Curve(p, a, b, G, n, h, weakness_check=False)
        got = True
    except REFUSAL:
        got = False
    if got != accept and not only_the_formula_objects:
        col.fail(f"toy:curve-acceptance:lib={got}:model={accept}", {"unit": [p, a]}, str(case_id))
        return
    accept = got
    evals = 1
    # construction refusals on mutated parameters
    for kw, sig in (
        (dict(p=p, a=a, b=b, G=G, n=n, h=h + 1), "cofactor+1"),
        (dict(p=p, a=a, b=b, G=G, n=n, h=max(h - 1, 0)), "cofactor-1"),
        (dict(p=p, a=a, b=b, G=(G[0], (G[1] + 1) % p or 1), n=n, h=h), "G-off-curve"),
        (dict(p=p, a=a, b=b, G=(G[0], 0), n=n, h=h), "G-inf"),
        (dict(p=p + 1, a=a, b=b, G=G, n=n, h=h), "even-p"),
        (dict(p=p, a=a + p, b=b, G=G, n=n, h=h), "a>=p"),
        (dict(p=p, a=a, b=b - p, G=G, n=n, h=h), "b<0"),
    ):
        evals += 1
        try:
            Curve(kw["p"], kw["a"], kw["b"], kw["G"], kw["n"], kw["h"], weakness_check=False)
            got2 = True
        except REFUSAL:
            got2 = False
        # a malformed curve is refused: a cofactor that is neither the true one nor the formula's, a generator off the curve or at infinity, an even
        # modulus, coefficients outside the field. (That a false cofactor which happens to be the formula's is taken is never asked.)
        must_refuse = kw["h"] not in (N // n, h_formula) if sig.startswith("cofactor") else not any(ref.sec1_accepts(kw["p"], kw["a"], kw["b"], kw["G"], kw["n"], hh, N) for hh in (kw["h"], h_formula))
        if got2 and must_refuse:
            col.fail(f"toy:mutated-curve-verdict:{sig}:lib=True:model=False", {"unit": [p, a]}, str(kw))
    if accept:
        # MOV: every toy n<=100 has embedding degree < 100
        if n <= 100:
            evals += 1
            try:
                Curve(p, a, b, G, n, h, weakness_check=True)
                col.fail("toy:weak-curve-accepted", {"unit": [p, a]}, str(case_id))
            except REFUSAL:
                pass
    if not accept:
        col.bulk(evals, 0, None, {"curve-refused": 1})
        return
    # arithmetic on the accepted curve
    sub = [None]
    R = G
    while R is not None:
        sub.append(R)
        R = ref.add(R, G, p, a)
    assert len(sub) == n
    idx = {P: i for i, P in enumerate(sub)}
    scalars = list(range(-n - 1, 2 * n + 2)) + [5 * n + 1, 2**256 + 3, -(2**70) * n + 2, 2**521]
    nontriv = 0
    for i, P in enumerate(sub):
        LP = lib_pt(P)
        prep = PreparedPoint(LP, ec) if P is not None else None
        for m in scalars:
            want = sub[(m * i) % n]
            got1 = norm(mult(m, LP, ec))
            evals += 1
            if got1 != want:
                col.fail("toy:mult-wrong", {"unit": [p, a]}, f"{case_id} m={m} P={P} got={got1} want={want}")
                return
            if prep is not None:
                got2 = norm(prep.mult(m))
                evals += 1
                if got2 != want:
                    col.fail("toy:prepared-mult-wrong", {"unit": [p, a]}, f"{case_id} m={m} P={P} got={got2} want={want}")
                    return
            if want is not None or (i and m % n == 0):
                nontriv += 1
    # mult with the default generator argument
    for m in range(-1, n + 2):
        evals += 1
        if norm(mult(m, None, ec)) != sub[m % n]:
            col.fail("toy:mult-G-wrong", {"unit": [p, a]}, f"{case_id} m={m}")
            return
    # double_mult_var: all (u, H, v, Q) when small, a lattice otherwise
    us = range(n) if full_double else sorted({0, 1, 2, n - 1, n // 2, n // 3 + 1})
    for u in us:
        for i in range(n):
            for v in us:
                for j in (range(n) if full_double else (0, 1, i, (n - i) % n, n - 1)):
                    want = sub[(u * i + v * j) % n]
                    got = norm(double_mult_var(u, lib_pt(sub[i]), v, lib_pt(sub[j]), ec))
                    evals += 1
                    if got != want:
                        col.fail("toy:double-mult-wrong", {"unit": [p, a]}, f"{case_id} u={u} H={sub[i]} v={v} Q={sub[j]} got={got} want={want}")
                        return
                    if want is not None or (u and v and i and j):
                        nontriv += 1
    col.bulk(evals, nontriv, {"curve": case_id, "scalars": f"{-n-1}..{2*n+1} + 4 large", "points": n}, {"curve-accepted": 1, f"cofactor={min(h,3)}": 1})


def hasse_units(tier):
    """primes above the exhaustive sweep: for each, the prime-order curves (cofactor 1) on the two ends of the Hasse interval and just inside them"""
    top = 131 if tier == "quick" else 257
    return [[q] for q in range(29, top + 1) if ref.is_prime(q)]


def hasse_run_unit(unit, col):
    from vlib import determinism

    determinism.reset({"unit": unit})
    (p,) = unit
    delta = isqrt(4 * p)
    wanted = {p + 1 - delta: "lower-bound", p + 1 - delta + 1: "lower-bound+1", p + 1 + delta - 1: "upper-bound-1", p + 1 + delta: "upper-bound"}
    wanted = {N: w for N, w in wanted.items() if ref.is_prime(N)}
    squares = {}
    for y in range(p):
        squares[y * y % p] = squares.get(y * y % p, 0) + 1
    found = {}
    for a in range(p):
        for b in range(p):
            if len(found) == len(wanted):
                break
            if (4 * a**3 + 27 * b * b) % p == 0:
                continue
            N = 1 + sum(squares.get((x * x * x + a * x + b) % p, 0) for x in range(p))
            if N in wanted and N not in found:
                found[N] = (a, b)
    if not found:
        col.bulk(1, 0, None, {"no-prime-order-on-the-bounds": 1})
        return
    for N, (a, b) in sorted(found.items()):
        G = ref.points(p, a, b)[0]
        before = len(col.failures) if hasattr(col, "failures") else None
        _toy_curve_check(p, a, b, G, N, 1, N, col, full_double=False)
        col.bulk(0, 0, None, {wanted[N]: 1})


def toy_run_unit(unit, col):
    from vlib import determinism

    determinism.reset({"unit": unit})  # the library's blinding draws are a function of the unit, in a full run as under --only
    p, a = unit
    for b in range(p):
        if (4 * a**3 + 27 * b * b) % p == 0:
            # zero discriminant must be refused with any generator
            try:
                Curve(p, a, b, (1, 1), 3, 1, weakness_check=False)
                col.fail("toy:zero-discriminant-accepted", {"unit": unit}, f"p={p} a={a} b={b}")
            except REFUSAL:
                col.bulk(1, 0)
            continue
        pts = ref.points(p, a, b)
        N = len(pts) + 1
        seen = set()
        for G in pts:
            n = ref.order(G, p, a)
            if n in seen:
                continue
            seen.add(n)
            if n <= 2 or not ref.is_prime(n):
                # a generator whose order is not an odd prime: refused when n is stated truthfully
                if G[1] != 0:
                    try:
                        Curve(p, a, b, G, n, N // n, weakness_check=False)
                        col.fail("toy:composite-order-accepted", {"unit": unit}, f"p={p} a={a} b={b} G={G} n={n}")
                    except REFUSAL:
                        col.bulk(1, 0)
                continue
            _toy_curve_check(p, a, b, G, n, N // n, N, col, full_double=p <= 11)
            # a wrong prime order must be refused by order_check
            for n2 in (3, 5, 7, 11, 13):
                if n2 != n and n % n2:
                    try:
                        Curve(p, a, b, G, n2, max(1, N // n2), weakness_check=False)
                        col.fail("toy:wrong-order-accepted", {"unit": unit}, f"p={p} a={a} b={b} G={G} n={n} stated={n2}")
                    except REFUSAL:
                        col.bulk(1, 0)
                    break


# ---------------------------------------------------------------- toy multi_mult (Hypothesis)
_TOY_ACCEPTED = None


def _toy_accepted():
    global _TOY_ACCEPTED
    if _TOY_ACCEPTED is None:
        _TOY_ACCEPTED = [c for c in ref.toy_curves(19) if ref.sec1_accepts(*c)]
    return _TOY_ACCEPTED


NTERMS = st.one_of(st.integers(2, 8), st.sampled_from([54, 55, 56, 57, 58, 70]))


@st.composite
def toy_multi_case(draw):
    n_terms = draw(NTERMS)
    zero_style = draw(st.sampled_from(["none", "some-zero-scalars", "some-inf", "cancel"]))
    terms = draw(st.lists(st.tuples(st.integers(-40, 80), st.integers(0, 60)), min_size=n_terms, max_size=n_terms))
    extra = draw(st.lists(st.tuples(st.sampled_from([0]), st.integers(0, 60)), max_size=4)) if zero_style == "some-zero-scalars" else []
    return {"curve": draw(st.integers(0, 10**6)), "terms": [list(t) for t in terms], "extra_zero": [list(t) for t in extra], "style": zero_style}


def check_toy_multi(case):
    tc = _toy_accepted()
    p, a, b, G, n, h, N = tc[case["curve"] % len(tc)]
    ec = Curve(p, a, b, G, n, h, weakness_check=False)
    sub = [None]
    R = G
    while R is not None:
        sub.append(R)
        R = ref.add(R, G, p, a)
    terms = [tuple(t) for t in case["terms"]] + [tuple(t) for t in case["extra_zero"]]
    if case["style"] == "some-inf":
        terms = [(m, 0 if k % 3 == 0 else i) for k, (m, i) in enumerate(terms)]
    if case["style"] == "cancel" and terms:
        tot = sum(m * (i % n) for m, i in terms) % n
        terms.append((-tot, 1))  # adds -tot*G: the sum is the point at infinity
    scalars = [m for m, _ in terms]
    pts = [lib_pt(sub[i % n]) for _, i in terms]
    want = sub[sum(m * (i % n) for m, i in terms) % n]
    got = norm(multi_mult_var(scalars, pts, ec))
    nz = sum(1 for m, i in terms if m % n and i % n)
    if got != want:
        raise Violation(f"toy_multi:wrong:{'bos-coster' if sum(1 for m in scalars if m % n) >= 56 else 'wnaf'}", f"curve={(p,a,b,G,n,h)} terms={terms} got={got} want={want}")
    return Outcome(nz >= 2, (f"nonzero{'>=56' if sum(1 for m in scalars if m % n) >= 56 else '<56'}", case["style"], "inf-result" if want is None else "point-result"))


# ---------------------------------------------------------------- catalogue
CAT_QUICK = ["secp256k1", "secp256r1", "bpp256r1", "secp160k1", "secp521r1", "secp112r2", "secp224r1", "secp224k1"]
ALL_NAMES = sorted(CURVES)


def scalar_for(nbits):
    return st.one_of(
        st.sampled_from(["0", "1", "2", "n-1", "n", "n+1", "2n-1", "2n+1", "-1", "-n", "(n-1)/2", "(n+1)/2"]),
        st.integers(0, 520).map(lambda k: f"2^{k}"),
        st.integers(1, 520).map(lambda k: f"2^{k}-1"),
        st.integers(0, 2 ** (nbits + 64)).map(str),
        st.integers(-(2 ** (nbits + 8)), -1).map(str),
        st.integers(0, 2**32).map(str),
    )


def eval_scalar(s, n):
    if s.startswith("2^"):
        body = s[2:]
        if body.endswith("-1"):
            return 2 ** int(body[:-2]) - 1
        return 2 ** int(body)
    table = {"n-1": n - 1, "n": n, "n+1": n + 1, "2n-1": 2 * n - 1, "2n+1": 2 * n + 1, "-n": -n, "(n-1)/2": (n - 1) // 2, "(n+1)/2": (n + 1) // 2}
    if s in table:
        return table[s]
    return int(s)


def point_spec():
    """How a point is named in a case: 'G', '-G', 'INF', or 'r:<int>' meaning r*G by the model."""
    return st.one_of(st.sampled_from(["G", "-G", "INF"]), st.integers(1, 2**64).map(lambda r: f"r:{r}"), st.integers(2, 40).map(lambda r: f"r:{r}"))


def eval_point(spec, ec):
    p, a, n, G = ec.p, ec._a, ec.n, ec.G
    if spec == "G":
        return G
    if spec == "-G":
        return ref.neg(G, p)
    if spec == "INF":
        return None
    return ref.mult(int(spec[2:]), G, p, a, n)


@st.composite
def catalogue_case(draw, names):
    name = draw(st.sampled_from(names))
    nbits = CURVES[name].nlen
    op = draw(st.sampled_from(["mult", "mult", "prepared", "double", "multi"]))
    case = {"curve": name, "op": op, "backend": draw(st.booleans()) if name == "secp256k1" else False, "blind_seed": draw(st.integers(0, 2**32))}
    if op in ("mult", "prepared"):
        case["m"] = draw(scalar_for(nbits))
        case["P"] = draw(point_spec())
    elif op == "double":
        case["u"], case["v"] = draw(scalar_for(nbits)), draw(scalar_for(nbits))
        case["H"], case["Q"] = draw(point_spec()), draw(point_spec())
        if draw(st.integers(0, 5)) == 0:
            case["Q"] = case["H"]  # same point: u*H+v*H
    else:
        k = draw(st.one_of(st.integers(2, 6), st.sampled_from([55, 56, 57, 60])))
        case["terms"] = [[draw(scalar_for(nbits)), draw(point_spec())] for _ in range(k)]
        case["cancel"] = draw(st.booleans())
    return case


def check_catalogue(case):
    ec = CURVES[case["curve"]]
    p, a, n = ec.p, ec._a, ec.n
    prev = is_libsecp256k1_serving()
    set_libsecp256k1_serving(serving=bool(case["backend"]))
    try:
        op = case["op"]
        if op in ("mult", "prepared"):
            m = eval_scalar(case["m"], n)
            P = eval_point(case["P"], ec)
            want = ref.mult(m, P, p, a, n)
            if op == "prepared":
                if P is None:
                    try:
                        PreparedPoint(lib_pt(P), ec)
                        raise Violation("catalogue:prepared-inf-accepted", "")
                    except REFUSAL:
                        return Outcome(False, ("prepared-inf-refused",))
                got = norm(PreparedPoint(lib_pt(P), ec).mult(m))
            elif case["P"] == "G" and m % 2:
                got = norm(mult(m, None, ec))
            else:
                got = norm(mult(m, lib_pt(P), ec))
            nontrivial = want is not None or (P is not None and m % n == 0 and m != 0)
        elif op == "double":
            u, v = eval_scalar(case["u"], n), eval_scalar(case["v"], n)
            H, Q = eval_point(case["H"], ec), eval_point(case["Q"], ec)
            want = ref.add(ref.mult(u, H, p, a, n), ref.mult(v, Q, p, a, n), p, a)
            got = norm(double_mult_var(u, lib_pt(H), v, lib_pt(Q), ec))
            nontrivial = want is not None or (u % n and v % n and H is not None and Q is not None)
        else:
            terms = [(eval_scalar(s, n), eval_point(P, ec)) for s, P in case["terms"]]
            if case["cancel"] and terms:
                acc = None
                for m, P in terms:
                    acc = ref.add(acc, ref.mult(m, P, p, a, n), p, a)
                terms.append((1, ref.neg(acc, p)))
            want = None
            for m, P in terms:
                want = ref.add(want, ref.mult(m, P, p, a, n), p, a)
            got = norm(multi_mult_var([m for m, _ in terms], [lib_pt(P) for _, P in terms], ec))
            nontrivial = sum(1 for m, P in terms if m % n and P is not None) >= 2
    finally:
        set_libsecp256k1_serving(serving=prev)
    if got != want:
        nzero = ""
        if op == "multi":
            nzero = ":bos-coster" if sum(1 for m, P in terms if m % n) >= 56 else ":wnaf"
        raise Violation(f"catalogue:{op}-wrong:{case['curve']}:bindings={case['backend']}{nzero}", f"got={got} want={want}")
    return Outcome(bool(nontrivial), (case["curve"], op, f"bindings={case['backend']}"))


# ---------------------------------------------------------------- refusals
@st.composite
def refusal_case(draw):
    name = draw(st.sampled_from(CAT_QUICK))
    return {
        "curve": name,
        "r": draw(st.integers(1, 2**64)),
        "mutation": draw(st.sampled_from(["y+1", "x+1", "y>=p", "y<0", "x<0", "x>=p", "swap", "3tuple", "list", "y=p"])),
        "api": draw(st.sampled_from(["mult", "prepared", "double-H", "double-Q", "multi", "bytes_from_point", "add_var"])),
        "backend": draw(st.booleans()) if name == "secp256k1" else False,
        "m": draw(st.integers(0, 5)),
    }


def check_refusal(case):
    ec = CURVES[case["curve"]]
    p, a, b, n = ec.p, ec._a, ec._b, ec.n
    P = ref.mult(case["r"], ec.G, p, a, n)
    mut = case["mutation"]
    x, y = P
    bad = {"y+1": (x, (y + 1) % p or 2), "x+1": ((x + 1) % p, y), "y>=p": (x, y + p), "y<0": (x, y - p), "x<0": (x - p, y), "x>=p": (x + p, y), "swap": (y, x), "3tuple": (x, y, 1), "list": [x, y], "y=p": (x, p)}[mut]
    if isinstance(bad, tuple) and len(bad) == 2 and (bad[1] == 0 or ref.on_curve(bad, p, a, b)):
        return Outcome(False, ("mutation-still-on-curve",))  # a point all the same, or (x, 0): the library's spelling of infinity
    # note: coordinates are field elements; x-p and x+p satisfy the equation mod p but are not points (ref.on_curve says so)
    prev = is_libsecp256k1_serving()
    set_libsecp256k1_serving(serving=bool(case["backend"]))
    api = case["api"]
    m = case["m"]
    try:
        try:
            if api == "mult":
                r = mult(m, bad, ec)
            elif api == "prepared":
                r = PreparedPoint(bad, ec)
            elif api == "double-H":
                r = double_mult_var(m, bad, 1, ec.G, ec)
            elif api == "double-Q":
                r = double_mult_var(1, ec.G, m, bad, ec)
            elif api == "multi":
                r = multi_mult_var([1, m, 2], [ec.G, bad, ec.G], ec)
            elif api == "bytes_from_point":
                r = bytes_from_point(bad, ec)
            else:
                r = ec.add_var(ec.G, bad)
        except REFUSAL:
            return Outcome(True, (api, mut))
    finally:
        set_libsecp256k1_serving(serving=prev)
    raise Violation(f"refusals:off-curve-answered:{api}:{mut}", f"curve={case['curve']} point={bad} m={m} -> {r!r}"[:500])


# ---------------------------------------------------------------- number theory
def nt_units(tier):
    hi = 200 if tier == "quick" else 600
    return [[m] for m in range(1, hi)]


def nt_run_unit(unit, col):
    from vlib import determinism

    determinism.reset({"unit": unit})
    (m,) = unit
    from math import gcd

    prime = ref.is_prime(m)
    evals = nontriv = 0
    ops = list(range(-m, 2 * m + 1))
    for x in ops:
        g = gcd(x, m)
        for f in (nt.mod_inv_var, nt.mod_inv):
            evals += 1
            try:
                inv = f(x, m)
                ok = g == 1 and 0 <= inv < m and (inv * x - 1) % m == 0
                if not ok:
                    col.fail(f"number_theory:{f.__name__}-wrong", {"unit": unit}, f"a={x} m={m} inv={inv}")
                    return
                nontriv += 1
            except REFUSAL:
                if g == 1:
                    col.fail(f"number_theory:{f.__name__}-refused-invertible", {"unit": unit}, f"a={x} m={m}")
                    return
        if prime and m > 2:
            evals += 1
            ls = nt.legendre_symbol_var(x, m)
            want = 0 if x % m == 0 else (1 if pow(x, (m - 1) // 2, m) == 1 else -1)
            if ls != want:
                col.fail("number_theory:legendre-wrong", {"unit": unit}, f"a={x} p={m} got={ls} want={want}")
                return
            for f in (nt.mod_sqrt_var, nt.tonelli_var):
                evals += 1
                try:
                    r = f(x, m)
                    if want == -1 or (r * r - x) % m or not 0 <= r < m:
                        col.fail(f"number_theory:{f.__name__}-wrong", {"unit": unit}, f"a={x} p={m} r={r}")
                        return
                    nontriv += 1
                except REFUSAL:
                    if want != -1:
                        col.fail(f"number_theory:{f.__name__}-refused-residue", {"unit": unit}, f"a={x} p={m}")
                        return
    # batched inverses = element-wise, in order
    units_ = [x for x in ops if gcd(x, m) == 1][:50]
    if units_:
        for f in (nt.mod_inv_batch_var, nt.mod_inv_batch):
            evals += 1
            got = f(units_, m)
            if [(g_ * x - 1) % m for g_, x in zip(got, units_)] != [0] * len(units_) or len(got) != len(units_):
                col.fail(f"number_theory:{f.__name__}-wrong", {"unit": unit}, f"m={m} ops={units_} got={got}")
                return
        non = [x for x in ops if gcd(x, m) != 1][:1]
        if non and m > 1:
            for f in (nt.mod_inv_batch_var, nt.mod_inv_batch):
                evals += 1
                try:
                    f(units_[:3] + non + units_[3:6], m)
                    col.fail(f"number_theory:{f.__name__}-accepted-noninvertible", {"unit": unit}, f"m={m}")
                    return
                except REFUSAL:
                    pass
    col.bulk(evals, nontriv, {"modulus": m, "operands": f"{-m}..{2*m}"})


def _prime_with_2adicity(s, k):
    """smallest prime of the form j*2^s+1 with odd j >= k"""
    j = k | 1
    while not ref.is_prime(j * 2**s + 1):
        j += 2
    return j * 2**s + 1


@st.composite
def nt_big_case(draw):
    kind = draw(st.sampled_from(["catalogue", "2adic", "composite"]))
    if kind == "catalogue":
        mod = {"curve": draw(st.sampled_from(ALL_NAMES)), "which": draw(st.sampled_from(["p", "n"]))}
    elif kind == "2adic":
        mod = {"s": draw(st.integers(1, 40)), "k": draw(st.integers(1, 2**60))}
    else:
        mod = {"f1": draw(st.integers(2, 2**64)), "f2": draw(st.integers(2, 2**64))}
    return {"kind": kind, "mod": mod, "a": draw(st.one_of(st.integers(-(2**530), 2**530), st.integers(-3, 3))), "square": draw(st.booleans()),
            "batch": draw(st.lists(st.integers(1, 2**300), max_size=6)), "blind_seed": draw(st.integers(0, 2**32))}


def check_nt_big(case):
    from math import gcd

    kind, mod = case["kind"], case["mod"]
    if kind == "catalogue":
        m = getattr(CURVES[mod["curve"]], mod["which"])
        prime = True
    elif kind == "2adic":
        m = _prime_with_2adicity(mod["s"], mod["k"])
        prime = True
    else:
        m = mod["f1"] * mod["f2"]
        prime = False
    a = case["a"]
    if case["square"]:
        a = a * a
    for f in (nt.mod_inv_var, nt.mod_inv):
        try:
            inv = f(a, m)
            if gcd(a, m) != 1 or not 0 <= inv < m or (inv * a - 1) % m:
                raise Violation(f"nt_big:{f.__name__}-wrong:{kind}", f"a={a} m={m} inv={inv}")
        except REFUSAL:
            if gcd(a, m) == 1:
                raise Violation(f"nt_big:{f.__name__}-refused-invertible:{kind}", f"a={a} m={m}")
    batch = [x for x in case["batch"] if gcd(x, m) == 1]
    for f in (nt.mod_inv_batch_var, nt.mod_inv_batch):
        got = f(batch, m)
        if len(got) != len(batch) or any((g_ * x - 1) % m for g_, x in zip(got, batch)):
            raise Violation(f"nt_big:{f.__name__}-wrong:{kind}", f"m={m} batch={batch} got={got}")
    tags = [kind]
    if prime:
        want = 0 if a % m == 0 else (1 if pow(a, (m - 1) // 2, m) == 1 else -1)
        ls = nt.legendre_symbol_var(a, m)
        if ls != want:
            raise Violation(f"nt_big:legendre-wrong:{kind}", f"a={a} p={m} got={ls} want={want}")
        for f in (nt.mod_sqrt_var, nt.tonelli_var):
            try:
                r = f(a, m)
                if want == -1 or (r * r - a) % m or not 0 <= r < m:
                    raise Violation(f"nt_big:{f.__name__}-wrong:{kind}:pmod8={m % 8}", f"a={a} p={m} r={r}")
            except REFUSAL:
                if want != -1:
                    raise Violation(f"nt_big:{f.__name__}-refused-residue:{kind}:pmod8={m % 8}", f"a={a} p={m}")
        tags += [f"pmod8={m % 8}", f"legendre={want}"]
    return Outcome(a % m not in (0, 1), tuple(tags))


def _jacobi(a, n):
    """Textbook Jacobi symbol (Cohen 1.4.10)."""
    a %= n
    t = 1
    while a:
        while a % 2 == 0:
            a //= 2
            if n % 8 in (3, 5):
                t = -t
        a, n = n, a
        if a % 4 == 3 and n % 4 == 3:
            t = -t
        a %= n
    return t if n == 1 else 0


# ---------------------------------------------------------------- SEC point codec
@st.composite
def sec_case(draw):
    toy = draw(st.booleans())
    return {
        "toy": toy,
        "curve": draw(st.integers(0, 10**6)) if toy else draw(st.sampled_from(ALL_NAMES)),
        "r": draw(st.integers(1, 2**70)),
        "compressed": draw(st.booleans()),
        "mutation": draw(st.sampled_from(["none", "none", "prefix", "hybrid-ok", "hybrid-bad", "truncate", "extend", "x>=p", "nonresidue-x", "y-wrong"])),
        "prefix": draw(st.one_of(st.sampled_from([2, 3, 4, 6, 7]), st.integers(0, 255))),
        "hybrid_flag": draw(st.booleans()),
        "backend": draw(st.booleans()),
    }


def check_sec(case):
    if case["toy"]:
        tc = _toy_accepted()
        p, a, b, G, n, h, N = tc[case["curve"] % len(tc)]
        ec = Curve(p, a, b, G, n, h, weakness_check=False)
    else:
        ec = CURVES[case["curve"]]
        p, a, b, n = ec.p, ec._a, ec._b, ec.n
    P = ref.mult(case["r"], ec.G, p, a, n)
    if P is None:
        # SEC 1 2.3.3 writes infinity as the single octet 00; a library with no use for that may refuse (this one does). Anything else is no encoding of it
        try:
            out = bytes_from_point((5, 0), ec, case["compressed"])
        except REFUSAL:
            return Outcome(False, ("inf-refused",))
        if out != b"\x00":
            raise Violation("sec:inf-serialized", out.hex())
        return Outcome(False, ("inf-as-00",))
    prev = is_libsecp256k1_serving()
    set_libsecp256k1_serving(serving=bool(case["backend"]))
    try:
        ps = ec.p_size
        enc = bytes_from_point(P, ec, case["compressed"])
        want_enc = (bytes([2 + (P[1] & 1)]) + P[0].to_bytes(ps, "big")) if case["compressed"] else b"\x04" + P[0].to_bytes(ps, "big") + P[1].to_bytes(ps, "big")
        if enc != want_enc:
            raise Violation("sec:encode-wrong", f"{enc.hex()} vs {want_enc.hex()}")
        mut = case["mutation"]
        hyb = case["hybrid_flag"]
        data, expect = enc, P
        if mut == "prefix":
            data = bytes([case["prefix"]]) + enc[1:]
            pf = case["prefix"]
            if case["compressed"]:
                expect = (P[0], P[1] if (pf & 1) == (P[1] & 1) else p - P[1]) if pf in (2, 3) else None
            else:
                expect = P if pf == 4 or (hyb and pf in (6, 7) and pf - 6 == P[1] % 2) else None
        elif mut in ("hybrid-ok", "hybrid-bad"):
            full = b"\x04" + P[0].to_bytes(ps, "big") + P[1].to_bytes(ps, "big")
            par = P[1] % 2 if mut == "hybrid-ok" else 1 - P[1] % 2
            data = bytes([6 + par]) + full[1:]
            expect = P if (hyb and mut == "hybrid-ok") else None
        elif mut == "truncate":
            data, expect = enc[:-1], None
        elif mut == "extend":
            data, expect = enc + b"\x00", None
        elif mut == "x>=p":
            if (P[0] + p).bit_length() > 8 * ps:
                return Outcome(False, ("x>=p-unrepresentable",))
            data = enc[:1] + (P[0] + p).to_bytes(ps, "big") + enc[1 + ps :]
            expect = None
        elif mut == "nonresidue-x":
            x = P[0]
            for _ in range(200):
                x = (x + 1) % p
                y2 = (x**3 + a * x + b) % p
                if y2 and pow(y2, (p - 1) // 2, p) != 1:
                    break
            else:
                return Outcome(False, ("no-nonresidue",))
            data = bytes([2]) + x.to_bytes(ps, "big")
            expect = None
        elif mut == "y-wrong":
            data = b"\x04" + P[0].to_bytes(ps, "big") + ((P[1] + 1) % p or 1).to_bytes(ps, "big")
            expect = None if not ref.on_curve((P[0], (P[1] + 1) % p or 1), p, a, b) else (P[0], (P[1] + 1) % p or 1)
        try:
            got = point_from_octets(data, ec, hybrid=hyb)
        except REFUSAL:
            got = None
    finally:
        set_libsecp256k1_serving(serving=prev)
    if got != expect:
        raise Violation(f"sec:decode-verdict:{mut}:hybrid={hyb}", f"data={data.hex()} got={got} want={expect}")
    return Outcome(True, (mut, "toy" if case["toy"] else "catalogue", "accepted" if expect else "refused"))


SUBCHECKS = [
    SubCheck("hasse_bounds", lambda c: None, "the prime-order curves (cofactor 1) whose order sits on either end of the Hasse interval p + 1 -+ isqrt(4p), or one inside it, for every prime p from 29 to 131 (257 thorough): accepted, "
             "and the whole group law on them as in toy_exhaustive; non-trivial as there", units=hasse_units, run_unit=hasse_run_unit, exhaustive=True),
    SubCheck("toy_exhaustive", lambda c: None, "every toy curve/subgroup/point x scalar; non-trivial = result != INF or a zero result from non-zero operands; distinct by construction (curve, function, operands)",
             units=toy_units, run_unit=toy_run_unit, exhaustive=True),
    SubCheck("toy_multi", check_toy_multi, "multi_mult_var on accepted toy curves (p<=19), 0..8 and 54..70 terms, zero scalars / INF terms / cancelling sums; non-trivial: >=2 non-zero terms", toy_multi_case, quick=3000, thorough=40000),
    SubCheck("catalogue", lambda c: check_catalogue(c), "mult / PreparedPoint.mult / double_mult_var / multi_mult_var on catalogued curves with boundary scalars; non-trivial: result != INF or zero from non-zero operands",
             lambda: catalogue_case(CAT_QUICK), quick=1500, thorough=6000),
    SubCheck("catalogue_all", lambda c: check_catalogue(c), "same as catalogue over all 27 curves", lambda: catalogue_case(ALL_NAMES), quick=400, thorough=12000),
    SubCheck("refusals", check_refusal, "an off-curve / ill-typed point handed to every entry point must be refused; non-trivial: every such refusal", refusal_case, quick=1500, thorough=15000),
    SubCheck("number_theory", lambda c: None, "every modulus < bound x every operand in [-m,2m]: inverses, Legendre, roots; non-trivial: an inverse or a root was returned and verified",
             units=nt_units, run_unit=nt_run_unit, exhaustive=True),
    SubCheck("nt_big", check_nt_big, "catalogue primes, primes k*2^s+1 (s<=40), composite moduli: inverses/batches/Legendre/roots; non-trivial: operand not in {0,1} mod m", nt_big_case, quick=3000, thorough=40000),
    SubCheck("sec_codec", check_sec, "SEC encode/decode round trip and refusal of malformed encodings on toy and catalogued curves", sec_case, quick=3000, thorough=30000),
]
