"""C05 sub-checks for the p2p payload classes and the Message envelope (generators: vlib/gens/p2p.py)."""

from __future__ import annotations

from io import BytesIO

from hypothesis import strategies as st

from btclib.exceptions import BTClibRuntimeError, BTClibTypeError, BTClibValueError
from btclib.p2p import Message
from btclib.p2p.payload import Payload
from vlib.gens import p2p as gp
from vlib.runner import Outcome, Violation

LIBEXC = (BTClibValueError, BTClibTypeError, BTClibRuntimeError)
NAMES = sorted(gp.PAYLOADS)
SLOW = {"BlockPayload"}
MUTS = ["none", "truncate", "append", "bitflip", "byte-set", "nonminimal-first-count", "first-count+1", "first-count-1", "splice"]


@st.composite
def p2p_case(draw, names=None):
    name = draw(st.sampled_from(names or [n for n in NAMES if n not in SLOW]))
    strat = (gp.PAYLOADS_EXACT if name in gp.PAYLOADS_EXACT and draw(st.booleans()) else gp.PAYLOADS)[name][0]
    return {"cls": name, "obj": draw(strat()), "mut": draw(st.sampled_from(MUTS)), "pos": draw(st.integers(0, 10**6)), "byte": draw(st.sampled_from([0, 1, 0xFC, 0xFD, 0xFE, 0xFF, 0x80, 0x7F])),
            "magic": draw(st.binary(min_size=4, max_size=4)).hex(), "as_stream": draw(st.booleans())}


def _mutate(raw: bytes, mut: str, pos: int, byte: int) -> bytes:
    if mut == "truncate":
        return raw[: pos % (len(raw) + 1)]
    if mut == "append":
        return raw + bytes([byte]) * (1 + pos % 3)
    if not raw:
        return raw
    if mut == "bitflip":
        b = bytearray(raw); k = pos % (8 * len(raw)); b[k // 8] ^= 1 << (k % 8); return bytes(b)
    if mut == "byte-set":
        b = bytearray(raw); b[pos % len(raw)] = byte; return bytes(b)
    if mut == "nonminimal-first-count":
        return b"\xfd" + raw[:1] + b"\x00" + raw[1:] if raw[0] < 0xFD else raw
    if mut == "first-count+1":
        return bytes([(raw[0] + 1) & 0xFF]) + raw[1:]
    if mut == "first-count-1":
        return bytes([(raw[0] - 1) & 0xFF]) + raw[1:]
    if mut == "splice":
        k = pos % (len(raw) + 1)
        return raw[:k] + raw[k // 2 :]
    return raw


def check_p2p(case):
    name = case["cls"]
    cls = gp.CLASSES[name]
    build = gp.PAYLOADS[name][1]
    try:
        obj = build(case["obj"])  # check_validity=True inside: the library vouches for the object
    except LIBEXC:
        return Outcome(False, (name, "generator-refused"))
    raw = obj.serialize()
    back = cls.parse(raw)
    lossy = name in gp.LOSSY and gp.LOSSY[name](case["obj"])
    if back.serialize() != raw:
        raise Violation(f"p2p:{name}:reserialize-differs", raw.hex()[:400])
    if not lossy and back != obj:
        raise Violation(f"p2p:{name}:parse-back-not-equal", raw.hex()[:400])
    if isinstance(obj, Payload):
        msg = obj.to_message(bytes.fromhex(case["magic"]))
        mraw = msg.serialize()
        m2 = Message.parse(mraw)
        if m2 != msg or m2.serialize() != mraw or m2.command != cls.command or m2.payload != raw:
            raise Violation(f"p2p:{name}:message-envelope", mraw.hex()[:300])
    # bytes under mutation
    data = _mutate(raw, case["mut"], case["pos"], case["byte"])
    arg = BytesIO(data) if case["as_stream"] else data
    try:
        o2 = cls.parse(arg)
    except LIBEXC:
        o2 = None
    except Exception as e:  # noqa: BLE001
        if name == "Message" and type(e).__name__ == "IncompleteMessageError":
            o2 = None
        else:
            raise
    if o2 is not None:
        consumed = data[: arg.tell()] if case["as_stream"] else data
        out = o2.serialize()
        if out != consumed:
            raise Violation(f"p2p:{name}:accepted-bytes-do-not-reserialize:{case['mut']}", f"in={consumed.hex()[:300]} out={out.hex()[:300]}")
    return Outcome(len(raw) > 0, (name, case["mut"], "mut-accepted" if o2 is not None else "mut-refused"))


def check_p2p_slow(case):
    return check_p2p(case)
