"""C06 — text encodings and addresses round-trip and accept exactly what the specs accept."""

from __future__ import annotations

import hashlib

from hypothesis import strategies as st

from btclib import b32, b58, base58, bech32
from btclib._ripemd160 import ripemd160 as py_ripemd160
from btclib.bip32 import BIP32KeyData
from btclib.exceptions import BTClibTypeError, BTClibValueError
from btclib.network import NETWORKS, network_type_from_network, networks_from_key_value
from btclib.script.script_pub_key import ScriptPubKey, address
from btclib.to_prv_key import prv_keyinfo_from_prv_key
from vlib.models import base58_ref as b58ref
from vlib.models import segwit_addr_ref as sref
from vlib.models.bip340_ref import n as N
from vlib.runner import HarnessError, Outcome, SubCheck, Violation

PROPERTY = "C06"
LEVEL = "exploration"
RULE = (
    "Hypothesis-generated payloads/strings; valid strings under every single-character substitution over the alphabet, transposition, case flip, "
    "truncation, extension; oracle = Base58Check and BIP173/BIP350 reference decoders (vlib/models); address<->scriptPubKey inverse over all standard "
    "types, witness versions 0..16 x program lengths 1..41 x 5 networks."
)
ASSUMPTIONS = [
    "segwit_addr_ref.py is sipa's BIP173/350 reference; base58_ref follows Core's base58.cpp; validated on BIP173/350 example addresses at start",
    "surrounding whitespace, which the address-level decoders strip by documented design, is not generated",
    "network prefix tables (btclib/_data/*.json) are data, not code under test",
]
NETS = list(NETWORKS)
HRPS = sorted({n.hrp for n in NETWORKS.values()})
REFUSAL = (BTClibValueError, BTClibTypeError)


def validate_models() -> None:
    ok = ["BC1QW508D6QEJXTDG4Y5R3ZARVARY0C5XW7KV8F3T4", "bc1pw508d6qejxtdg4y5r3zarvary0c5xw7kw508d6qejxtdg4y5r3zarvary0c5xw7kt5nd6y", "BC1SW50QGDZ25J", "bc1zw508d6qejxtdg4y5r3zarvaryvaxxpcs",
          "bc1p0xlxvlhemja6c4dqv22uapctqupfhlxm9h8z3k2e72q4k9hcz7vqzk5jj0"]
    bad = ["bc1qw508d6qejxtdg4y5r3zarvary0c5xw7kemeawh", "bc1p0xlxvlhemja6c4dqv22uapctqupfhlxm9h8z3k2e72q4k9hcz7vqh2y7hd", "BC130XLXVLHEMJA6C4DQV22UAPCTQUPFHLXM9H8Z3K2E72Q4K9HCZ7VQ7ZWS8R",
           "bc1pw5dgrnzv", "bc1p0xlxvlhemja6c4dqv22uapctqupfhlxm9h8z3k2e72q4k9hcz7v8n0nx0muaewav253zgeav", "bc1gmk9yu", "bc1p38j9r5y49hruaue7wxjce0updqjuyyx0kh56v8s25huc6995vvpql3jow4"]
    for a in ok:
        if sref.decode("bc", a) == (None, None):
            raise HarnessError(f"segwit_addr_ref rejects valid {a}")
    for a in bad:
        if sref.decode("bc", a) != (None, None):
            raise HarnessError(f"segwit_addr_ref accepts invalid {a}")
    if b58ref.check_decode("1BvBMSEYstWetqTFn5Au4m4GFg7xJaNVN2") is None or b58ref.check_decode("1BvBMSEYstWetqTFn5Au4m4GFg7xJaNVN3") is not None:
        raise HarnessError("base58_ref")


def mutate_text(s: str, kind: str, pos: int, ch: str) -> str:
    if not s:
        return s
    i = pos % len(s)
    if kind == "subst":
        return s[:i] + ch + s[i + 1 :]
    if kind == "transpose" and len(s) > 1:
        i = pos % (len(s) - 1)
        return s[:i] + s[i + 1] + s[i] + s[i + 2 :]
    if kind == "caseflip":
        return s[:i] + s[i].swapcase() + s[i + 1 :]
    if kind == "upper":
        return s.upper()
    if kind == "truncate":
        return s[:i]
    if kind == "drop":
        return s[:i] + s[i + 1 :]
    if kind == "insert":
        return s[:i] + ch + s[i:]
    if kind == "append":
        return s + ch
    if kind == "prepend":
        return ch + s
    if kind == "fold":
        # characters outside ASCII that str.lower / str.upper map INTO the alphabets: KELVIN SIGN -> k, LONG S -> S, DOTLESS I -> I
        up = s.upper()
        for plain, odd in (("K", "\u212a"), ("S", "\u017f"), ("I", "\u0131")):
            j = up.find(plain, i) if plain in up[i:] else up.find(plain)
            if j >= 0:
                return (up if odd == "\u212a" else s.lower())[:j] + odd + (up if odd == "\u212a" else s.lower())[j + 1 :]
        return s + "\u212a"
    return s


MUT_KINDS = ["none", "subst", "subst", "subst", "transpose", "caseflip", "upper", "truncate", "drop", "insert", "append", "prepend", "fold"]


# ---------------------------------------------------------------- base58
B58_CHARS = b58ref.ALPHABET + "0OIl"


@st.composite
def base58_case(draw):
    return {"zeros": draw(st.integers(0, 5)), "payload": draw(st.binary(max_size=75)).hex(), "mut": draw(st.sampled_from(MUT_KINDS)),
            "pos": draw(st.integers(0, 200)), "ch": draw(st.sampled_from(B58_CHARS)), "as_bytes": draw(st.booleans())}


def check_base58(case):
    payload = b"\x00" * case["zeros"] + bytes.fromhex(case["payload"])
    enc = base58.encode(payload)
    want_enc = b58ref.check_encode(payload)
    if enc != want_enc.encode():
        raise Violation("base58:encode-differs", f"{payload.hex()} lib={enc} ref={want_enc}")
    s = mutate_text(want_enc, case["mut"], case["pos"], case["ch"])
    model = b58ref.check_decode(s) if len(s) <= base58.MAX_LENGTH else None
    arg = s.encode() if case["as_bytes"] else s
    try:
        got = base58.decode(arg)
    except BTClibValueError:
        got = None
    if got != model:
        raise Violation(f"base58:decode-verdict:{case['mut']}:lib={'ok' if got is not None else 'refused'}:ref={'ok' if model is not None else 'refused'}", f"s={s!r} lib={got and got.hex()} ref={model and model.hex()}")
    if got is not None:
        if base58.encode(got).decode() != s:
            raise Violation("base58:re-encode-differs", s)
        # out_size is honoured
        try:
            base58.decode(arg, len(got) + 1)
            raise Violation("base58:wrong-out_size-accepted", s)
        except BTClibValueError:
            pass
    return Outcome(len(payload) > 0, (case["mut"], "accepted" if got is not None else "refused"))


def base58_units(tier):
    return [[i] for i in range(8 if tier == "quick" else 64)]


def base58_run_unit(unit, col):
    """every single-character substitution (whole alphabet + 0OIl) at every position of a valid string"""
    (i,) = unit
    payload = hashlib.sha256(b"base58-unit-%d" % i).digest()[: 1 + (i * 5) % 30]
    if i % 3 == 0:
        payload = b"\x00\x00" + payload
    s = b58ref.check_encode(payload)
    evals = nontriv = 0
    for pos in range(len(s)):
        for ch in B58_CHARS:
            t = s[:pos] + ch + s[pos + 1 :]
            model = b58ref.check_decode(t)
            try:
                got = base58.decode(t)
            except BTClibValueError:
                got = None
            evals += 1
            if got != model:
                col.fail("base58:single-substitution-verdict", {"unit": unit}, f"{t!r} lib={got} ref={model}")
                return
            if t != s:
                nontriv += 1
    col.bulk(evals, nontriv, {"string": s, "substitutions": "every position x 62 characters"})


# ---------------------------------------------------------------- segwit addresses
B32_CHARS = sref.CHARSET + "1bio" + "QPZ"


@st.composite
def segwit_case(draw):
    return {"net": draw(st.sampled_from(NETS)), "ver": draw(st.integers(0, 17)), "len": draw(st.one_of(st.integers(1, 41), st.sampled_from([20, 32, 2, 40]))),
            "prog": draw(st.binary(min_size=41, max_size=41)).hex(), "mut": draw(st.sampled_from(MUT_KINDS)), "pos": draw(st.integers(0, 120)),
            "ch": draw(st.sampled_from(B32_CHARS)), "wrong_const": draw(st.integers(0, 7)) == 0,
            "data_edit": draw(st.sampled_from(["none", "none", "none", "pad-bits", "extra-zero-group", "extra-group", "drop-group", "version-group", "foreign-hrp", "foreign-hrp"])), "edit_val": draw(st.integers(1, 31)),
            "hrp_edit": draw(st.sampled_from(["append-1x", "append-1", "append-x", "prepend-x", "drop-last", "other-net-1", "upper-tail", "ltc"]))}


def check_segwit(case):
    net = case["net"]
    hrp = NETWORKS[net].hrp
    ver, prog = case["ver"], bytes.fromhex(case["prog"])[: case["len"]]
    want = sref.encode(hrp, ver, list(prog)) if ver <= 16 else None
    try:
        got = b32.address_from_witness(ver, prog, net)
    except REFUSAL:
        got = None
    if got != want:
        raise Violation(f"segwit:encode-verdict:ver={'0' if ver == 0 else ('>16' if ver > 16 else '1..16')}:len={'ok' if 2 <= len(prog) <= 40 else 'bad'}", f"ver={ver} len={len(prog)} lib={got} ref={want}")
    if want is None:
        # still probe the decoder with a syntactically checksummed string for this (ver, prog)
        data = [ver % 32] + sref.convertbits(list(prog), 8, 5)
        s = sref.bech32_encode(hrp, data, sref.Encoding.BECH32 if ver == 0 else sref.Encoding.BECH32M)
    else:
        s = want
    if case["wrong_const"]:
        data = [ver % 32] + sref.convertbits(list(prog), 8, 5)
        s = sref.bech32_encode(hrp, data, sref.Encoding.BECH32M if ver == 0 else sref.Encoding.BECH32)
    de = case.get("data_edit", "none")
    if de != "none":
        # structure-aware: edit the 5-bit groups, then write a *valid* checksum over them
        data = [ver % 32] + sref.convertbits(list(prog), 8, 5)
        if de == "pad-bits":
            nb = (8 * len(prog)) % 5
            padbits = (5 - nb) % 5
            data[-1] |= case["edit_val"] & ((1 << padbits) - 1) if padbits else 0
        elif de == "extra-zero-group":
            data.append(0)
        elif de == "extra-group":
            data.append(case["edit_val"])
        elif de == "drop-group":
            data.pop()
        elif de == "version-group":
            data[0] = case["edit_val"]
        elif de == "foreign-hrp":
            # a string that is valid bech32(m) under ANOTHER hrp, one that begins or ends like a real one: "bc1x" begins with "bc1", and
            # the separator of a bech32 string is its LAST "1", so such a string belongs to no bitcoin network
            x = "qpzry9x8"[case["edit_val"] % 8]
            other = HRPS[(HRPS.index(hrp) + 1) % len(HRPS)]
            hrp = {"append-1x": hrp + "1" + x, "append-1": hrp + "1", "append-x": hrp + x, "prepend-x": x + hrp, "drop-last": hrp[:-1] or "b",
                   "other-net-1": hrp + "1" + other, "upper-tail": hrp + "1" + x + x, "ltc": "ltc"}[case.get("hrp_edit", "append-1x")]
        enc = sref.Encoding.BECH32 if data[0] == 0 else sref.Encoding.BECH32M
        if case["wrong_const"]:
            enc = sref.Encoding.BECH32M if data[0] == 0 else sref.Encoding.BECH32
        s = sref.bech32_encode(hrp, data, enc)
    s = mutate_text(s, case["mut"] if de == "none" else "none", case["pos"], case["ch"])
    if s != s.strip():
        return Outcome(False, ("whitespace-not-generated",))
    model = None
    for h in HRPS:
        d = sref.decode(h, s)
        if d != (None, None):
            model = (d[0], bytes(d[1]), h)
    try:
        v, pr, netname = b32.witness_from_address(s)
        got_dec = (v, pr, NETWORKS[netname].hrp)
    except REFUSAL:
        got_dec = None
    if got_dec != model:
        raise Violation(f"segwit:decode-verdict:{case['mut']}:wrongconst={case['wrong_const']}:lib={'ok' if got_dec else 'refused'}:ref={'ok' if model else 'refused'}", f"s={s!r} lib={got_dec} ref={model}")
    if got_dec is not None:
        if network_type_from_network(netname) != network_type_from_network(net) and s.lower().startswith(hrp + "1"):
            raise Violation("segwit:network-type-confused", f"{s} written for {net} read as {netname}")
        if b32.address_from_witness(v, pr, netname) != s.lower():
            raise Violation("segwit:re-encode-differs", s)
        spk = ScriptPubKey.from_address(s)
        exp_spk = bytes([0 if v == 0 else 0x50 + v, len(pr)]) + pr
        if spk.script != exp_spk:
            raise Violation("segwit:from_address-script", f"{s} -> {spk.script.hex()} expected {exp_spk.hex()}")
        if address(exp_spk, netname) != s.lower():
            raise Violation("segwit:address-of-script-differs", s)
    return Outcome(True, (case["mut"], f"ver={min(ver, 2)}", "accepted" if got_dec else "refused", f"edit={de}"))


def segwit_units(tier):
    return [[i] for i in range(6 if tier == "quick" else 40)]


def segwit_run_unit(unit, col):
    (i,) = unit
    hrp = HRPS[i % len(HRPS)]
    ver = [0, 1, 0, 2, 16, 1][i % 6]
    ln = [20, 32, 32, 2, 40, 32][i % 6]
    prog = hashlib.sha512(b"segwit-unit-%d" % i).digest()[:ln]
    s = sref.encode(hrp, ver, list(prog))
    evals = nontriv = 0
    for pos in range(len(s)):
        for ch in B32_CHARS:
            t = s[:pos] + ch + s[pos + 1 :]
            model = None
            for h in HRPS:
                d = sref.decode(h, t)
                if d != (None, None):
                    model = (d[0], bytes(d[1]), h)
            try:
                v, pr, netname = b32.witness_from_address(t)
                got = (v, pr, NETWORKS[netname].hrp)
            except REFUSAL:
                got = None
            evals += 1
            if got != model:
                col.fail("segwit:single-substitution-verdict", {"unit": unit}, f"{t!r} lib={got} ref={model}")
                return
            if t != s:
                nontriv += 1
    col.bulk(evals, nontriv, {"address": s, "substitutions": f"every position x {len(B32_CHARS)} characters"})


# ---------------------------------------------------------------- low-level bech32
@st.composite
def bech32_case(draw):
    return {"hrp": draw(st.sampled_from(HRPS + ["a", "abcdef", "test0"])), "data": draw(st.lists(st.integers(0, 31), min_size=1, max_size=60))}


def check_bech32(case):
    hrp, data = case["hrp"], case["data"]
    enc = bech32.encode(hrp, data).decode()
    want = sref.bech32_encode(hrp, data, sref.Encoding.BECH32 if data[0] == 0 else sref.Encoding.BECH32M)
    if enc != want:
        raise Violation("bech32:encode-differs", f"{enc} vs {want}")
    if bech32.decode(enc) != (hrp, data) or bech32.decode(enc.upper()) != (hrp, data):
        raise Violation("bech32:roundtrip", enc)
    return Outcome(len(data) > 1)


# ---------------------------------------------------------------- address <-> scriptPubKey
TYPES = ["p2pkh", "p2sh", "p2wpkh", "p2wsh", "p2tr", "witness_unknown"]


@st.composite
def address_case(draw):
    return {"type": draw(st.sampled_from(TYPES)), "net": draw(st.sampled_from(NETS)), "payload": draw(st.binary(min_size=40, max_size=40)).hex(),
            "ver": draw(st.integers(2, 16)), "len": draw(st.integers(2, 40)), "v1len": draw(st.sampled_from([32, 32, 2, 20, 33, 40]))}


def check_address(case):
    t, net, pl = case["type"], case["net"], bytes.fromhex(case["payload"])
    if t == "p2pkh":
        spk = b"\x76\xa9\x14" + pl[:20] + b"\x88\xac"
        want_addr = b58ref.check_encode(NETWORKS[net].p2pkh + pl[:20])
    elif t == "p2sh":
        spk = b"\xa9\x14" + pl[:20] + b"\x87"
        want_addr = b58ref.check_encode(NETWORKS[net].p2sh + pl[:20])
    elif t == "p2wpkh":
        spk = b"\x00\x14" + pl[:20]
        want_addr = sref.encode(NETWORKS[net].hrp, 0, list(pl[:20]))
    elif t == "p2wsh":
        spk = b"\x00\x20" + pl[:32]
        want_addr = sref.encode(NETWORKS[net].hrp, 0, list(pl[:32]))
    elif t == "p2tr":
        ln = case["v1len"]
        spk = b"\x51" + bytes([ln]) + pl[:ln]
        want_addr = sref.encode(NETWORKS[net].hrp, 1, list(pl[:ln]))
    else:
        ln = case["len"]
        spk = bytes([0x50 + case["ver"], ln]) + pl[:ln]
        want_addr = sref.encode(NETWORKS[net].hrp, case["ver"], list(pl[:ln]))
    got = address(spk, net)
    if got != want_addr:
        raise Violation(f"address:script-to-address:{t}", f"spk={spk.hex()} lib={got} ref={want_addr}")
    back = ScriptPubKey.from_address(got)
    if back.script != spk:
        raise Violation(f"address:address-to-script:{t}", f"{got} -> {back.script.hex()} expected {spk.hex()}")
    key = "hrp" if t in ("p2wpkh", "p2wsh", "p2tr", "witness_unknown") else t
    val = NETWORKS[net].hrp if key == "hrp" else getattr(NETWORKS[net], key)
    if back.network not in networks_from_key_value(key, val) or network_type_from_network(back.network) != network_type_from_network(net):
        raise Violation(f"address:network-read-back:{t}", f"{got}: written {net}, read {back.network}")
    if ScriptPubKey(spk, net).address != got:
        raise Violation("address:ScriptPubKey.address", got)
    return Outcome(True, (t, net))


# ---------------------------------------------------------------- BIP21 URIs (an address, an amount and free text in one string)
UNRESERVED = set("ABCDEFGHIJKLMNOPQRSTUVWXYZabcdefghijklmnopqrstuvwxyz0123456789-._~")
RESERVED_KEYS = {"amount", "label", "message"}
URI_TEXT = st.one_of(st.text(max_size=20), st.text(alphabet="&=?#%+ /:@;,'\"<>[]{}|\\^`", max_size=8), st.sampled_from(["", " ", "%", "%41", "a=b&c", "è", "日本語", "a+b", "100%", "\x00", "\U0001f600"]))


def pct_encode(text: str) -> str:
    """RFC 3986: everything but the unreserved characters is %XX of its UTF-8 octets."""
    return "".join(ch if ch in UNRESERVED else "".join(f"%{b:02X}" for b in ch.encode("utf-8")) for ch in text)


def pct_decode(text: str) -> str:
    out = bytearray()
    i = 0
    while i < len(text):
        if text[i] == "%":
            out.append(int(text[i + 1 : i + 3], 16))
            i += 3
        else:
            out += text[i].encode("utf-8")
            i += 1
    return out.decode("utf-8")


@st.composite
def bip21_case(draw):
    keys = st.text(min_size=1, max_size=8).filter(lambda k: k not in RESERVED_KEYS and not k.lower().startswith("req-"))
    return {
        "addr": draw(address_case()),
        "sats": draw(st.one_of(st.none(), st.sampled_from([0, 1, 10**8, 21 * 10**14, 12345678]), st.integers(0, 21 * 10**14))),
        "label": draw(st.one_of(st.none(), URI_TEXT)),
        "message": draw(st.one_of(st.none(), URI_TEXT)),
        "others": draw(st.lists(st.tuples(keys, URI_TEXT).map(list), max_size=3, unique_by=lambda kv: kv[0])),
        "scheme": draw(st.sampled_from(["bitcoin", "bitcoin", "BITCOIN", "Bitcoin"])),
        "bad": draw(st.sampled_from(["none", "none", "amount-exp", "amount-sign", "amount-comma", "amount-over", "amount-fine", "req", "scheme", "no-address", "bad-escape", "bad-utf8", "net-char"])),
    }


def check_bip21(case):
    from decimal import Decimal

    from btclib.bip21 import Bip21

    a = dict(case["addr"])
    a["type"] = a["type"] if a["type"] != "witness_unknown" else "p2tr"
    a["v1len"] = 32
    t, net, pl = a["type"], a["net"], bytes.fromhex(a["payload"])
    addr = {
        "p2pkh": lambda: b58ref.check_encode(NETWORKS[net].p2pkh + pl[:20]),
        "p2sh": lambda: b58ref.check_encode(NETWORKS[net].p2sh + pl[:20]),
        "p2wpkh": lambda: sref.encode(NETWORKS[net].hrp, 0, list(pl[:20])),
        "p2wsh": lambda: sref.encode(NETWORKS[net].hrp, 0, list(pl[:32])),
        "p2tr": lambda: sref.encode(NETWORKS[net].hrp, 1, list(pl[:32])),
    }[t]()
    sats = case["sats"]
    amount = None if sats is None else Decimal(sats) / Decimal(10**8)
    others = {k: v for k, v in case["others"]}
    lone = any(0xD800 <= ord(ch) <= 0xDFFF for text in [case["label"] or "", case["message"] or "", *others, *others.values()] for ch in text)
    if lone:
        return Outcome(False, ("lone-surrogate-skipped",))  # not text that UTF-8 can carry: C19's business, not a round trip
    obj = Bip21(addr, amount, case["label"], case["message"], others)
    uri = obj.serialize()
    # 1. the library reads back what it wrote
    back = Bip21.parse(uri)
    if (back.address, back.amount, back.label, back.message, dict(back.others)) != (addr, amount, case["label"], case["message"], others):
        raise Violation("bip21:round-trip", f"{uri!r} -> {back}")
    # 2. an independent reader of what the library wrote
    head, _, query = uri.partition("?")
    scheme, _, written_addr = head.partition(":")
    if scheme.lower() != "bitcoin" or written_addr != addr:  # RFC 3986: the scheme is case-insensitive
        raise Violation("bip21:scheme-or-address-written", uri[:80])
    fields = {}
    for element in query.split("&") if query else []:
        k, _, v = element.partition("=")
        # RFC 3986's query characters less BIP21's two separators: no control, blank or non-ASCII character, no '#', '&' or '=', no '[', ']' or other
        # excluded delimiter, and every '%' starts an escape (which of the allowed characters a writer escapes anyway is its own choice)
        if any(ch not in UNRESERVED and ch not in "%!$'()*+,;:@/?" for ch in k + v):
            raise Violation("bip21:unescaped-character-written", f"{element!r} in {uri!r}")
        try:
            fields[pct_decode(k)] = pct_decode(v)
        except (ValueError, UnicodeDecodeError):
            raise Violation("bip21:malformed-escape-written", f"{element!r} in {uri!r}") from None
    want = dict(others)
    if amount is not None:
        if Decimal(fields.get("amount", "x") if fields.get("amount", "x").replace(".", "").isdigit() else "NaN") != amount:
            raise Violation("bip21:amount-written", f"{fields.get('amount')!r} for {amount}")
        fields.pop("amount")
    for name in ("label", "message"):
        if case[name] is not None:
            want[name] = case[name]
    if fields != want:
        raise Violation("bip21:fields-written", f"{fields} vs {want}")
    # 3. the library reading what an independent writer wrote (everything escaped, any scheme case, parameters in another order)
    parts = [f"{pct_encode(k)}={pct_encode(v)}" for k, v in reversed(list(others.items()))]
    if case["message"] is not None:
        parts.append("message=" + pct_encode(case["message"]))
    if sats is not None:
        whole, frac = divmod(sats, 10**8)
        parts.append(f"amount={whole}.{frac:08d}" if frac else f"amount={whole}")
    if case["label"] is not None:
        parts.append("label=" + pct_encode(case["label"]))
    foreign = f"{case['scheme']}:{addr}" + ("?" + "&".join(parts) if parts else "")
    bad = case["bad"]
    if bad == "none":
        try:
            got = Bip21.parse(foreign)
        except REFUSAL as e:
            raise Violation("bip21:valid-uri-refused", f"{foreign!r}: {e}")
        if (got.address, got.amount, got.label, got.message, dict(got.others)) != (addr, amount, case["label"], case["message"], others):
            raise Violation("bip21:foreign-uri-read", f"{foreign!r} -> {got}")
        if got.network_type != network_type_from_network(net):
            raise Violation("bip21:network-type", f"{addr} written for {net}, read {got.network_type}")
        return Outcome(bool(parts), (t, net, f"params={len(parts)}", f"scheme={case['scheme']}"))
    sep = "&" if parts else "?"
    broken = {
        "amount-exp": f"bitcoin:{addr}?amount=1e2",
        "amount-sign": f"bitcoin:{addr}?amount=-1",
        "amount-comma": f"bitcoin:{addr}?amount=1,5",
        "amount-over": f"bitcoin:{addr}?amount=21000000.00000001",
        "amount-fine": f"bitcoin:{addr}?amount=0.000000001",
        "req": foreign + sep + "req-somethingnew=1",
        "scheme": f"bitcoincash:{addr}",
        "no-address": "bitcoin:?amount=1",
        "bad-escape": f"bitcoin:{addr}?label=%zz",
        "bad-utf8": f"bitcoin:{addr}?label=%ff%fe",
        "net-char": "bitcoin:" + (addr[:-1] + ("q" if addr[-1] != "q" else "p")),
    }[bad]
    try:
        got = Bip21.parse(broken)
    except REFUSAL:
        return Outcome(True, (f"refused={bad}",))
    raise Violation(f"bip21:accepted:{bad}", f"{broken!r} -> {got}")



# ---------------------------------------------------------------- WIF and extended keys
VERSIONS = []  # (name, prv, pub): BIP32's and SLIP132's version pairs of every network
for _net in NETWORKS.values():
    for _k in ("bip32", "slip132_p2wpkh", "slip132_p2wpkh_p2sh", "slip132_p2wsh", "slip132_p2wsh_p2sh"):
        _pair = (getattr(_net, _k + "_prv"), getattr(_net, _k + "_pub"))
        if _pair not in [v[1:] for v in VERSIONS]:
            VERSIONS.append((_k, *_pair))

# checksummed payloads that are not a WIF / not an address: the structure behind the checksum is under test too
WIF_EDITS = ["none", "none", "body-31", "body-33", "suffix-00", "suffix-02", "two-suffix", "q=0", "q=n", "q=max", "foreign-prefix", "p2pkh-prefix"]
ADDR_EDITS = ["none", "hash-19", "hash-21", "unknown-version", "wif-version", "empty-hash", "xkey-length"]


@st.composite
def keys_case(draw):
    return {"q": draw(st.one_of(st.sampled_from([1, N - 1]), st.integers(1, N - 1))), "net": draw(st.sampled_from(NETS)), "compressed": draw(st.booleans()),
            "mut": draw(st.sampled_from(MUT_KINDS)), "pos": draw(st.integers(0, 120)), "ch": draw(st.sampled_from(B58_CHARS)),
            "wif_edit": draw(st.sampled_from(WIF_EDITS)), "addr_edit": draw(st.sampled_from(ADDR_EDITS)), "h": draw(st.binary(min_size=22, max_size=22)).hex(), "p2sh": draw(st.booleans()),
            "xkey": {"depth": draw(st.integers(0, 255)), "fp": draw(st.binary(min_size=4, max_size=4)).hex(), "index": draw(st.integers(0, 2**32 - 1)), "cc": draw(st.binary(min_size=32, max_size=32)).hex(),
                     "version": draw(st.integers(0, 40))}}


def check_keys(case):
    q, net, compr = case["q"], case["net"], case["compressed"]
    wif = b58.wif_from_prv_key(q, net, compr)
    want = b58ref.check_encode(NETWORKS[net].wif + q.to_bytes(32, "big") + (b"\x01" if compr else b""))
    if wif != want:
        raise Violation("keys:wif-encode", f"{wif} vs {want}")
    q2, net2, c2 = prv_keyinfo_from_prv_key(wif)
    if (q2, c2) != (q, compr) or NETWORKS[net2].wif != NETWORKS[net].wif or network_type_from_network(net2) != network_type_from_network(net):
        raise Violation("keys:wif-decode", f"{wif} -> {(q2, net2, c2)}")
    s = mutate_text(wif, case["mut"], case["pos"], case["ch"])
    if s == s.strip():
        pl = b58ref.check_decode(s)
        model_ok = pl is not None and len(pl) in (33, 34) and pl[:1] in {n_.wif for n_ in NETWORKS.values()} and (len(pl) == 33 or pl[-1] == 1) and 0 < int.from_bytes(pl[1:33], "big") < N
        try:
            r = prv_keyinfo_from_prv_key(s)
            got_ok = True
        except REFUSAL:
            got_ok = False
        if got_ok != model_ok:
            raise Violation(f"keys:wif-verdict:{case['mut']}:lib={got_ok}:ref={model_ok}", s)
        if got_ok and (r[0] != int.from_bytes(pl[1:33], "big") or r[2] != (len(pl) == 34)):
            raise Violation("keys:wif-decoded-value", s)
    tags = []
    # the structure behind a right checksum: a WIF is prefix + 32 bytes (+ 01), 0 < q < n, and nothing else
    we = case.get("wif_edit", "none")
    if we != "none":
        prefix, body = NETWORKS[net].wif, q.to_bytes(32, "big")
        suffix = b"\x01" if compr else b""
        payload = {"body-31": prefix + body[1:] + suffix, "body-33": prefix + body + b"\x07" + suffix if compr else prefix + body + b"\x07\x07", "suffix-00": prefix + body + b"\x00", "suffix-02": prefix + body + b"\x02",
                   "two-suffix": prefix + body + b"\x01\x01", "q=0": prefix + bytes(32) + suffix, "q=n": prefix + N.to_bytes(32, "big") + suffix, "q=max": prefix + b"\xff" * 32 + suffix,
                   "foreign-prefix": bytes([(prefix[0] + 1) % 256 if bytes([(prefix[0] + 1) % 256]) not in {n_.wif for n_ in NETWORKS.values()} else 0x55]) + body + suffix,
                   "p2pkh-prefix": NETWORKS[net].p2pkh + body + suffix}[we]
        s = b58ref.check_encode(payload)
        model_ok = len(payload) in (33, 34) and payload[:1] in {n_.wif for n_ in NETWORKS.values()} and (len(payload) == 33 or payload[-1] == 1) and 0 < int.from_bytes(payload[1:33], "big") < N
        try:
            r = prv_keyinfo_from_prv_key(s)
            got_ok = True
        except REFUSAL:
            got_ok = False
        if got_ok != model_ok:
            raise Violation(f"keys:wif-structure:{we}:lib={got_ok}:ref={model_ok}", s)
        if got_ok and (r[0] != int.from_bytes(payload[1:33], "big") or r[2] != (len(payload) == 34)):
            raise Violation("keys:wif-decoded-value", s)
        tags.append(f"wif-{we}:{'accepted' if got_ok else 'refused'}")
    # and a base58 address is a known version byte + 20 bytes
    ae = case.get("addr_edit", "none")
    if ae != "none":
        hh = bytes.fromhex(case["h"])
        good = NETWORKS[net].p2sh if case["p2sh"] else NETWORKS[net].p2pkh
        known = {n_.p2pkh for n_ in NETWORKS.values()} | {n_.p2sh for n_ in NETWORKS.values()}
        unknown = next(bytes([v]) for v in range(case["pos"] % 256, case["pos"] % 256 + 256) if bytes([v % 256]) not in known and bytes([v % 256]) not in {n_.wif for n_ in NETWORKS.values()})
        payload = {"hash-19": good + hh[:19], "hash-21": good + hh[:21], "unknown-version": bytes([unknown[0] % 256]) + hh[:20], "wif-version": NETWORKS[net].wif + hh[:20], "empty-hash": good,
                   "xkey-length": good + hh + hh + hh + hh[:11]}[ae]
        s = b58ref.check_encode(payload)
        for what, fn in (("h160_from_address", lambda: b58.h160_from_address(s)), ("ScriptPubKey.from_address", lambda: ScriptPubKey.from_address(s))):
            try:
                r = fn()
            except REFUSAL:
                continue
            raise Violation(f"keys:address-structure:{ae}:{what}-accepted", f"{s} -> {r!r:.120}")
        tags.append(f"addr-{ae}")
    # extended keys: serialize/b58 round trip with every version
    xk = case["xkey"]
    _, vprv, vpub = VERSIONS[xk["version"] % len(VERSIONS)]
    depth, fp, index = xk["depth"], bytes.fromhex(xk["fp"]), xk["index"]
    if depth == 0:
        fp, index = b"\x00" * 4, 0
    for version, key in ((vprv, b"\x00" + q.to_bytes(32, "big")), (vpub, None)):
        if key is None:
            from vlib.models.bip32_ref import ser_p
            from vlib.models.bip340_ref import G, point_mul
            key = ser_p(point_mul(G, q))
        try:
            x = BIP32KeyData(version, depth, fp, index, bytes.fromhex(xk["cc"]), key)
        except BTClibValueError:
            if depth != 0 and fp == b"\x00" * 4:
                continue  # documented refusal: a non-root key with a zero parent fingerprint
            raise
        raw = version + bytes([depth]) + fp + index.to_bytes(4, "big") + bytes.fromhex(xk["cc"]) + key
        text = x.b58encode()
        if text != b58ref.check_encode(raw) or x.serialize() != raw:
            raise Violation("keys:xkey-encode", text)
        if BIP32KeyData.b58decode(text) != x or BIP32KeyData.parse(raw) != x:
            raise Violation("keys:xkey-roundtrip", text)
        t2 = mutate_text(text, case["mut"], case["pos"], case["ch"])
        if t2 != text and t2 == t2.strip():
            pl = b58ref.check_decode(t2)
            try:
                y = BIP32KeyData.b58decode(t2)
                if pl is None or y.serialize() != pl:
                    raise Violation(f"keys:xkey-corrupted-accepted:{case['mut']}", t2)
            except BTClibValueError:
                pass
    return Outcome(True, (case["mut"], net, *tags))


# ---------------------------------------------------------------- ripemd160 fallback
@st.composite
def ripemd_case(draw):
    return {"data": draw(st.one_of(st.sampled_from([0, 1, 55, 56, 57, 63, 64, 65, 119, 120, 127, 128]).flatmap(lambda k: st.binary(min_size=k, max_size=k)), st.binary(max_size=300))).hex()}


def check_ripemd(case):
    d = bytes.fromhex(case["data"])
    if py_ripemd160(d) != hashlib.new("ripemd160", d).digest():
        raise Violation(f"ripemd160:differs:len={len(d)}", d.hex())
    return Outcome(True, (f"len%64={len(d) % 64}" if len(d) % 64 in (55, 56, 63, 0) else "other",))


SUBCHECKS = [
    SubCheck("base58", check_base58, "Base58Check encode/decode vs reference on payloads with leading zeros and mutated strings; non-trivial: non-empty payload", base58_case, quick=16000, thorough=160000),
    SubCheck("base58_single_subst", lambda c: None, "every single-character substitution (58 letters + 0OIl) of valid strings; distinct by construction", units=base58_units, run_unit=base58_run_unit, exhaustive=True),
    SubCheck("segwit_addr", check_segwit, "address_from_witness / witness_from_address vs BIP173/350 reference: versions 0..17, lengths 1..41, wrong checksum constant, mutated strings, 5 networks", segwit_case, quick=24000, thorough=240000),
    SubCheck("segwit_single_subst", lambda c: None, "every single-character substitution of valid segwit addresses; distinct by construction", units=segwit_units, run_unit=segwit_run_unit, exhaustive=True),
    SubCheck("bech32_lowlevel", check_bech32, "bech32.encode equals the reference and decodes back (lower and upper case)", bech32_case, quick=1500, thorough=15000),
    SubCheck("address_inverse", check_address, "address(spk) equals the reference string and from_address gives spk back, network of the same type and prefix", address_case, quick=8000, thorough=60000),
    SubCheck("bip21", check_bip21, "bitcoin: URIs over every address type x network, amounts 0..21e14 sat, unicode / reserved-character labels, messages and extra parameters: parse(serialize(x)) == x, an independent RFC 3986 reader recovers every field from what the library wrote, the library reads what an independent writer wrote (any scheme case, any parameter order), network type read off the address; exponent / signed / comma / over-range / sub-satoshi amounts, req- parameters, other schemes, malformed escapes and a corrupted address are refused; non-trivial: at least one parameter", bip21_case, quick=4000, thorough=40000),
    SubCheck("keys", check_keys, "WIF and xprv/xpub (all BIP32/SLIP132 versions): encode = reference, decode inverse, mutated strings accepted iff the reference accepts; payloads with a right checksum and a wrong structure (31- or 33-byte key, another compression suffix, q = 0, n or 2^256-1, a foreign or an address prefix; addresses with a 19-, 21- or 0-byte hash, an unknown or a WIF version byte, 78 bytes) accepted iff the structure is a WIF's and never as an address", keys_case, quick=3000, thorough=30000),
    SubCheck("ripemd160", check_ripemd, "pure-Python RIPEMD160 == OpenSSL's on lengths around block boundaries", ripemd_case, quick=1500, thorough=15000),
    SubCheck("coverage_guided", None, 'atheris / libFuzzer campaign (btclib instrumented, in-process) from arbitrary text over the address, key and URI decoders, seeded with valid addresses and keys: on every input, and on a string the reference checksums for a (hrp, version, program) decoded from the input and then edits character by character, witness_from_address accepts exactly when the BIP173/350 reference does, with its version, program and hrp, and address_from_witness writes back the string of the reference; non-trivial: inputs libFuzzer kept because they reached new coverage',
             units=lambda tier: __import__("checks.c19_fuzz", fromlist=["units"]).units(tier, "C06"), run_unit=lambda unit, col: __import__("checks.c19_fuzz", fromlist=["run_unit"]).run_unit(unit, col, "C06")),
]
