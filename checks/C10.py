"""C10 — what the library builds and signs, its own engine accepts; tampering is rejected."""

from __future__ import annotations

import json

from hypothesis import strategies as st

from btclib import b32, b58, bip322
from btclib.curves.curve import is_libsecp256k1_serving, set_libsecp256k1_serving
from btclib.ecc import bms
from btclib.exceptions import BTClibRuntimeError, BTClibTypeError, BTClibValueError
from btclib.script.engine import verify_input, verify_transaction
from btclib.script.script_pub_key import ScriptPubKey
from vlib import build, worlds
from vlib.gens import scripts as gs
from vlib.models import core_script_ref as cs
from vlib.models import fastec, tx_ref
from vlib.runner import Outcome, SubCheck, Violation

PROPERTY = "C10"
LEVEL = "exploration"
RULE = (
    "Generated wallet worlds (1..3 seeds, 1..4 inputs of 13 descriptor kinds incl. multisig, taproot key/script path, multi_a and miniscript leaves, wsh miniscript; "
    "every sighash type; PSBT v0/v2; sequential signing or combine) driven through the library's own roles; the extracted transaction must be accepted by the engine "
    "(standard and consensus flags, both backends) and by the Core model; one generated edit of a field the chosen hash types commit to must be rejected."
)
ASSUMPTIONS = [
    "vlib/worlds.py only routes data between public library roles; its documented preconditions (P1-P13) are encoded by construction, so a refusal by the library is reported",
    "commitment table (which hash type of which script family commits to which field) is written from BIP143/BIP341 and the legacy algorithm",
    "core_script_ref validated on Core's vectors (see C08)",
]
STANDARD = ",".join(gs.STANDARD)
LIBEXC = (BTClibValueError, BTClibTypeError, BTClibRuntimeError)
TAMPERS = ["none", "output-amount", "output-script", "lock_time", "version", "sequence", "outpoint-index", "spent-amount", "spent-script-other", "drop-output", "add-output", "swap-outputs"]


class backend:
    def __init__(self, serving):
        self.serving = bool(serving)

    def __enter__(self):
        self.prev = is_libsecp256k1_serving()
        set_libsecp256k1_serving(serving=self.serving)

    def __exit__(self, *a):
        set_libsecp256k1_serving(serving=self.prev)


@st.composite
def world_case(draw, kinds=None, max_inputs=4):
    # the small draws first: what follows a world (many draws) is what an exhausted example buffer zero-fills
    head = {"tamper": draw(st.sampled_from(TAMPERS)), "target": draw(st.integers(0, 7)), "backend": draw(st.booleans())}
    return {"world": draw(worlds.world_case(max_inputs=max_inputs, kinds=kinds)), **head}


def family(kind):
    if kind in worlds.LEGACY_KINDS:
        return "legacy"
    if kind in worlds.TAPROOT_KINDS:
        return "taproot"
    return "segwit0"


def _commits(inp, j, n_out, field, k):
    """Does the signature of input j (recipe `inp`) commit to `field` of element k?"""
    fam = family(inp["kind"])
    h = inp.get("sighash")
    if h is None:
        h = 1 if fam != "taproot" else 0
    base = (h & 3) or 1  # 0 = DEFAULT = ALL
    acp = bool(h & 0x80)
    if fam == "legacy" and base == 3 and j >= n_out:
        return False  # the legacy SIGHASH_SINGLE "one" digest: a constant that commits to nothing at all
    if field in ("output-amount", "output-script"):
        if base == 1:
            return True
        if base == 3:
            return k == j and j < n_out
        return False
    if field in ("drop-output", "add-output", "swap-outputs"):
        return base == 1
    if field in ("lock_time", "version"):
        return True
    if field in ("sequence", "outpoint-index"):
        if k == j:
            return True
        if field == "outpoint-index":
            return not acp
        return (not acp) and (base == 1 or fam == "taproot")
    if field == "spent-amount":
        if fam == "legacy":
            return False
        if k == j:
            return True
        return fam == "taproot" and not acp
    if field == "spent-script-other":
        # the script another input spends: BIP341's sha_scriptpubkeys, and nothing before it
        return k != j and fam == "taproot" and not acp
    return False


def engine_verdict(tx, spent, flags, check_amounts=False):
    t = build.tx(tx, check_validity=False)
    prevouts = [build.tx_out(s, check_validity=False) for s in spent]
    try:
        verify_transaction(prevouts, t, flags, check_amounts=check_amounts)
        return "accept"
    except BTClibValueError as e:
        return f"reject: {e}"


def inputs_verdict(tx, spent, flags, which):
    t = build.tx(tx, check_validity=False)
    prevouts = [build.tx_out(s, check_validity=False) for s in spent]
    try:
        for j in which:
            verify_input(prevouts, t, j, flags)
        return "accept"
    except BTClibValueError as e:
        return f"reject: {e}"


def check_world(case):
    w = case["world"]
    with backend(case["backend"]):  # updater, signers and finalizer run on the case's back end too
        res = worlds.run_world(w)
    kinds = [i["kind"] for i in w["inputs"]]
    if not res.get("ok"):
        err = str(res.get("error", ""))
        raise Violation(f"world:library-refused:{res.get('stage')}:{err.split(':')[0]}:{'+'.join(sorted(set(kinds)))[:60]}", f"{err[:400]}")
    tx = tx_ref.parse(bytes.fromhex(res["tx_hex"]))
    spent = res["prevouts"]
    # closure: engine (both flag sets, this backend and the other) and the Core model
    with backend(case["backend"]):
        for flags in (STANDARD, None):
            v = engine_verdict(tx, spent, flags, check_amounts=True)  # a world pays out no more than it spends (P11)
            if v != "accept":
                raise Violation(f"world:engine-rejects-own-transaction:{'standard' if flags else 'consensus'}:{'+'.join(sorted(set(kinds)))[:60]}:bindings={case['backend']}", v[:300])
    for j in range(len(tx["vin"])):
        code = cs.verify_input(tx, j, spent, set(gs.STANDARD))
        if code != "OK":
            raise Violation(f"world:core-model-rejects:{kinds[j]}:{code}", f"input {j}")
    # the transaction is the one described
    if len(tx["vin"]) != len(w["inputs"]) or len(tx["vout"]) != len(w["outputs"]) or tx["lock_time"] != w["lock_time"] or tx["version"] != w["tx_version"]:
        raise Violation("world:extracted-transaction-differs-from-request", "")
    # tamper
    t = case["tamper"]
    tags = [f"inputs={len(kinds)}", f"psbt_v{w['psbt_version']}", "combine" if w.get("combine") else "sequential"] + sorted(set(kinds))
    if t != "none":
        tx2 = json.loads(json.dumps(tx))
        sp2 = json.loads(json.dumps(spent))
        n_in, n_out = len(tx["vin"]), len(tx["vout"])
        k = case["target"]
        if t == "output-amount":
            k %= n_out
            tx2["vout"][k]["value"] += 1
        elif t == "output-script":
            k %= n_out
            tx2["vout"][k]["spk"] = tx2["vout"][k]["spk"][:-2] + f"{int(tx2['vout'][k]['spk'][-2:] or '0', 16) ^ 1:02x}" if tx2["vout"][k]["spk"] else "51"
        elif t == "lock_time":
            tx2["lock_time"] = tx2["lock_time"] ^ 1
        elif t == "version":
            tx2["version"] = tx2["version"] + 1
        elif t == "sequence":
            k %= n_in
            tx2["vin"][k]["sequence"] ^= 2
        elif t == "outpoint-index":
            k %= n_in
            tx2["vin"][k]["vout"] ^= 1
        elif t == "spent-amount":
            k %= n_in
            sp2[k]["value"] += 1
        elif t == "spent-script-other":
            # the last byte of a script some OTHER input spends (an input's own spent script is what it runs: not a commitment question)
            k %= n_in
            if n_in < 2:
                return Outcome(True, tuple(tags))
            sp2[k]["spk"] = sp2[k]["spk"][:-2] + f"{int(sp2[k]['spk'][-2:], 16) ^ 1:02x}"
        elif t == "drop-output":
            k %= n_out
            if n_out < 2:
                return Outcome(True, tuple(tags))
            del tx2["vout"][k]
        elif t == "add-output":
            tx2["vout"].append({"value": 1, "spk": "51"})
        elif t == "swap-outputs":
            if n_out < 2 or tx2["vout"][0] == tx2["vout"][1]:
                return Outcome(True, tuple(tags))
            tx2["vout"][0], tx2["vout"][1] = tx2["vout"][1], tx2["vout"][0]
            k = 0
        committed = False
        for j, inp in enumerate(w["inputs"]):
            if t == "swap-outputs":
                committed |= _commits(inp, j, n_out, "swap-outputs", 0) or (_commits(inp, j, n_out, "output-script", 0) or _commits(inp, j, n_out, "output-script", 1))
            elif t == "drop-output" and ((inp.get("sighash") or 1) & 3) == 3:
                # a SINGLE input commits to the output at its own position and to nothing else of the outputs: dropping output k shifts the
                # later ones, so what it committed to is changed exactly when the output now at position j is another one (two equal outputs
                # in a row are not) or is gone; an input that had no output of its own (j >= n_out) committed to none before or after
                committed |= j < n_out and (j >= len(tx2["vout"]) or tx2["vout"][j] != tx["vout"][j])
            elif t == "drop-output":
                committed |= _commits(inp, j, n_out, "drop-output", k)
            else:
                committed |= _commits(inp, j, n_out, t, k)
        # (the input whose own spent script was edited runs another script: the question is put to the other inputs, one by one)
        judged = [j for j in range(n_in) if not (t == "spent-script-other" and j == k)]
        with backend(case["backend"]):
            v = engine_verdict(tx2, sp2, STANDARD) if len(judged) == n_in else inputs_verdict(tx2, sp2, STANDARD, judged)
        model_ok = all(cs.verify_input(tx2, j, sp2, set(gs.STANDARD)) == "OK" for j in judged)
        if committed and v == "accept":
            raise Violation(f"tamper:committed-field-accepted:{t}:{'+'.join(sorted({family(x) for x in kinds}))}", f"tx={json.dumps(tx2)[:600]}")
        if (v == "accept") != model_ok:
            # on an edit no signature commits to, the property asks nothing; that the engine and the Core model part ways there is C08's and C09's business: counted
            tags.append(f"engine-and-core-model-part-ways-on-an-uncommitted-edit:{t}")
        tags.append(f"tamper={t}:{'committed' if committed else 'uncommitted'}:{'rejected' if v != 'accept' else 'accepted'}")
    nontrivial = len(set(kinds)) >= 2 or any(i.get("sighash") not in (None, 0, 1) for i in w["inputs"]) or any(k_ in ("tr_script_pk", "tr_multi_a", "tr_miniscript", "wsh_miniscript") for k_ in kinds)
    return Outcome(nontrivial, tuple(tags))


# ---------------------------------------------------------------- message signatures
@st.composite
def message_case(draw):
    return {"q": draw(st.integers(1, fastec.N - 1)), "other": draw(st.integers(1, fastec.N - 1)), "msg": draw(st.one_of(st.binary(max_size=60), st.text(max_size=20).map(lambda s: s.encode()))).hex(),
            "addr": draw(st.sampled_from(["p2pkh", "p2wpkh", "p2wpkh_p2sh", "p2tr"])), "scheme": draw(st.sampled_from(["bip322", "bip322", "bms"])), "compressed": draw(st.booleans()), "backend": draw(st.booleans()),
            "net": draw(st.sampled_from(["mainnet", "testnet"]))}  # a WIF cannot say regtest: its prefix is testnet's


def _addr(q, kind, net, compressed):
    if kind == "p2pkh":
        return b58.p2pkh(q, net, compressed)
    if kind == "p2wpkh":
        return b32.p2wpkh(q, net)
    if kind == "p2wpkh_p2sh":
        return b58.p2wpkh_p2sh(q, net)
    from btclib.script.taproot import output_pubkey
    return b32.p2tr(output_pubkey(q)[0], net)


def check_message(case):
    q, other = case["q"], case["other"]
    if other == q:
        other = q % (fastec.N - 1) + 1
    msg = bytes.fromhex(case["msg"])
    kind, net = case["addr"], case["net"]
    compressed = case["compressed"] if kind == "p2pkh" else True
    with backend(case["backend"]):
        addr = _addr(q, kind, net, compressed)
        addr_other = _addr(other, kind, net, compressed)
        if case["scheme"] == "bms":
            if kind == "p2tr":
                return Outcome(False, ("bms-has-no-p2tr",))
            from btclib.b58 import wif_from_prv_key
            wif = wif_from_prv_key(q, net, compressed)
            sig = bms.sign(msg, wif, addr)
            ok = bms.verify(msg, addr, sig)
            wrong_key = bms.verify(msg, addr_other, sig)
            wrong_msg = bms.verify(msg + b"!", addr, sig)
            via_b64 = bms.verify(msg, addr, sig.b64encode())
        else:
            from btclib.b58 import wif_from_prv_key
            sig = bip322.sign(msg, wif_from_prv_key(q, net, compressed), addr)
            ok = bip322.verify(msg, addr, sig)
            wrong_key = bip322.verify(msg, addr_other, sig)
            wrong_msg = bip322.verify(msg + b"!", addr, sig)
            via_b64 = bip322.verify(msg, addr, sig.b64encode())
    if ok is not True or via_b64 is not True:
        raise Violation(f"messages:{case['scheme']}:own-signature-does-not-verify:{kind}:bindings={case['backend']}", addr)
    if wrong_key is not False and addr_other != addr:  # q and n - q share an x-only key, hence a taproot address: not another key
        raise Violation(f"messages:{case['scheme']}:verifies-for-another-key:{kind}", addr_other)
    if wrong_msg is not False:
        raise Violation(f"messages:{case['scheme']}:verifies-for-another-message:{kind}", "")
    return Outcome(True, (case["scheme"], kind, net))


SUBCHECKS = [
    SubCheck("worlds", check_world, "non-trivial: >=2 input kinds, or a non-default hash type, or a script-path/miniscript spend", lambda: world_case(), quick=2400, thorough=24000, max_buckets=6),
    SubCheck("worlds_each_kind", check_world, "single-input worlds, kinds cycled so that each is reached", lambda: world_case(max_inputs=1), quick=1300, thorough=12000, max_buckets=6),
    SubCheck("messages", check_message, "BIP322 and Bitcoin message signatures per address type verify for their address and for no other key or message", message_case, quick=1500, thorough=12000),
]
