"""C14 — descriptors and wallets derive what they describe and recognise only their own."""

from __future__ import annotations

import hashlib
import json
import os

from hypothesis import strategies as st

from btclib import bip44, core_import
from btclib.bip32 import BIP32KeyOrigin
from btclib.curves.curve import is_libsecp256k1_serving, set_libsecp256k1_serving
from btclib.descriptors import add_checksum, checksum, multipath_descriptors, parse, strip_checksum
from btclib.descriptors.descriptors import account_descriptors, at_index, from_address, normalized
from btclib.exceptions import BTClibValueError, NoDescriptorError
from btclib.script.script import push_int as lib_push_int
from btclib.script.script_pub_key import ScriptPubKey
from btclib.wallet import BIP32KeyWallet, DescriptorWallet, KeyGroup, KeyWallet, ScriptWallet
from vlib.gens import descriptors as g
from vlib.models import descriptor_ref as m
from vlib.runner import VERIF, HarnessError, Outcome, SubCheck, Violation

PROPERTY = "C14"
LEVEL = "exploration"
RULE = (
    "Descriptor text is generated from a grammar over generated key trees (pk, pkh, wpkh, combo, sh, wsh, sh(wsh), multi, sortedmulti, tr with trees, "
    "multi_a, sortedmulti_a, rawtr, addr, raw, musig on both sides of the aggregation, two fixed miniscript bodies; keys as hex/x-only/WIF/xpub/xprv with "
    "origins, h and ' spellings, /* and /*h, <a;b> multipath; indexes 0, 1, 2^31-1 forced and uniform; 5 networks; both backends).  Oracle = "
    "vlib/models/descriptor_ref.py: BIP32 + hand assembly of every script, BIP380 reference checksum, Core's ToString normalisation; the generator builds the "
    "model's tree directly and the text from it, so text->library and tree->model are two routes.  Wallets (key, BIP32, descriptor, script template) are "
    "compared with BIP44 derivation and hand-assembled templates, and asked for the position of their own and of foreign scripts.  "
    "Non-trivial: ranged at index >= 2, nested function, tree, or a wallet position other than 0/0."
)
ASSUMPTIONS = [
    "descriptor_ref transcribes BIP380's reference checksum, BIP32, BIP381-387/389/390 and Core's rawtr(); validated at start on BIP380 checksum vectors, BIP32 vectors, "
    "Bitcoin Core's descriptor_tests vectors (private and public spellings, scripts at consecutive indexes), BIP387 and BIP390 vectors, Core's multipath vector, Core's unparsable list",
    "bip327_ref KeySort/KeyAgg (validated on BIP327 vectors by C16 and through BIP390's vectors here), bip341_ref tree hashing, fastec tweak, base58_ref, segwit_addr_ref are validated models",
    "network prefix tables (btclib/_data/*.json) and bip44_purposes.json are data, not code under test",
    "multi() of 17..20 keys is a documented refusal of this library (op codes only), so n <= 16 where success is expected; sh(multi) is kept to 15 keys (520-byte P2SH limit)",
    "miniscript inside wsh()/tr() belongs to C15: two fixed bodies are hand-assembled here (and_v(v:pk,older), or_d(pk,and_v(v:pkh,older)))",
    "a 'foreign' script is built from fresh key trees: two descriptors over the same keys may legitimately derive the same script",
]
H = m.HARD
VEC = os.path.join(VERIF, "vectors", "descriptors")


def validate_models() -> None:
    def load(name):
        with open(os.path.join(VEC, name)) as f:
            return json.load(f)

    bad = m.validate(load)
    if bad:
        raise HarnessError("descriptor_ref fails its vectors: " + "; ".join(bad[:6]))
    # BIP389 is textual: Core's multipath vector is the descriptor with each step replaced by its j-th element
    mp = load("multipath_vector.json")
    if [mp["descriptor"].replace("<1;3>", e) for e in ("1", "3")] != mp["expansions"]:
        raise HarnessError("multipath vector")
    # the KeyAgg the musig() model rests on
    from vlib.models import bip327_ref

    v = load("bip327_key_agg_vectors.json")
    pks = [bytes.fromhex(x) for x in v["pubkeys"]]
    for c in v["valid_test_cases"]:
        if bip327_ref.xbytes(bip327_ref.key_agg([pks[j] for j in c["key_indices"]])[0]).hex().upper() != c["expected"].upper():
            raise HarnessError("bip327_ref key_agg vector")


class backend:
    def __init__(self, serving):
        self.serving = bool(serving)

    def __enter__(self):
        self.prev = is_libsecp256k1_serving()
        set_libsecp256k1_serving(serving=self.serving)

    def __exit__(self, *a):
        set_libsecp256k1_serving(serving=self.prev)


def refused(fn, *a, **k) -> bool:
    """True if the library refuses with its documented class."""
    try:
        fn(*a, **k)
    except BTClibValueError:
        return True
    return False


def built(recipe, net, variant=0):
    """(text, tree) of a recipe; the model's own parser must read the text back into the same tree (harness self-check)."""
    text, tree = g.build(recipe, net, variant)
    if tree is not None:
        try:
            back = m.parse(text)
        except m.DescError as e:
            raise HarnessError(f"model refuses generated text {text}: {e}") from e
        if back != g.strip_ms(tree):
            raise HarnessError(f"model parser disagrees with the generator on {text}")
    return text, tree


def family(tree) -> str:
    """The innermost function: the label violations and tags are bucketed by."""
    f = tree["f"]
    if f in ("sh", "wsh"):
        return family(tree["arg"])
    if f == "tr":
        return "tr" if tree["tree"] is None else "tr-tree"
    return f


def shape(tree) -> str:
    f = tree["f"]
    if f in ("sh", "wsh"):
        return f"{f}({shape(tree['arg'])})"
    if f == "tr" and tree["tree"] is not None:
        leaves = sorted({leaf["f"] for leaf in m.tree_leaves(tree["tree"])})
        return "tr{" + ",".join(leaves) + "}" + ("/deep" if len(m.tree_leaves(tree["tree"])) >= 8 else "")
    return f


def key_tags(tree) -> set:
    tags = set()

    def one(k):
        if k["t"] == "musig":
            tags.add("key:musig" + ("/derived" if k["path"] or k["wild"] else ""))
            for p in k["parts"]:
                one(p)
            return
        kind = k["kind"]
        if kind == "hex":
            kind = {64: "x-only", 66: "hex", 130: "hex-uncompressed"}[len(k["text"])]
        tags.add("key:" + kind)
        if k["wild"] == "h":
            tags.add("key:hardened-wildcard")
        if any(i >= H for i in k["path"]):
            tags.add("key:hardened-step")
        if k["origin"]:
            tags.add("key:origin")

    for k in m.node_keys(tree):
        one(k)
    return tags


def idx_tag(i: int) -> str:
    return "idx:" + ("0" if i == 0 else "1" if i == 1 else "2^31-1" if i == H - 1 else "2..40" if i <= 40 else "large")


def nontrivial(tree, idxs) -> bool:
    return tree["f"] in ("sh", "wsh") or (tree["f"] == "tr" and tree["tree"] is not None) or (m.is_ranged(tree) and max(idxs) >= 2)


def expected_prv_keys(tree) -> dict:
    return m.private_keys(tree)


def model_scripts(tree, i, net, use_private=True):
    """-> list of scripts, or the string 'need-private'."""
    try:
        return m.scripts(tree, i, net, use_private)
    except m.NeedPrivate:
        return "need-private"


# ================================================================ 1. derivation
@st.composite
def derivation_case(draw):
    return {
        "net": draw(st.sampled_from(m.NETWORK_NAMES)),
        "desc": draw(g.descriptor()),
        "i": draw(g.index_st()),
        "j": draw(g.index_st()),
        "cs": draw(st.booleans()),
        "bindings": draw(st.sampled_from([True, True, True, False])),
        "othernet": draw(st.integers(0, 15)) == 0,
    }


def check_derivation(case):
    net = case["net"]
    text, tree = built(case["desc"], net)
    fam = family(tree)
    tags = {shape(tree), "net:" + net, "bindings" if case["bindings"] else "python-arm"} | key_tags(tree)
    ranged = m.is_ranged(tree)
    idxs = sorted({case["i"], case["j"]}) if ranged else [0]
    with backend(case["bindings"]):
        prv = {}
        d = parse(add_checksum(text) if case["cs"] else text, net, prv)
        if d.is_ranged != ranged:
            raise Violation("derivation:is_ranged", f"{text}: lib {d.is_ranged} model {ranged}")
        want_prv = expected_prv_keys(tree)
        if prv != want_prv:
            raise Violation("parse:prv_keys-mapping", f"{text}: {sorted(prv)} != {sorted(want_prv)}")
        if tree["f"] == "addr":
            nets = m.script_of_address(tree["addr"])[1]
            if d.network not in nets:
                raise Violation("derivation:addr-network", f"{text}: {d.network} not in {nets}")
            net_of_scripts = d.network
        else:
            net_of_scripts = net
        if not ranged:
            if not refused(d.script_pub_keys, 1, prv):
                raise Violation("derivation:index-accepted-unranged", text)
        for bad_index in (-1, H):
            if not refused(d.script_pub_keys, bad_index, prv):
                raise Violation("derivation:index-out-of-range-accepted", f"{text} @ {bad_index}")
        orders = {}
        for i in idxs:
            tags.add(idx_tag(i))
            want = model_scripts(tree, i, net)
            if want == "need-private":
                tags.add("need-private:xpub-hardened")
                if not refused(d.script_pub_keys, i, prv) or not refused(d.script_pub_keys, i):
                    raise Violation("derivation:hardened-from-xpub-derived", f"{text} @ {i}")
                continue
            _key_checks(d, tree, text, i, net, prv, want_prv)
            got = [s.script for s in d.script_pub_keys(i, prv)]
            if (sorted(got) != sorted(want)) if tree["f"] == "combo" else (got != want):
                raise Violation(
                    f"derivation:script-differs:{fam}",
                    f"{text} net={net} index={i}\n lib   {[s.hex() for s in got]}\n model {[s.hex() for s in want]}",
                )
            _tree_checks(d, tree, text, i, net, prv, want_prv, tags)
            addrs = d.addresses(i, prv)
            for script, addr in zip(want, addrs, strict=True):
                model_addr = m.address_of(script, net_of_scripts)
                if model_addr is not None and addr != model_addr:
                    raise Violation(f"derivation:address-differs:{fam}", f"{text} net={net} index={i}: {addr!r} != {model_addr!r}")
            if len(want) == 1:
                if d.script_pub_key(i, prv).script != want[0] or d.address(i, prv) != addrs[0]:
                    raise Violation("derivation:single-script-accessors", f"{text} @ {i}")
            else:
                tags.add("combo:%d-scripts" % len(want))
                if not refused(d.script_pub_key, i, prv):
                    raise Violation("derivation:combo-single-script", text)
            # what a holder of the public descriptor can derive: the same, or a refusal where a hardened step needs the key
            public = model_scripts(tree, i, net, use_private=False)
            if public == "need-private":
                tags.add("need-private:xprv-hardened")
                if not refused(d.script_pub_keys, i):
                    raise Violation("derivation:hardened-without-prv_keys", f"{text} @ {i}")
            elif [s.script for s in d.script_pub_keys(i)] != want:
                raise Violation("derivation:public-derivation-differs", f"{text} @ {i}")
            for node in _sorted_nodes(tree):
                secs = [m.key_sec(k, i, net, want_prv) for k in node["keys"]]
                keyed = [s[1:] for s in secs] if node["f"] == "sortedmulti_a" else secs
                order = sorted(range(len(secs)), key=lambda n: keyed[n])
                orders.setdefault(i, []).append(order)
                tags.add("sorted:" + ("permutes" if order != list(range(len(secs))) else "already-in-order"))
        if len(orders) == 2 and len({json.dumps(v) for v in orders.values()}) == 2:
            tags.add("sorted:order-flips-between-indexes")
    if case["othernet"]:
        _other_network(case, text, tree, tags)
    return Outcome(nontrivial(tree, idxs), tuple(sorted(tags)))


def _flat_keys(tree) -> list:
    """KEY nodes in the order Descriptor.key_expressions documents: the internal key, then the leaves left to right."""
    return m.node_keys(tree)


def _key_checks(d, tree, text, i, net, prv, held):
    """KeyExpression.sec / aggregate / participant_keys, key by key against the model: a wrong key is named before a wrong script."""
    keys = _flat_keys(tree)
    exprs = d.key_expressions
    if len(exprs) != len(keys):
        raise Violation("derivation:key_expressions-count", f"{text}: {len(exprs)} != {len(keys)}")
    for expr, key in zip(exprs, keys, strict=True):
        want_sec = m.key_sec(key, i, net, held)
        got_sec = expr.sec(i, net, prv)
        if expr.x_only and key.get("kind") == "wif" and len(want_sec) == 33:
            # a fixed key written where only an x-only key is written is held as its even-y lift (F23): the x is what the position means
            want_sec, got_sec = want_sec[1:], got_sec[1:]
        if got_sec != want_sec:
            cls = "musig" if key["t"] == "musig" else "extended" if key["kind"] in ("xpub", "xprv") else "fixed"
            raise Violation(f"derivation:key-differs:{cls}", f"{text} @ {i}: key {m.key_public_string(key, False)}: {expr.sec(i, net, prv).hex()} != {want_sec.hex()}")
        if key["t"] == "musig":
            if expr.participant_keys(i, net, prv) != m.musig_participants(key, i, net, held) or expr.aggregate(i, net, prv) != m.musig_aggregate(key, i, net, held):
                raise Violation("derivation:musig-aggregate-or-participants", f"{text} @ {i}")


def _tree_checks(d, tree, text, i, net, prv, held, tags):
    """The taproot tree: merkle root, every control block, the depth of every leaf."""
    if tree["f"] == "tr" and tree["tree"] is not None:
        root = m.taproot_merkle_root(tree, i, net, held)
        if d.taproot_merkle_root(i, prv) != root:
            raise Violation("derivation:taproot-merkle-root", f"{text} @ {i}")
        leaves = m.tree_leaves(tree["tree"])
        want_leaf_scripts = [m.leaf_script(leaf, i, net, held) for leaf in leaves]
        # BIP341: control block = leaf version | parity of the output key, the internal key, the merkle path of the leaf
        from vlib.models import bip341_ref, fastec

        info, _root = bip341_ref.tree_helper(m._tap_tree(tree["tree"], i, net, held))
        internal = m.key_sec(tree["key"], i, net, held)[1:]
        parity = fastec.tap_tweak_pubkey(internal, root)[1]
        want_controls = {bytes([0xC0 | parity]) + internal + path: (script, 0xC0) for (_v, script), path in info}
        got = d.taproot_leaf_scripts(i, prv)
        if got != want_controls:
            raise Violation("derivation:taproot-leaf-scripts", f"{text} @ {i}")
        if [(depth, script) for depth, _v, script in d.taproot_tree(i, prv)] != _depths(tree["tree"], 0, want_leaf_scripts[:]):
            raise Violation("derivation:taproot-tree-depths", f"{text} @ {i}")
        # and one control block proves its leaf against the output key (BIP341 script path validation)
        control, (script, _version) = sorted(got.items())[i % len(got)]
        if not _control_block_proves(m.scripts(tree, i, net, held)[0][2:], script, control):
            raise Violation("derivation:taproot-control-block", f"{text} @ {i}: {control.hex()}")
        tags.add("control-blocks")


def _control_block_proves(q: bytes, script: bytes, control: bytes) -> bool:
    """BIP341 script path validation, steps 2-8 on the control block (bip341_ref.verify_control with fastec's tweak check)."""
    from vlib.models import bip341_ref, fastec

    if len(control) < 33 or (len(control) - 33) % 32 or len(control) > 33 + 32 * 128:
        return False
    k = bip341_ref.leaf_hash(control[0] & 0xFE, script)
    for j in range((len(control) - 33) // 32):
        e = control[33 + 32 * j : 65 + 32 * j]
        k = fastec.tagged_hash("TapBranch", k + e) if k < e else fastec.tagged_hash("TapBranch", e + k)
    return fastec.check_tap_tweak(q, control[1:33], k, control[0] & 1)


def _depths(t, depth, scripts):
    if isinstance(t, list):
        return _depths(t[0], depth + 1, scripts) + _depths(t[1], depth + 1, scripts)
    return [(depth, scripts.pop(0))]


def _sorted_nodes(tree):
    if isinstance(tree, list):
        return _sorted_nodes(tree[0]) + _sorted_nodes(tree[1])
    f = tree["f"]
    if f in ("sortedmulti", "sortedmulti_a"):
        return [tree]
    if f in ("sh", "wsh"):
        return _sorted_nodes(tree["arg"])
    if f == "tr" and tree["tree"] is not None:
        return _sorted_nodes(tree["tree"])
    return []


def _has_xkey(tree) -> bool:
    def one(k):
        return any(one(p) for p in k["parts"]) if k["t"] == "musig" else k["kind"] in ("xpub", "xprv")

    return any(one(k) for k in m.node_keys(tree))


def _other_network(case, text, tree, tags):
    """The network is a parameter: an extended key of the other network type is refused, anything else derives the same script."""
    net = case["net"]
    other = "mainnet" if m.network(net)["type"] != "main" else "regtest"
    tags.add("other-network")
    prv = {}
    try:
        d = parse(text, other, prv)
        got = [s.script for s in d.script_pub_keys(0, prv)]
    except BTClibValueError:
        got = None
    want = model_scripts(tree, 0, net)
    if _has_xkey(tree):
        if got is not None and want != "need-private":
            raise Violation("derivation:key-of-another-network-accepted", f"{text} parsed for {other}")
    elif got is not None and got != want:
        # fixed keys carry no network of their own except in a WIF; refusing a WIF of the other chain (Core does) is as good as reading it
        raise Violation("derivation:network-changes-script", f"{text} parsed for {other}")


# ================================================================ 2. text
@st.composite
def text_case(draw):
    mp = draw(st.sampled_from([0, 0, 0, 2, 2, 3]))
    return {
        "net": draw(st.sampled_from(m.NETWORK_NAMES)),
        "desc": draw(g.descriptor(mp=mp)),
        "i": draw(g.index_st()),
        "subst": draw(st.lists(st.tuples(st.integers(0, 10_000), st.integers(0, len(m.INPUT_CHARSET) + 2)), min_size=1, max_size=4)),
    }


EXTRA_CHARS = ["é", "\t", "\x7f"]


def _mutate(s: str, subst) -> str:
    chars = list(s)
    for pos, c in subst:
        chars[pos % len(chars)] = (m.INPUT_CHARSET + "".join(EXTRA_CHARS))[c]
    return "".join(chars)


def check_text(case):
    net = case["net"]
    mp = g.count_multipath(case["desc"])
    tags = {"net:" + net}
    if mp:
        return _check_multipath(case, mp, tags)
    text, tree = built(case["desc"], net)
    tags |= {shape(tree)} | key_tags(tree)
    full = m.descsum_create(text)
    # checksum functions against BIP380's reference
    if checksum(text) != full[-8:]:
        raise Violation("text:checksum-differs", f"{text}: {checksum(text)} != {full[-8:]}")
    if add_checksum(text) != full or add_checksum(full) != full or strip_checksum(full) != text or strip_checksum(text) != text:
        raise Violation("text:add-strip-checksum", text)
    prv = {}
    d = parse(full, net, prv)
    written = str(d)
    expected = m.public_string(tree)
    if (written.lower() != expected.lower()) if tree["f"] == "addr" else (written != expected):
        raise Violation(f"text:str-differs:{_first_difference(written, expected)}", f"read    {text}\n written {written}\n model   {expected}")
    again = parse(written, net)
    if again != d or parse(add_checksum(written), net) != d:
        cause = "wif-odd-y-in-taproot-position" if _odd_wif_in_taproot_position(tree) else family(tree)
        raise Violation(f"text:round-trip-not-equal:{cause}", f"parse({written!r}) != parse({text!r})")
    if str(again) != written:
        raise Violation("text:writer-not-idempotent", written)
    ranged = m.is_ranged(tree)
    i = case["i"] if ranged else 0
    tags.add(idx_tag(i))
    want = model_scripts(tree, i, net)
    public = model_scripts(tree, i, net, use_private=False)
    if public != "need-private":
        if [s.script for s in again.script_pub_keys(i)] != public:
            raise Violation("text:round-trip-changes-scripts", f"{text} -> {written} @ {i}")
    # at_index: the descriptor of one index
    if want != "need-private":
        fixed = at_index(d, i)
        if fixed.is_ranged or [s.script for s in fixed.script_pub_keys(0, prv)] != want:
            raise Violation("text:at_index", f"{text} @ {i}: {fixed}")
        if parse(str(fixed), net) != fixed:
            raise Violation("text:at_index-round-trip", f"{text} @ {i}: {fixed}")
        tags.add("at_index")
    # normalized: every key derives from an xpub, unless the wildcard itself is hardened
    if want != "need-private":
        try:
            norm = normalized(d, prv)
        except BTClibValueError:
            norm = None
        if norm is None:
            raise Violation("text:normalized-refused", text)
        if "'" in str(norm):
            raise Violation("text:normalized-keeps-apostrophe", str(norm))
        try:
            got = [s.script for s in norm.script_pub_keys(i)]
        except BTClibValueError:
            got = None
        if got is None:
            if "key:hardened-wildcard" not in key_tags(tree):
                raise Violation("text:normalized-still-needs-private", f"{text} -> {norm}")
            got = [s.script for s in norm.script_pub_keys(i, prv)]
        if got != want:
            raise Violation("text:normalized-changes-scripts", f"{text} -> {norm} @ {i}")
        tags.add("normalized" + (":re-rooted" if str(norm) != str(replace_apostrophe(written)) else ""))
    # Core import request carries the checksummed public text
    req = core_import.import_request(d, active=ranged, key_range=(0, 999) if ranged else None)
    if (req["desc"] != m.descsum_create(written) if tree["f"] == "addr" else req["desc"] != m.descsum_create(expected)) or ("range" in req) != ranged:
        raise Violation("text:import-request", f"{text}: {req}")
    if tree["f"] == "addr":
        fa = from_address(tree["addr"])
        if not m.descsum_check(fa) or [x.script for x in parse(fa, net).script_pub_keys(0)] != model_scripts(tree, 0, net):
            raise Violation("text:from_address", text)
    # 1..4 substituted characters: refused whenever BIP380's reference refuses
    mutated = _mutate(full, case["subst"])
    if mutated != full:
        tags.add(f"subst:{len(case['subst'])}")
        if not m.text_is_acceptable(mutated):
            if not refused(parse, mutated, net):
                raise Violation("text:corrupted-accepted", f"{full}\n-> {mutated}")
        else:
            tags.add("subst:checksum-collision")
    return Outcome(nontrivial(tree, [i]), tuple(sorted(tags)))


def _first_difference(a: str, b: str) -> str:
    """Where two descriptor texts first differ: inside a key expression (origin / key / path) or in the functions around the keys."""
    import re

    ta, tb = re.split(r"([(){},])", a), re.split(r"([(){},])", b)
    for x, y in zip(ta, tb):
        if x != y:
            if len(x) < 20 and len(y) < 20:
                return "function-or-argument"
            ox, oy = x.rpartition("]"), y.rpartition("]")
            if ox[0] != oy[0]:
                return "key-origin"
            kx, ky = ox[2].partition("/"), oy[2].partition("/")
            return "key" if kx[0] != ky[0] else "key-path"
    return "length"


def _odd_wif_in_taproot_position(tree) -> bool:
    """A WIF whose public key has an odd y, written where a taproot key goes (not as a musig participant)."""
    if tree["f"] == "rawtr":
        keys = [tree["key"]]
    elif tree["f"] == "tr":
        keys = [tree["key"]]
        for leaf in m.tree_leaves(tree["tree"]) if tree["tree"] is not None else []:
            keys += [leaf["key"]] if leaf["f"] == "pk" else leaf.get("keys", [])
    else:
        return False
    return any(k["t"] == "k" and k["kind"] == "wif" and m.key_sec(k, 0, "mainnet")[0] == 3 for k in keys)


def replace_apostrophe(s: str) -> str:
    return s.replace("'", "h")


def _check_multipath(case, mp, tags):
    net = case["net"]
    mtext, _ = g.build(case["desc"], net, None)
    tags.add(f"multipath:{mp}")
    variants = [built(case["desc"], net, j) for j in range(mp)]
    want = [m.descsum_create(t) for t, _ in variants]
    got = multipath_descriptors(m.descsum_create(mtext) if case["i"] % 2 else mtext)
    if got != want:
        raise Violation("text:multipath-expansion", f"{mtext}\n lib   {got}\n model {want}")
    if not refused(parse, mtext, net):
        raise Violation("text:multipath-parsed-unexpanded", mtext)
    idxs = []
    for j, (text, tree) in enumerate(variants):
        tags |= {shape(tree)}
        i = case["i"] if m.is_ranged(tree) else 0
        idxs.append(i)
        scripts = model_scripts(tree, i, net)
        prv = {}
        d = parse(got[j], net, prv)
        if scripts == "need-private":
            if not refused(d.script_pub_keys, i, prv):
                raise Violation("derivation:hardened-from-xpub-derived", f"{text} @ {i}")
            continue
        if [s.script for s in d.script_pub_keys(i, prv)] != scripts:
            raise Violation("text:multipath-scripts", f"{mtext} element {j} @ {i}")
    # the checksum of a multipath text is verified too -- parse refuses such a text outright, so multipath_descriptors and
    # DescriptorWallet.from_descriptor are the only readers a corrupted one could get past
    from btclib.wallet.descriptor_wallet import DescriptorWallet

    summed = m.descsum_create(mtext)
    body, _, chk = summed.partition("#")
    seedn = case["i"] + 7 * len(mtext)
    charset = m.INPUT_CHARSET if hasattr(m, "INPUT_CHARSET") else "0123456789()[],'/*abcdefgh@:$%{}IJKLMNOPQRSTUVWXYZ&+-.;<=>?!^_|~ijklmnopqrstuvwxyzABCDEFGH`#\"\\ "
    chk_alphabet = "qpzry9x8gf2tvdw0s3jn54khce6mua7l"
    corrupted = []
    pos = seedn % len(chk)
    corrupted.append(("checksum-char", body + "#" + chk[:pos] + chk_alphabet[(chk_alphabet.index(chk[pos]) + 1 + seedn % 31) % 32] + chk[pos + 1 :]))
    corrupted.append(("doubled-checksum", summed + "#" + chk))
    corrupted.append(("truncated-checksum", summed[:-1]))
    digits = [k for k, ch in enumerate(body) if ch.isdigit() and (k == 0 or body[k - 1] in "<;/") and (k + 1 == len(body) or body[k + 1] in ">;/")]
    if digits:
        k = digits[seedn % len(digits)]
        corrupted.append(("path-digit", body[:k] + str((int(body[k]) + 1 + seedn % 8) % 10) + body[k + 1 :] + "#" + chk))
    for kind, text in corrupted:
        if m.descsum_check(text) if hasattr(m, "descsum_check") else False:
            continue  # the substitution happens to be another valid string: nothing to ask
        for reader, name in ((multipath_descriptors, "multipath_descriptors"), (lambda t: DescriptorWallet.from_descriptor(t, net), "DescriptorWallet.from_descriptor")):
            if not refused(reader, text):
                raise Violation(f"text:corrupted-multipath-accepted:{kind}", f"{name} reads {text!r} (from {summed!r})")
        tags.add(f"multipath-corruption:{kind}")
    # a step with one element, and steps of different lengths, are refused
    one = mtext.replace(";", "x", 1) if mp == 2 else None
    if one is not None and "<" in one and not refused(multipath_descriptors, one):
        raise Violation("text:multipath-malformed-accepted", one)
    return Outcome(True, tuple(sorted(tags)))


# ================================================================ 3. every single-character corruption
CORRUPTION_RECIPES = [
    {"f": "pk", "key": {"k": "hex", "s": 1, "op": [], "o": 0}},
    {"f": "pkh", "key": {"k": "xpub", "s": 2, "op": [H + 44, H, H], "o": 1, "p": [0], "w": "u", "y": 1}},
    {"f": "wpkh", "key": {"k": "xprv", "s": 3, "op": [H + 84, H + 1, H + 2], "o": 1, "p": [1], "w": "h", "y": 0}},
    {"f": "sh", "arg": {"f": "wpkh", "key": {"k": "wif", "s": 4, "op": [1, 2], "o": 2}}},
    {"f": "combo", "key": {"k": "hexu", "s": 5, "op": [], "o": 0}},
    {"f": "wsh", "arg": {"f": "sortedmulti", "k": 2, "keys": [
        {"k": "xpub", "s": 1, "op": [H + 48, H, H, H + 2], "o": 1, "p": [0], "w": "u", "y": 0},
        {"k": "xpub", "s": 2, "op": [H + 48, H, H, H + 2], "o": 1, "p": [0], "w": "u", "y": 1},
        {"k": "hex", "s": 3, "op": [], "o": 0}]}},
    {"f": "sh", "arg": {"f": "wsh", "arg": {"f": "multi", "k": 1, "keys": [{"k": "hex", "s": 6, "op": [], "o": 0}, {"k": "wif", "s": 7, "op": [], "o": 0}]}}},
    {"f": "tr", "key": {"k": "xonly", "s": 1, "op": [], "o": 0}, "tree": None},
    {"f": "tr", "key": {"k": "xpub", "s": 2, "op": [H + 86, H, H], "o": 1, "p": [0], "w": "u", "y": 0}, "tree": [
        {"f": "pk", "key": {"k": "xonly", "s": 3, "op": [], "o": 0}},
        [{"f": "multi_a", "k": 2, "keys": [{"k": "xpub", "s": 4, "op": [], "o": 0, "p": [5], "w": "u"}, {"k": "hex", "s": 5, "op": [], "o": 2}]},
         {"f": "sortedmulti_a", "k": 1, "keys": [{"k": "xonly", "s": 6, "op": [], "o": 0}, {"k": "xonly", "s": 7, "op": [], "o": 0}]}]]},
    {"f": "rawtr", "key": {"k": "musig", "parts": [{"k": "xpub", "s": 1, "op": [], "o": 0, "p": [], "w": None}, {"k": "xpub", "s": 2, "op": [], "o": 0, "p": [], "w": None}], "p": [0], "w": "u"}},
    {"f": "tr", "key": {"k": "musig", "parts": [{"k": "hex", "s": 1, "op": [], "o": 0}, {"k": "hex", "s": 2, "op": [], "o": 0}, {"k": "hex", "s": 3, "op": [], "o": 0}], "p": [], "w": None}, "tree": None},
    {"f": "addr", "kind": "p2wpkh", "s": 1, "net": "mainnet"},
    {"f": "addr", "kind": "p2sh", "s": 2, "net": "testnet"},
    {"f": "addr", "kind": "p2tr", "s": 3, "net": "regtest"},
    {"f": "raw", "hex": "6a0b68656c6c6f20776f726c64"},
    {"f": "wsh", "arg": {"f": "ms", "tpl": "and_v(v:pk,older)", "keys": [{"k": "xpub", "s": 1, "op": [H + 48, H, H, H + 2], "o": 1, "p": [0], "w": "u", "y": 0}], "n": 144}},
]


def corruption_units(tier):
    return [[i] for i in range(24 if tier == "quick" else 96)]


def corruption_run_unit(unit, col):
    """every position x every character of the input charset (and 3 outside it) of one checksummed descriptor; then a sample of double substitutions"""
    (u,) = unit
    recipe = CORRUPTION_RECIPES[u % len(CORRUPTION_RECIPES)]
    shift = u // len(CORRUPTION_RECIPES)
    if shift:
        recipe = g.map_keys(recipe, lambda k: {**k, "s": k["s"] + 10 * shift})
    net = m.NETWORK_NAMES[u % 5] if recipe["f"] != "addr" else recipe["net"]
    text, tree = built(recipe, net)
    full = m.descsum_create(text)
    parse(full, net)  # the unmodified string is accepted
    alphabet = list(m.INPUT_CHARSET) + EXTRA_CHARS
    evals = 0
    for pos in range(len(full)):
        for ch in alphabet:
            if ch == full[pos]:
                continue
            mutated = full[:pos] + ch + full[pos + 1 :]
            evals += 1
            try:
                m.parse(mutated)
            except m.DescError:
                pass
            else:
                raise HarnessError(f"the reference accepts a single substitution: {mutated}")
            if not refused(parse, mutated, net):
                col.fail("corruption:single-substitution-accepted", {"unit": unit}, f"{full}\n-> {mutated} (position {pos}, {ch!r})")
                return
    # double substitutions, positions and characters expanded from the unit number
    pairs = 3000
    stream = hashlib.shake_256(b"C14 corruption %d" % u).digest(pairs * 6)
    for n in range(pairs):
        p1 = int.from_bytes(stream[6 * n : 6 * n + 2], "big") % len(full)
        p2 = (p1 + 1 + stream[6 * n + 2] % 12) % len(full) if n % 2 else int.from_bytes(stream[6 * n + 2 : 6 * n + 4], "big") % len(full)
        c1, c2 = alphabet[stream[6 * n + 4] % len(alphabet)], alphabet[stream[6 * n + 5] % len(alphabet)]
        chars = list(full)
        chars[p1], chars[p2] = c1, c2
        mutated = "".join(chars)
        if mutated == full:
            continue
        evals += 1
        try:
            m.parse(mutated)
            continue  # never seen: a two-character change the reference accepts would be no violation
        except m.DescError:
            pass
        if not refused(parse, mutated, net):
            col.fail("corruption:double-substitution-accepted", {"unit": unit}, f"{full}\n-> {mutated}")
            return
    col.bulk(evals, evals, {"descriptor": full, "substitutions": f"every position x {len(alphabet)} characters, then {pairs} double substitutions"},
             {shape(tree): evals})


# ================================================================ 4. is mine (descriptor)
@st.composite
def is_mine_case(draw):
    ranged = draw(st.integers(0, 5)) != 0
    last = draw(st.sampled_from([0, 1, 2, 5, 9, 24]))
    return {
        "net": draw(st.sampled_from(m.NETWORK_NAMES)),
        "desc": draw(g.descriptor(ranged=ranged)),
        "last": last,
        "i": draw(st.one_of(st.integers(0, last + 1), st.sampled_from([last, last + 1]))),
        "which": draw(st.integers(0, 3)),
        "form": draw(st.sampled_from(["ScriptPubKey", "bytes", "hex", "address", "address-other-network", "lib"])),
        "fi": draw(st.integers(0, last)),
    }


def _as_form(script: bytes, form: str, net: str):
    """The output in one of the spellings index_of / position_of document; None if this script has no such spelling."""
    if form == "ScriptPubKey":
        return ScriptPubKey(script, net)
    if form == "bytes":
        return script
    if form == "hex":
        return script.hex() or None
    if form.startswith("address"):
        if form.endswith("other-network"):
            net = "mainnet" if m.network(net)["type"] != "main" else "testnet"
        return m.address_of(script, net) or None
    return script


def check_is_mine(case):
    net = case["net"]
    text, tree = built(case["desc"], net)
    ranged = m.is_ranged(tree)
    last = case["last"]
    i = case["i"] if ranged else 0
    tags = {shape(tree), "ranged" if ranged else "unranged", "form:" + case["form"], idx_tag(i)} | key_tags(tree)
    prv = {}
    d = parse(text, net, prv)
    want = model_scripts(tree, i, net)
    if want == "need-private":
        try:
            found = d.index_of(b"\x51", last, prv)
        except BTClibValueError:
            found = None
        if found is not None:
            raise Violation("is_mine:hardened-from-xpub-searched", text)
        return Outcome(False, tuple(sorted(tags | {"need-private"})))
    script = want[case["which"] % len(want)]
    expected = i if i <= last or not ranged else None
    tags.add("expect:" + ("index" if expected is not None else "beyond-last-index"))
    named = d.script_pub_keys(i, prv)[case["which"] % len(want)] if case["form"] == "lib" else _as_form(script, case["form"], net)
    if named is None:
        named = script
        tags.add("form:fallback-bytes")
    got = d.index_of(named, last, prv)
    if got != expected:
        raise Violation(
            "is_mine:own-script-" + ("not-recognised" if expected is not None else "found-beyond-last-index"),
            f"{text} net={net} index_of(script at {i}, last_index={last}) = {got}, expected {expected}",
        )
    # a script of the same shape over fresh keys, at an index inside the searched range
    ftext, ftree = built(g.foreign(case["desc"]), net)
    fscripts = model_scripts(ftree, case["fi"] if m.is_ranged(ftree) else 0, net)
    if fscripts != "need-private":
        fscript = fscripts[case["which"] % len(fscripts)]
        got = d.index_of(fscript, last, prv)
        if got is not None:
            raise Violation("is_mine:foreign-script-claimed", f"{text} claims {fscript.hex()} of {ftext} at {got}")
        tags.add("foreign:not-mine")
    if not refused(d.index_of, "", last, prv):
        raise Violation("is_mine:empty-string-answered", text)
    return Outcome(nontrivial(tree, [i]), tuple(sorted(tags)))


# ================================================================ 5. wallets
PURPOSES = {int(k): v for k, v in json.load(open(os.path.join(m._DATA, "bip44_purposes.json"))).items()}
STYPES = ["p2pkh", "p2wpkh-p2sh", "p2wpkh", "p2tr"]


def bip44_script(sec: bytes, stype: str) -> bytes:
    """The output a BIP44/49/84/86 wallet pays to for one compressed key."""
    if stype == "p2pkh":
        return m.p2pkh(sec)
    if stype == "p2wpkh":
        return m.p2wpkh(sec)
    if stype == "p2wpkh-p2sh":
        return m.p2sh(m.p2wpkh(sec))
    if stype == "p2tr":
        return m.taproot_output(sec[1:], None)
    raise HarnessError(stype)


@st.composite
def wallets_case(draw):
    kind = draw(st.sampled_from(["key", "bip32", "bip32", "descriptor", "descriptor", "script", "script"]))
    net = draw(st.sampled_from(m.NETWORK_NAMES))
    last = draw(st.sampled_from([0, 1, 3, 8, 20]))
    case = {"kind": kind, "net": net, "last": last, "b": draw(st.integers(0, 1)),
            "i": draw(st.one_of(st.integers(0, last + 1), st.sampled_from([last, last + 1]))),
            "form": draw(st.sampled_from(["ScriptPubKey", "bytes", "hex", "address"]))}
    if kind == "key":
        case["stype"] = draw(st.sampled_from(STYPES))
        case["keys"] = draw(st.lists(st.tuples(st.integers(0, 9), st.sampled_from(["wif", "wifu", "pub", "pubu", "int", "xprv", "xpub"])), min_size=1, max_size=4,
                                     unique_by=lambda t: t[0]))
    elif kind == "bip32":
        case.update({
            "s": draw(st.integers(0, 7)),
            "purpose": draw(st.sampled_from([44, 49, 84, 86, 44, 49, 84, 86, 45, 0, 48])),
            "coin": draw(st.sampled_from(["own", "own", "own", "other", 2])),
            "account": draw(st.one_of(st.integers(0, 3), st.sampled_from([H - 1]))),
            "depth": draw(st.integers(0, 3)),
            "private": draw(st.booleans()),
            "stype": draw(st.sampled_from([None, None, *STYPES])),
            "big": draw(st.sampled_from([None, None, None, 0xFFFF, 0x10000])),
        })
    elif kind == "descriptor":
        mp = draw(st.sampled_from([2, 2, 3]))
        desc = draw(g.descriptor(mp=mp, ranged=draw(st.integers(0, 7)) != 0, shapes=[s for s in g.RANGED_SHAPES if s != "combo"] + ["combo"]))
        case.update({"desc": desc, "mp": mp, "via": draw(st.sampled_from(["from_descriptor", "mapping", "sequence"])),
                     "labels": draw(st.lists(st.integers(0, 9), min_size=3, max_size=3, unique=True)),
                     "elems": draw(st.lists(st.integers(0, 50), min_size=3, max_size=3, unique=True))})
        case["b"] = draw(st.integers(0, mp - 1))
    else:
        ngroups = draw(st.sampled_from([1, 1, 2]))
        groups, used = [], 0
        for _ in range(ngroups):
            n = draw(st.integers(1, 3))
            keys = [{"s": used + k, "acct": draw(st.sampled_from([[H + 48, H, H, H + 2], [H + 45], [H + 1, H + 2], [3, H + 0x7FFFFFFF]])), "private": draw(st.booleans()),
                     "origin": draw(st.booleans())} for k in range(n)]
            used += n
            groups.append({"k": draw(st.integers(1, n)), "keys": keys})
        case.update({"stype": draw(st.sampled_from(["p2sh", "p2wsh", "p2sh-p2wsh"])), "order": draw(st.sampled_from(["none", "account", "derived"])),
                     "tpl": "quorum" if ngroups == 1 else draw(st.sampled_from(["timelock", "verify+quorum"])), "groups": groups,
                     "csv": draw(st.sampled_from([1, 16, 17, 144, 65535])), "big": draw(st.sampled_from([None, None, None, 0xFFFF, 0x10000]))})
    return case


def check_wallets(case):
    return {"key": _wallet_key, "bip32": _wallet_bip32, "descriptor": _wallet_descriptor, "script": _wallet_script}[case["kind"]](case)


def _foreign_script(n: int) -> bytes:
    return m.p2wpkh(g.tree_key(5000 + n, (), "main").sec)


def _position_checks(wallet, kind, case, script_at, branches, tags):
    """position_of is the inverse of script_pub_key inside the searched range, and 'not mine' outside it and for foreign scripts."""
    b, i, last = case["b"], case["i"], case["last"]
    net = wallet.network
    own = script_at(b, i)
    got_spk = wallet.script_pub_key(b, i)
    if got_spk.script != own:
        raise Violation(f"wallet:{kind}:script-differs", f"{b}/{i}: lib {got_spk.script.hex()} model {own.hex()}")
    model_addr = m.address_of(own, net)
    if model_addr:
        if wallet.address(b, i) != model_addr:
            raise Violation(f"wallet:{kind}:address-differs", f"{b}/{i}: {wallet.address(b, i)} != {model_addr}")
        info = wallet.address_info(model_addr)
        if (info.branch, info.index) != (b, i) or model_addr not in wallet:
            raise Violation(f"wallet:{kind}:ledger", f"{info}")
        if model_addr.startswith(m.network(net)["hrp"] + "1") and model_addr.upper() not in wallet:
            raise Violation(f"wallet:{kind}:ledger-bech32-case", model_addr.upper())
    named = _as_form(own, case["form"], net)
    if named is None:
        named = own
    # "the first match wins": two branches that derive the same script (sortedmulti or musig() over <0;1> and <1;0>) answer with the earlier one
    first = next(bb for bb in branches if bb == b or script_at(bb, i) == own)
    expected = (first, i) if i <= last else None
    if first != b:
        tags.add("branches-derive-the-same-script")
    got = wallet.position_of(named, last)
    if got != expected:
        raise Violation(f"wallet:{kind}:position_of-own", f"position_of(script at {b}/{i}, last_index={last}) = {got}, expected {expected}")
    tags.add("expect:" + ("position" if expected else "beyond-last-index"))
    tags.add(f"branch:{branches.index(b)}")
    foreign = _foreign_script(i)
    if wallet.position_of(foreign, last) is not None:
        raise Violation(f"wallet:{kind}:foreign-claimed", foreign.hex())
    if refused(wallet.script_pub_key, max(branches) + 1, 0) is False or refused(wallet.script_pub_key, b, -1) is False:
        raise Violation(f"wallet:{kind}:invalid-position-accepted", "")
    # a span written down under this wallet is what it derives; shifted by one it is not
    span = [script_at(b, i), script_at(b, i + 1)]
    wallet.assert_derives(span, b, i)
    if not refused(wallet.assert_derives, span, b, i + 1):
        raise Violation(f"wallet:{kind}:assert_derives-shifted-span", "")


def _wallet_key(case):
    net, stype = case["net"], case["stype"]
    nt = m.network(net)["type"]
    tags = {"wallet:key", "stype:" + stype, "net:" + net}
    w = KeyWallet(script_type=stype, network=net)
    expected_addrs, any_private = [], False
    for sid, form in case["keys"]:
        x = g.tree_key(100 + sid, (H + 1,), nt)
        compressed = form not in ("wifu", "pubu")
        sec = m.ser_point(x.P, compressed)
        private = form in ("wif", "wifu", "int", "xprv")
        key = {"wif": m.wif_encode(x.k, True, net), "wifu": m.wif_encode(x.k, False, net), "pub": sec.hex(), "pubu": sec, "int": x.k,
               "xprv": m.xk_encode(x), "xpub": m.xk_encode(m.xk_neuter(x))}[form]
        tags.add("key:" + form)
        if not compressed and stype != "p2pkh":
            if not refused(w.add, key):
                raise Violation("wallet:key:uncompressed-segwit-accepted", f"{stype}")
            tags.add("refused:uncompressed-segwit")
            continue
        addr = w.add(key)
        script = m.p2pkh(sec) if stype == "p2pkh" else bip44_script(sec, stype)
        want = m.address_of(script, net)
        if addr != want:
            raise Violation(f"wallet:key:address-differs:{stype}", f"{form}: {addr} != {want}")
        expected_addrs.append(want)
        info = w.address_info(addr)
        if (info.address, info.script_type, info.der_path, info.branch, info.index) != (want, stype, "", None, None) or addr not in w:
            raise Violation("wallet:key:ledger", f"{info}")
        if private:
            any_private = True
            if w.prv_key(addr) != m.wif_encode(x.k, compressed, net):
                raise Violation("wallet:key:prv_key", form)
        elif not refused(w.prv_key, addr):
            raise Violation("wallet:key:watch-only-has-prv-key", form)
    if list(w.addresses) != expected_addrs or len(w) != len(expected_addrs) or w.is_watch_only != (not any_private):
        raise Violation("wallet:key:ledger-order-or-watch-only", f"{w.addresses} {w.is_watch_only}")
    foreign = m.address_of(_foreign_script(1), net)
    if foreign in w or not refused(w.address_info, foreign):
        raise Violation("wallet:key:foreign-claimed", foreign)
    return Outcome(len(expected_addrs) > 0, tuple(sorted(tags)))


def _wallet_bip32(case):
    net = case["net"]
    nt = m.network(net)["type"]
    own_coin = 0 if nt == "main" else 1
    coin = own_coin if case["coin"] == "own" else (1 - own_coin if case["coin"] == "other" else case["coin"])
    path = [H + case["purpose"], H + coin, H + case["account"]]
    tags = {"wallet:bip32", "net:" + net, f"purpose:{case['purpose']}", f"depth:{case['depth']}", "private" if case["private"] else "xpub"}
    given = g.tree_key(200 + case["s"], tuple(path[: case["depth"]]), nt)
    account = g.tree_key(200 + case["s"], tuple(path), nt)
    private = case["private"] or case["depth"] < 3  # a key above the account must be private to take the hardened steps
    xkey = m.xk_encode(given if private else m.xk_neuter(given))
    der_path = "m/" + "/".join(f"{i - H}h" for i in path)
    stype = case["stype"] or PURPOSES.get(case["purpose"])
    if stype is None:
        if not refused(BIP32KeyWallet, xkey, der_path, None):
            raise Violation("wallet:bip32:unknown-purpose-accepted", der_path)
        return Outcome(False, tuple(sorted(tags | {"refused:unknown-purpose"})))
    tags.add("stype:" + stype)
    w = BIP32KeyWallet(xkey, der_path, case["stype"])
    if w.script_type != stype or w.network not in [n for n in m.NETWORK_NAMES if m.network(n)["type"] == nt] or w.is_watch_only == private:
        raise Violation("wallet:bip32:attributes", f"{w.script_type} {w.network} {w.is_watch_only}")

    def script_at(b, i):
        return bip44_script(m.derive(account, [b, i]).sec, stype)

    # the wallet's network is the key's: addresses are compared on it
    _position_checks(w, "bip32", case, script_at, [0, 1], tags)
    b, i = case["b"], case["i"]
    if stype == "p2wpkh-p2sh" and w.redeem_script(b, i) != m.p2wpkh(m.derive(account, [b, i]).sec):
        raise Violation("wallet:bip32:redeem-script", "")
    if private and w.prv_key(w.address(b, i)) != m.wif_encode(m.derive(account, [b, i]).k, True, w.network):
        raise Violation("wallet:bip32:prv_key", f"{b}/{i}")
    # bip44's own five-level derivation names the same address, and checks the coin type against the key
    full = der_path + f"/{b}/{i}"
    if coin == own_coin:
        if bip44.address_from_der_path(xkey, full, case["stype"]) != m.address_of(script_at(b, i), w.network):
            raise Violation("wallet:bip32:bip44-address-differs", full)
        tags.add("bip44:address_from_der_path")
    elif not refused(bip44.address_from_der_path, xkey, full, case["stype"]):
        raise Violation("wallet:bip32:bip44-coin-type-accepted", full)
    if case["big"] is not None:
        tags.add(f"index:{case['big']:#x}")
        if case["big"] <= 0xFFFF:
            if w.script_pub_key(1, case["big"]).script != script_at(1, case["big"]):
                raise Violation("wallet:bip32:script-differs", "1/65535")
        elif not refused(w.script_pub_key, 1, case["big"]):
            raise Violation("wallet:bip32:index-above-65535-accepted", "")
    # the same account as descriptors: same outputs, and the text Core imports
    if coin == own_coin:
        fp = g.tree_key(200 + case["s"], (), nt).fingerprint
        dw = DescriptorWallet.from_account(xkey, der_path, fp if case["depth"] else None, case["stype"])
        for bb in (0, 1):
            if dw.script_pub_key(bb, i).script != script_at(bb, i):
                raise Violation("wallet:descriptor:from_account-script-differs", f"{der_path} {bb}/{i}")
        fn = {"p2pkh": "pkh({})", "p2wpkh-p2sh": "sh(wpkh({}))", "p2wpkh": "wpkh({})", "p2tr": "tr({})"}[stype]
        origin = "[" + fp.hex() + "".join(f"/{x - H}h" for x in path) + "]"
        receive, change = account_descriptors(xkey, der_path, fp if case["depth"] else None, case["stype"])
        for bb, desc in ((0, receive), (1, change)):
            want = fn.format(f"{origin}{m.xk_encode(m.xk_neuter(account))}/{bb}/*")
            if str(desc) != want or parse(add_checksum(str(desc)), w.network) != desc:
                raise Violation("wallet:descriptor:account-descriptor-text", f"{desc} != {want}")
        if dw.position_of(script_at(b, i), case["last"]) != ((b, i) if i <= case["last"] else None):
            raise Violation("wallet:descriptor:position_of-own", "from_account")
        tags.add("from_account")
    return Outcome((b, i) != (0, 0), tuple(sorted(tags)))


def _force_multipath(recipe, mp, elems):
    """Make sure at least one extended key carries a <a;b> step, so the branches differ."""
    if g.count_multipath(recipe):
        return recipe
    done = [False]

    def fn(k):
        if not done[0] and k.get("k") in ("xpub", "xprv"):
            done[0] = True
            return {**k, "p": [{"mp": list(elems[:mp])}, *k.get("p", [])]}
        return k

    return g.map_keys(recipe, fn)


def _wallet_descriptor(case):
    net, mp = case["net"], case["mp"]
    tags = {"wallet:descriptor", "net:" + net, "via:" + case["via"], f"branches:{mp}"}
    recipe = case["desc"]
    keys = g.recipe_keys(recipe)
    if any(k.get("k") in ("xpub", "xprv") for k in keys):
        recipe = _force_multipath(recipe, mp, case["elems"])
    if not g.count_multipath(recipe):
        mp = 1
        tags.add("single-chain")
    variants = [built(recipe, net, j) for j in range(mp)]
    trees = [t for _, t in variants]
    tags.add(shape(trees[0]))
    prv = {}
    is_combo = trees[0]["f"] == "combo"

    def make():
        if case["via"] == "from_descriptor":
            mtext = g.build(recipe, net, None)[0] if mp > 1 else variants[0][0]
            return DescriptorWallet.from_descriptor(m.descsum_create(mtext), net, prv), list(range(mp))
        parsed = [parse(t, net, prv) for t, _ in variants]
        if case["via"] == "sequence":
            return DescriptorWallet(parsed, prv), list(range(mp))
        labels = case["labels"][:mp]
        return DescriptorWallet(dict(zip(labels, parsed, strict=True)), prv), sorted(labels)

    if any(model_scripts(t, 0, net) == "need-private" for t in trees):
        # refused when the wallet is made or, by a wallet that derives lazily, when a script is asked for
        try:
            lazy, lazy_branches = make()
        except BTClibValueError:
            lazy = None
        if lazy is not None and not all(refused(lazy.script_pub_key, bb, 0) for bb in lazy_branches):
            raise Violation("wallet:descriptor:underivable-accepted", variants[0][0])
        return Outcome(False, tuple(sorted(tags | {"need-private"})))
    if is_combo:
        if not refused(make):
            raise Violation("wallet:descriptor:combo-accepted", variants[0][0])
        return Outcome(False, tuple(sorted(tags | {"refused:combo"})))
    w, branches = make()
    if list(w.branches) != branches or w.is_watch_only != (not prv):
        raise Violation("wallet:descriptor:branches", f"{w.branches} != {branches}")
    order = list(range(mp)) if case["via"] != "mapping" else [case["labels"][:mp].index(lab) for lab in branches]
    ranged = m.is_ranged(trees[0])
    if w.is_ranged != ranged:
        raise Violation("wallet:descriptor:is_ranged", "")
    tags.add("ranged" if ranged else "unranged")

    def script_at(b, i):
        return m.scripts(trees[order[branches.index(b)]], i, net)[0]

    sub = dict(case)
    sub["b"] = branches[case["b"] % mp]
    if not ranged:
        # one script per chain: index 0 is all there is
        sub["i"], b = 0, sub["b"]
        first = next(bb for bb in branches if bb == b or script_at(bb, 0) == script_at(b, 0))
        if w.script_pub_key(b, 0).script != script_at(b, 0) or w.position_of(script_at(b, 0), case["last"]) != (first, 0):
            raise Violation("wallet:descriptor:unranged-position", variants[0][0])
        if not refused(w.script_pub_key, b, 1):
            raise Violation("wallet:descriptor:unranged-index-accepted", "")
        if w.position_of(_foreign_script(0), case["last"]) is not None:
            raise Violation("wallet:descriptor:foreign-claimed", "")
        return Outcome(False, tuple(sorted(tags)))
    _position_checks(w, "descriptor", sub, script_at, branches, tags)
    # the pre-images BIP174 asks an Updater for
    tree = trees[order[branches.index(sub["b"])]]
    i = sub["i"]
    held = m.private_keys(tree)
    want_redeem = m._one(tree["arg"], i, net, held) if tree["f"] == "sh" else b""
    inner = tree["arg"] if tree["f"] == "sh" else tree
    want_witness = m._one(inner["arg"], i, net, held) if inner["f"] == "wsh" else b""
    if w.redeem_script(sub["b"], i) != want_redeem or w.witness_script(sub["b"], i) != want_witness:
        raise Violation("wallet:descriptor:redeem-or-witness-script", variants[0][0])
    return Outcome(True, tuple(sorted(tags)))


def _wallet_script(case):
    net, stype, order = case["net"], case["stype"], case["order"]
    nt = m.network(net)["type"]
    tags = {"wallet:script", "net:" + net, "stype:" + stype, "order:" + order, "tpl:" + case["tpl"]}
    groups, accounts = [], []
    for gi, grp in enumerate(case["groups"]):
        xks, texts, origins = [], [], []
        for key in grp["keys"]:
            x = g.tree_key(300 + key["s"], tuple(key["acct"]), nt)
            xks.append(x)
            texts.append(m.xk_encode(x if key["private"] else m.xk_neuter(x)))
            origins.append(BIP32KeyOrigin(g.tree_key(300 + key["s"], (), nt).fingerprint, list(key["acct"])) if key["origin"] else None)
        accounts.append(xks)
        verify = case["tpl"] == "verify+quorum" and gi == 0
        groups.append(KeyGroup(grp["k"], texts, verify=verify, origins=origins))
    if case["tpl"] == "quorum":
        template = [groups[0]]
    elif case["tpl"] == "verify+quorum":
        template = [groups[0], groups[1]]
    else:
        template = ["OP_IF", groups[0], "OP_ELSE", lib_push_int(case["csv"]), "OP_CHECKSEQUENCEVERIFY", "OP_DROP", groups[1], "OP_ENDIF"]
    w = ScriptWallet(template, stype, order, network=net)
    any_private = any(k["private"] for grp in case["groups"] for k in grp["keys"])
    if w.is_watch_only == any_private or w.branches != (0, 1):
        raise Violation("wallet:script:attributes", "")

    def quorum(gi, b, i):
        xks = accounts[gi]
        if order == "account":
            xks = sorted(xks, key=lambda x: x.sec)
        secs = [m.derive(x, [b, i]).sec for x in xks]
        if order == "derived":
            secs = sorted(secs)
        return m.multisig(case["groups"][gi]["k"], secs, verify=case["tpl"] == "verify+quorum" and gi == 0)

    def inner_at(b, i):
        if case["tpl"] == "quorum":
            return quorum(0, b, i)
        if case["tpl"] == "verify+quorum":
            return quorum(0, b, i) + quorum(1, b, i)
        return b"\x63" + quorum(0, b, i) + b"\x67" + m.push_int(case["csv"]) + b"\xb2\x75" + quorum(1, b, i) + b"\x68"

    def script_at(b, i):
        inner = inner_at(b, i)
        return {"p2sh": m.p2sh(inner), "p2wsh": m.p2wsh(inner), "p2sh-p2wsh": m.p2sh(m.p2wsh(inner))}[stype]

    _position_checks(w, "script", case, script_at, [0, 1], tags)
    b, i = case["b"], case["i"]
    inner = inner_at(b, i)
    want_redeem = {"p2sh": inner, "p2wsh": b"", "p2sh-p2wsh": m.p2wsh(inner)}[stype]
    want_witness = b"" if stype == "p2sh" else inner
    if w.redeem_script(b, i) != want_redeem or w.witness_script(b, i) != want_witness:
        raise Violation("wallet:script:redeem-or-witness-script", f"{b}/{i}")
    n0 = len(case["groups"][0]["keys"])
    if n0 > 1:
        secs = [m.derive(x, [b, i]).sec for x in accounts[0]]
        tags.add("derived-order:" + ("permutes" if sorted(secs) != secs else "in-order"))
    if case["big"] is not None:
        if case["big"] <= 0xFFFF:
            if w.script_pub_key(1, case["big"]).script != script_at(1, case["big"]):
                raise Violation("wallet:script:script-differs", "1/65535")
        elif not refused(w.script_pub_key, 1, case["big"]):
            raise Violation("wallet:script:index-above-65535-accepted", "")
    # the descriptor of a branch derives what the template derives, or there is none to state it
    must_exist = case["tpl"] == "quorum" or (case["tpl"] == "verify+quorum" and order != "derived" and stype != "p2sh")
    must_not = case["tpl"] == "timelock" or (case["tpl"] != "quorum" and (order == "derived" or stype == "p2sh"))
    try:
        desc = w.descriptor(b)
    except NoDescriptorError:
        desc = None
    if desc is None:
        tags.add("descriptor:none")
        if must_exist:
            raise Violation("wallet:script:descriptor-refused", f"{case['tpl']} {stype} {order}")
    else:
        tags.add("descriptor:" + family(m.parse(str(desc))))
        if must_not:
            raise Violation("wallet:script:descriptor-of-the-inexpressible", f"{case['tpl']} {stype} {order}: {desc}")
        for idx in {0, 1, 7, i}:
            if desc.script_pub_key(idx).script != script_at(b, idx):
                raise Violation("wallet:script:descriptor-derives-another-script", f"{desc} @ {idx}")
        if case["tpl"] == "quorum":
            name = "sortedmulti" if order == "derived" else "multi"
            if name + "(" not in str(desc) or ("sortedmulti(" in str(desc)) != (order == "derived"):
                raise Violation("wallet:script:descriptor-function", str(desc))
    return Outcome(True, tuple(sorted(tags)))


SUBCHECKS = [
    SubCheck(
        "derivation", check_derivation,
        "parse(text).script_pub_keys(i) and addresses at two indexes == BIP32 + hand assembly by the model; prv_keys mapping; hardened steps refused without the key "
        "and equal with it; public derivation equal; index bounds; sortedmulti order tagged; key of another network refused. Non-trivial: nested/tree/ranged at >= 2",
        derivation_case, quick=4000, thorough=60000, max_buckets=3,
    ),
    SubCheck(
        "text", check_text,
        "checksum/add/strip == BIP380 reference; str(parse(d)) == Core's public normalisation by the model; parse(str(d)) == d and derives the same; at_index; normalized; "
        "import_request text; 1-4 random substitutions refused whenever the reference refuses; multipath_descriptors == structural expansion and each derives the model's scripts",
        text_case, quick=4000, thorough=50000, max_buckets=3,
    ),
    SubCheck(
        "corruption", lambda c: None,
        "every single-character substitution (95 input characters + 3 outside) at every position of checksummed descriptors of 16 shapes x networks, plus 3000 double "
        "substitutions each: refused; distinct by construction",
        units=corruption_units, run_unit=corruption_run_unit, exhaustive=True,
    ),
    SubCheck(
        "is_mine", check_is_mine,
        "index_of(model script at i, last_index) == i for i <= last_index and None at last_index+1, for every spelling of the output; a script of the same shape over fresh "
        "keys is not mine; unranged descriptors answer 0",
        is_mine_case, quick=3000, thorough=40000, max_buckets=3,
    ),
    SubCheck(
        "wallets", check_wallets,
        "KeyWallet / BIP32KeyWallet / DescriptorWallet (from_descriptor multipath, mapping, sequence, from_account) / ScriptWallet (3 templates x 3 orders x 3 script types): "
        "addresses and scripts == BIP44 derivation / hand-assembled template; position_of inverse inside last_index, None beyond and for foreign scripts; assert_derives; "
        "ScriptWallet.descriptor derives the template's scripts or NoDescriptorError where documented",
        wallets_case, quick=2500, thorough=30000, max_buckets=3,
    ),
    SubCheck("coverage_guided", None, 'atheris / libFuzzer campaign (btclib instrumented, in-process) from arbitrary text over descriptors.parse, seeded with 20 valid descriptors: the text written back for whatever parse accepts parses to an equal descriptor and is written the same; non-trivial: inputs libFuzzer kept because they reached new coverage',
             units=lambda tier: __import__("checks.c19_fuzz", fromlist=["units"]).units(tier, "C14"), run_unit=lambda unit, col: __import__("checks.c19_fuzz", fromlist=["run_unit"]).run_unit(unit, col, "C14")),
]
