"""C09, the PSBT clause: the digest obtained through a PSBT (psbt.ecdsa_sig_hash / psbt.taproot_sig_hash) and through a streamed view of its
bytes (PsbtView) is the one the definitions give for the transaction the PSBT describes.

A case is one transaction of 1..3 inputs of generated kinds, each spending an output of a previous transaction made for it (so that a
non-witness utxo can be given and its id matches the outpoint); the PSBT is filled by hand with what BIP174/371 ask an Updater for (utxos,
redeem / witness scripts, leaf script), in version 0 or 2, with the hash type asked for in the input's field or passed by the caller."""

from __future__ import annotations

import hashlib
import json
from io import BytesIO

from hypothesis import strategies as st

from btclib.exceptions import BTClibRuntimeError, BTClibTypeError, BTClibValueError
from btclib.psbt import Psbt
from btclib.psbt.psbt import ecdsa_sig_hash, taproot_sig_hash
from btclib.psbt.psbt_view import PsbtView
from vlib import build
from vlib.gens import common as g
from vlib.models import sighash_ref as ref
from vlib.models import tx_ref
from vlib.runner import HarnessError, Outcome, Violation

LIBEXC = (BTClibValueError, BTClibTypeError, BTClibRuntimeError)
KINDS = ["p2pk", "p2pkh", "bare", "p2sh", "p2wpkh", "p2wsh", "p2sh_p2wpkh", "p2sh_p2wsh", "p2tr_key", "p2tr_script"]
ECDSA_TYPES = [1, 2, 3, 0x81, 0x82, 0x83]


def _h160(b):
    return hashlib.new("ripemd160", hashlib.sha256(b).digest()).digest()


def _sha(b):
    return hashlib.sha256(b).digest()


@st.composite
def psbt_sighash_case(draw):
    n = draw(st.integers(1, 3))
    inputs = []
    for _ in range(n):
        kind = draw(st.sampled_from(KINDS))
        inputs.append({
            "kind": kind, "key": draw(g.hexbytes(33, 33)), "script": draw(g.script_code(max_items=6, truncated_ok=False)), "value": draw(st.one_of(st.sampled_from([0, 1, 546, 10**8]), st.integers(0, 10**12))),
            "vout": draw(st.integers(0, 2)), "sequence": draw(st.sampled_from([0xFFFFFFFF, 0xFFFFFFFE, 0, 1, 0x400000])),
            "hash_type": draw(st.sampled_from(sorted(ref.TAPROOT_VALID))) if kind.startswith("p2tr") else draw(st.sampled_from(ECDSA_TYPES)),
            "how": draw(st.sampled_from(["field", "param", "param-over-field", "param-over-field", "default"])),
            "field_type": draw(st.sampled_from(sorted(set(ref.TAPROOT_VALID) - {0}))) if kind.startswith("p2tr") else draw(st.sampled_from(ECDSA_TYPES)), "leaf_version": draw(st.sampled_from([0xC0, 0xC2])), "control_tail": draw(st.integers(0, 3).flatmap(lambda m: g.hexbytes(32 + 32 * m, 32 + 32 * m))),
            "both_utxos": draw(st.booleans()),
        })
    outs = [{"value": draw(st.integers(0, 10**6)), "spk": draw(st.sampled_from(["0014" + "11" * 20, "5120" + "22" * 32, "6a0401020304", "76a914" + "33" * 20 + "88ac", "a914" + "44" * 20 + "87", "51", "00"]))} for _ in range(draw(st.integers(1, 3)))]
    return {"inputs": inputs, "outs": outs, "idx": draw(st.integers(0, n - 1)), "tx_version": draw(st.sampled_from([1, 2, 2])), "lock_time": draw(st.sampled_from([0, 0, 17, 500000000])),
            "psbt_version": draw(st.sampled_from([0, 2])), "reparse": draw(st.booleans())}


def _lookalike(script: bytes) -> bool:
    """a generated script that is itself a witness program or a p2sh template would be another kind"""
    if 4 <= len(script) <= 42 and script[0] in (0, *range(0x51, 0x61)) and script[1] == len(script) - 2:
        return True
    return len(script) == 23 and script[:2] == b"\xa9\x14" and script[-1:] == b"\x87"


def check_psbt_sighash(case):
    ins = case["inputs"]
    vin, spent, prevs, fields = [], [], [], []
    for j, inp in enumerate(ins):
        kind, key, script = inp["kind"], bytes.fromhex(inp["key"]), bytes.fromhex(inp["script"])
        f = {}
        if not script or _lookalike(script):
            script = b"\x61" + script  # (an OP_NOP in front: an empty script is no script, one shaped like a witness program or a p2sh template another kind)
        if kind == "p2pk":
            spk = g.push(key) + b"\xac"
        elif kind == "p2pkh":
            spk = b"\x76\xa9\x14" + _h160(key) + b"\x88\xac"
        elif kind == "bare":
            spk = script
        elif kind == "p2sh":
            spk = b"\xa9\x14" + _h160(script) + b"\x87"
            f["redeem_script"] = script
        elif kind in ("p2wpkh", "p2sh_p2wpkh"):
            prog = b"\x00\x14" + _h160(key)
            spk = prog if kind == "p2wpkh" else b"\xa9\x14" + _h160(prog) + b"\x87"
            if kind == "p2sh_p2wpkh":
                f["redeem_script"] = prog
        elif kind in ("p2wsh", "p2sh_p2wsh"):
            prog = b"\x00\x20" + _sha(script)
            spk = prog if kind == "p2wsh" else b"\xa9\x14" + _h160(prog) + b"\x87"
            f["witness_script"] = script
            if kind == "p2sh_p2wsh":
                f["redeem_script"] = prog
        else:
            spk = b"\x51\x20" + key[1:]
            if kind == "p2tr_script":
                control = bytes([inp["leaf_version"] | 1]) + bytes.fromhex(inp["control_tail"])
                f["taproot_leaf_scripts"] = {control: (script, inp["leaf_version"])}
        prev = {"version": 2, "lock_time": 0, "vin": [{"txid": f"{j + 1:02x}" * 32, "vout": j, "script_sig": "51", "sequence": 0xFFFFFFFF, "witness": []}],
                "vout": [{"value": 600 + k, "spk": "0014" + f"{k + 1:02x}" * 20} for k in range(inp["vout"])] + [{"value": inp["value"], "spk": spk.hex()}]}
        prevs.append(prev)
        vin.append({"txid": tx_ref.txid(prev).hex(), "vout": inp["vout"], "script_sig": "", "sequence": inp["sequence"], "witness": []})
        spent.append({"value": inp["value"], "spk": spk.hex()})
        fields.append(f)
    txd = {"version": max(case["tx_version"], 2) if case["psbt_version"] == 2 else case["tx_version"], "lock_time": case["lock_time"], "vin": vin, "vout": case["outs"]}
    try:
        psbt = Psbt.from_tx(build.tx(txd, False))
        for j, (inp, f, prev) in enumerate(zip(ins, fields, prevs)):
            pin = psbt.inputs[j]
            segwit = inp["kind"] not in ("p2pk", "p2pkh", "bare", "p2sh")
            if not segwit or inp["both_utxos"]:
                pin.non_witness_utxo = build.tx(prev, False)
            if segwit:
                pin.witness_utxo = build.tx_out(spent[j], check_validity=False)
            for name, value in f.items():
                setattr(pin, name, value)
            if inp["how"] == "field":
                pin.sig_hash_type = inp["hash_type"]
            elif inp["how"] == "param-over-field":
                pin.sig_hash_type = inp.get("field_type", 1)  # the input asks for one type, the caller passes another (0x00 included): the caller's is the one hashed
        if case["psbt_version"] == 2:
            psbt = psbt.to_v2()
        psbt.assert_valid()
    except LIBEXC as e:
        return Outcome(False, ("generator-refused: " + str(e).split(":")[0][:50],))  # a psbt the library does not take: nothing to ask a digest of
    raw = psbt.serialize()
    if case["reparse"]:
        psbt = Psbt.parse(raw)
    stream = BytesIO(b"\xaa" * 3 + raw + b"\xbb")  # the psbt inside a stream that carries more, the cursor where it starts
    stream.seek(3)
    view = PsbtView(stream)
    idx = case["idx"]
    inp = ins[idx]
    kind, key, script = inp["kind"], bytes.fromhex(inp["key"]), bytes.fromhex(inp["script"])
    if not script or _lookalike(script):
        script = b"\x61" + script
    ht = inp["hash_type"]
    taproot = kind.startswith("p2tr")
    eff = ht if inp["how"] != "default" else (0 if taproot else 1)
    kw = {"hash_type": ht} if inp["how"] in ("param", "param-over-field") else {}
    if kind in ("p2pk", "p2pkh", "bare"):
        want = ref.legacy(bytes.fromhex(spent[idx]["spk"]), txd, idx, eff)
    elif kind == "p2sh":
        want = ref.legacy(script, txd, idx, eff)
    elif kind in ("p2wpkh", "p2sh_p2wpkh"):
        want = ref.segwit_v0(b"\x76\xa9\x14" + _h160(key) + b"\x88\xac", txd, idx, eff, inp["value"])
    elif kind in ("p2wsh", "p2sh_p2wsh"):
        want = ref.segwit_v0(script, txd, idx, eff, inp["value"])
    elif kind == "p2tr_key":
        want = ref.taproot(txd, idx, spent, eff)
    else:
        want = ref.taproot(txd, idx, spent, eff, scriptpath=True, leaf_hash=ref.tapleaf_hash(inp["leaf_version"], script))
        kw["leaf_hash"] = ref.tapleaf_hash(inp["leaf_version"], script)
    base = eff & 3
    if want is None and not (taproot and base == 3 and idx >= len(txd["vout"])):
        raise HarnessError("the model refuses a generated hash type")
    for name, fn in (("psbt", (lambda **k: taproot_sig_hash(psbt, idx, **k)) if taproot else (lambda **k: ecdsa_sig_hash(psbt, idx, **k))),
                     ("view", (lambda **k: view.taproot_sig_hash(idx, **k)) if taproot else (lambda **k: view.ecdsa_sig_hash(idx, **k)))):
        try:
            got = fn(**kw)
        except LIBEXC as e:
            if want is None:
                continue  # BIP341: SIGHASH_SINGLE without a corresponding output is invalid
            raise Violation(f"psbt_paths:{name}:refused:{kind}:how={inp['how']}:v{case['psbt_version']}", f"{str(e)[:200]} hash_type={eff:#x}") from e
        if want is None:
            raise Violation(f"psbt_paths:{name}:taproot-single-without-output-answered", f"lib={got.hex()}")
        if got != want:
            raise Violation(f"psbt_paths:{name}:digest-differs:{kind}:how={inp['how']}:v{case['psbt_version']}:base={base}:acp={bool(eff & 0x80)}", f"lib={got.hex()} ref={want.hex()} hash_type={eff:#x} inputs={[i['kind'] for i in ins]}")
    return Outcome(True, (kind, f"how={inp['how']}", f"v{case['psbt_version']}", f"inputs={len(ins)}", "reparsed" if case["reparse"] else "built", "both-utxos" if inp["both_utxos"] else "one-utxo"))
