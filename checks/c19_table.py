"""C19: the table of parse/decode entry points, found by introspection and driven through explicit adapters.

`candidates()` walks the package and lists every callable the naming rule calls a parser or decoder;
`BIN_EPS` / `TEXT_EPS` / `JSON_EPS` say how each one is driven; `NOT_DRIVEN` says why the rest are not.
`assert_table_complete()` (called by validate_models) refuses to run when the walk finds a name in neither table.
"""

from __future__ import annotations

import importlib
import inspect
import pkgutil
from dataclasses import dataclass
from typing import Any, Callable

import btclib
from btclib import b32, b58, base58, bech32, bip21, bip322, var_bytes, var_int
from btclib.bip32 import bip32 as bip32mod
from btclib.bip32 import der_path, key_origin
from btclib.bip32.bip32 import BIP32KeyData
from btclib.bip32.key_origin import BIP32KeyOrigin
from btclib.block import block_filter, proof_of_work
from btclib.block.block import Block
from btclib.block.block_header import BlockHeader
from btclib.curves import sec_point
from btclib.descriptors import descriptors, miniscript
from btclib.ecc import bms, borromean, dsa, ecies, ellswift, ssa
from btclib.psbt import psbt_utils
from btclib.psbt.psbt import Psbt
from btclib.psbt.psbt_in import PsbtIn
from btclib.psbt.psbt_out import PsbtOut
from btclib.script import script, taproot
from btclib.script.script_pub_key import ScriptPubKey
from btclib.script.witness import Witness
from btclib.tx.out_point import OutPoint
from btclib.tx.tx import Tx
from btclib.tx.tx_in import TxIn
from btclib.tx.tx_out import TxOut
from vlib.gens import p2p as gp2p

# ------------------------------------------------------------------------------------------------ introspection
CLASS_ATTRS = ("parse", "from_dict", "b64decode", "b58decode", "decode", "from_description", "from_address", "from_descriptor")
FUNC_WORDS = ("parse", "decode", "deserialize", "from_script", "from_address", "from_mnemonic", "from_mnemonics", "from_der_path", "from_dict", "from_any", "from_octets", "from_index_str", "from_bits", "from_string",
              "from_hex_seed", "from_bip340pub_key", "from_bip32_derivs", "from_input")
INPUT_ANNOTATIONS = ("BinaryData", "Octets", "String", "str", "Mnemonic", "DerPath", "Mapping", "bytes", "BIP340PubKey", "Sequence[Mnemonic]", "Sequence[Mapping", "list[dict", "Sequence[tuple", "_io.BytesIO")
SKIP_MODULES = (".fetch", ".hwi")  # network transports and external-signer process adapters: no parser of caller-supplied encodings without a backend


def _first_annotation(f) -> str:
    try:
        params = list(inspect.signature(f).parameters.values())
    except (TypeError, ValueError):
        return ""
    if not params:
        return ""
    a = params[0].annotation
    return a if isinstance(a, str) else getattr(a, "__name__", str(a))


def candidates() -> dict[str, Any]:
    found: dict[str, Any] = {}
    for m in pkgutil.walk_packages(btclib.__path__, "btclib."):
        if any(s in m.name for s in SKIP_MODULES):
            continue
        mod = importlib.import_module(m.name)
        for n, o in vars(mod).items():
            if inspect.isclass(o) and o.__module__ == m.name:
                for a in CLASS_ATTRS:
                    f = inspect.getattr_static(o, a, None)
                    if isinstance(f, (classmethod, staticmethod)):
                        found[f"{m.name}.{n}.{a}"] = getattr(o, a)
            elif inspect.isfunction(o) and o.__module__ == m.name and not n.startswith("_"):
                if any(w in n for w in FUNC_WORDS) and any(_first_annotation(o).startswith(t) or t in _first_annotation(o) for t in INPUT_ANNOTATIONS):
                    found[f"{m.name}.{n}"] = o
    return found


# ------------------------------------------------------------------------------------------------ binary entry points
@dataclass
class BinEP:
    name: str  # the public dotted name (as candidates() spells it)
    call: Callable  # (arg, check_validity, extra) -> object
    kinds: tuple  # the seed kinds whose encoding it reads
    param: str = "BinaryData"  # BinaryData (bytes/str/BytesIO) | Octets (bytes/str) | bytes
    has_cv: bool = True
    reads_all: bool = False  # documented to take the whole of a stream (no length of its own)
    variants: tuple = (None,)  # extra-argument variants, drawn per round
    key: str = ""  # unique key when one public name is driven in several ways

    def __post_init__(self):
        self.key = self.key or self.name.replace("btclib.", "")


def _cv(f):
    return lambda a, cv, x: f(a, check_validity=cv)


def _plain(f):
    return lambda a, cv, x: f(a)


BIN_EPS: list[BinEP] = [
    BinEP("btclib.var_int.parse", lambda a, cv, x: var_int.parse(a) if x is None else var_int.parse(a, x), ("var_int",), has_cv=False, variants=(None, 0, 0xFC, 2**64 - 1)),
    BinEP("btclib.var_bytes.parse", lambda a, cv, x: var_bytes.parse(a, forbid_zero_size=bool(x)), ("var_bytes", "script"), has_cv=False, variants=(False, True)),
    BinEP("btclib.script.script.parse", _plain(script.parse), ("script",), has_cv=False, reads_all=True),
    BinEP("btclib.script.taproot.parse", lambda a, cv, x: taproot.parse(a, exit_on_op_success=bool(x)), ("script",), has_cv=False, reads_all=True, variants=(False, True)),
    BinEP("btclib.script.witness.Witness.parse", _cv(Witness.parse), ("witness",)),
    BinEP("btclib.tx.out_point.OutPoint.parse", _cv(OutPoint.parse), ("outpoint",)),
    BinEP("btclib.tx.tx_in.TxIn.parse", _cv(TxIn.parse), ("txin",)),
    BinEP("btclib.tx.tx_out.TxOut.parse", _cv(TxOut.parse), ("txout",)),
    BinEP("btclib.tx.tx.Tx.parse", _cv(Tx.parse), ("tx",)),
    BinEP("btclib.block.block_header.BlockHeader.parse", _cv(BlockHeader.parse), ("header",)),
    BinEP("btclib.block.block.Block.parse", _cv(Block.parse), ("block",)),
    BinEP("btclib.block.block_filter.BasicBlockFilter.parse", lambda a, cv, x: block_filter.BasicBlockFilter.parse(a, x if x is not None else bytes(32), check_validity=cv), ("gcs_filter",), reads_all=True, variants=(None, b"", "11" * 32)),
    BinEP("btclib.block.proof_of_work.target_from_bits", _plain(proof_of_work.target_from_bits), ("bits",), param="Octets", has_cv=False),
    BinEP("btclib.psbt.psbt.Psbt.parse", _cv(Psbt.parse), ("psbt",)),
    BinEP("btclib.psbt.psbt_in.PsbtIn.parse", lambda a, cv, x: PsbtIn.parse(a, psbt_version=x, check_validity=cv), ("psbt_in",), variants=("seed", 0, 2)),
    BinEP("btclib.psbt.psbt_out.PsbtOut.parse", lambda a, cv, x: PsbtOut.parse(a, psbt_version=x, check_validity=cv), ("psbt_out",), variants=("seed", 0, 2)),
    BinEP("btclib.psbt.psbt_utils.deserialize_map", _plain(psbt_utils.deserialize_map), ("psbt_map", "psbt_in", "psbt_out"), has_cv=False),
    BinEP("btclib.psbt.psbt_utils.parse_leaf_script", _plain(psbt_utils.parse_leaf_script), ("leaf_script",), param="bytes", has_cv=False),
    BinEP("btclib.psbt.psbt_utils.parse_taproot_tree", _plain(psbt_utils.parse_taproot_tree), ("taproot_tree",), param="bytes", has_cv=False),
    BinEP("btclib.psbt.psbt_utils.parse_taproot_bip32", _plain(psbt_utils.parse_taproot_bip32), ("taproot_bip32",), param="bytes", has_cv=False),
    BinEP("btclib.psbt.psbt_utils.parse_musig2_participant_pub_keys", _plain(psbt_utils.parse_musig2_participant_pub_keys), ("musig2_keys",), param="bytes", has_cv=False),
    BinEP("btclib.psbt.psbt_utils.deserialize_tx", lambda a, cv, x: psbt_utils.deserialize_tx(b"\x00", a, "tx", x[0], unsigned_template=x[1]), ("tx_valid", "tx"), param="bytes", has_cv=False,
          variants=((True, False), (False, False), (False, True))),
    BinEP("btclib.psbt.psbt_utils.deserialize_count", lambda a, cv, x: psbt_utils.deserialize_count(x, a, "count"), ("var_int",), param="bytes", has_cv=False, variants=(b"\x04", b"", b"\x04\x00")),
    BinEP("btclib.psbt.psbt_utils.deserialize_sized_int", lambda a, cv, x: psbt_utils.deserialize_sized_int(b"\x03", a, "int", x[0], signed=x[1]), ("bits", "var_int"), param="bytes", has_cv=False,
          variants=((4, False), (4, True), (1, False), (8, True))),
    BinEP("btclib.psbt.psbt_utils.deserialize_bytes", lambda a, cv, x: psbt_utils.deserialize_bytes(x, a, "bytes"), ("script",), param="bytes", has_cv=False, variants=(b"\x04", b"", b"\x04\x00")),
    BinEP("btclib.bip32.bip32.BIP32KeyData.parse", _cv(BIP32KeyData.parse), ("xkey",)),
    BinEP("btclib.bip32.key_origin.BIP32KeyOrigin.parse", _cv(BIP32KeyOrigin.parse), ("key_origin",), param="Octets"),
    # strict DER: "A stream is held to the same rule as a bytes buffer" (the parser's own comment, after Core's IsValidSignatureEncoding): documented, not asked
    BinEP("btclib.ecc.dsa.Sig.parse", lambda a, cv, x: dsa.Sig.parse(a, check_validity=cv, strict=True), ("der_sig",), reads_all=True, key="ecc.dsa.Sig.parse[strict]"),
    BinEP("btclib.ecc.dsa.Sig.parse", lambda a, cv, x: dsa.Sig.parse(a, check_validity=cv, strict=False), ("der_sig",), key="ecc.dsa.Sig.parse[lax]"),
    BinEP("btclib.ecc.ssa.Sig.parse", _cv(ssa.Sig.parse), ("ssa_sig",)),
    BinEP("btclib.ecc.bms.Sig.parse", _cv(bms.Sig.parse), ("bms_sig",)),
    BinEP("btclib.ecc.borromean.BorromeanSig.parse", lambda a, cv, x: borromean.BorromeanSig.parse(a, x, check_validity=cv), ("borromean",), variants=("seed", (), (1,), (2, 1), (0,), (10**6,))),
    BinEP("btclib.ecc.ecies.Envelope.parse", _cv(ecies.Envelope.parse), ("envelope",), param="Octets"),
    BinEP("btclib.ecc.ellswift.decode_var", _plain(ellswift.decode_var), ("ellswift",), param="Octets", has_cv=False),
    BinEP("btclib.curves.sec_point.point_from_octets", lambda a, cv, x: sec_point.point_from_octets(a, hybrid=x), ("point", "point_any"), param="Octets", has_cv=False, variants=(False, True)),
    BinEP("btclib.ecc.ssa.point_from_bip340pub_key", _plain(ssa.point_from_bip340pub_key), ("point_x", "point_any"), param="Octets", has_cv=False),
    BinEP("btclib.descriptors.miniscript.from_script", lambda a, cv, x: miniscript.from_script(a, x[0], x[1]), ("ms_script", "script"), param="Octets", has_cv=False, variants=("seed", ("P2WSH", None), ("tapscript", None), ("P2WSH", {}))),
    BinEP("btclib.utils.decode_num", lambda a, cv, x: __import__("btclib.utils", fromlist=["x"]).decode_num(a), ("bits", "var_int"), param="bytes", has_cv=False),
    BinEP("btclib.silent_payments.pub_key_from_input", lambda a, cv, x: __import__("btclib.silent_payments", fromlist=["x"]).pub_key_from_input(a, *x), ("script",), param="Octets", has_cv=False,
          variants=((), (b"\x16\x00\x14" + b"\x11" * 20,), (b"\x00",), ("4730440220" + "11" * 32 + "0220" + "22" * 32 + "0121" + "02" + "33" * 32,))),
]
for _n in sorted(gp2p.PAYLOADS):
    _cls = gp2p.CLASSES[_n]
    _param = "Octets" if _n == "Version" else "BinaryData"
    _extra = {}
    if _n == "PrefilledTransaction":
        BIN_EPS.append(BinEP(f"{_cls.__module__}.{_n}.parse", lambda a, cv, x, c=_cls: c.parse(a, x, check_validity=cv), ("p2p:" + _n,), variants=(-1, 0, 0xFFFE, 0xFFFF, 2**64)))
    else:
        BIN_EPS.append(BinEP(f"{_cls.__module__}.{_n}.parse", lambda a, cv, x, c=_cls: c.parse(a, check_validity=cv), ("p2p:" + _n,), param=_param))

BIN_EPS += [
    BinEP("btclib.utils.bytes_from_octets", lambda a, cv, x: __import__("btclib.utils", fromlist=["x"]).bytes_from_octets(a, x), ("bits", "script"), param="Octets", has_cv=False, variants=(None, 4, (4, 32), 0, [])),
    BinEP("btclib.utils.int_from_bits", lambda a, cv, x: __import__("btclib.utils", fromlist=["x"]).int_from_bits(a, x), ("bits", "point"), param="Octets", has_cv=False, variants=(256, 0, 1, 10**6, -1)),
]
def _drive_view(data):
    """PsbtView is a parser spelled as a constructor: lazy, so its readers are part of the parse"""
    from btclib.psbt import PsbtView

    from btclib.exceptions import BTClibValueError

    v = PsbtView(data)
    out = [v.tx, v.lock_time]
    try:
        out.append(v.prevouts)  # a psbt without its utxos is a psbt: the reader refuses, the view stands
    except BTClibValueError:
        pass
    n_in, n_out = len(v.tx.vin), len(v.tx.vout)
    for i in range(min(n_in, 3)):
        out.append(v.input(i))
    for i in range(min(n_out, 3)):
        out.append(v.output(i))
    return out


BIN_EPS.append(BinEP("btclib.psbt.psbt_view.PsbtView", lambda a, cv, x: _drive_view(a), ("psbt",), has_cv=False, reads_all=True))
BIN_BY_KEY = {e.key: e for e in BIN_EPS}
assert len(BIN_BY_KEY) == len(BIN_EPS)


def bin_eps_for(kind: str) -> list[BinEP]:
    return [e for e in BIN_EPS if kind in e.kinds]


# entry points the walk finds that are driven by another sub-check (text / json) are listed in C19.py; the ones nobody drives:
NOT_DRIVEN: dict[str, str] = {
    "btclib.p2p.block_filters._FilterRangeRequest.parse": "private base class; driven through GetCFilters.parse and GetCFHeaders.parse",
    "btclib.p2p.inventory._InventoryPayload.parse": "private base class; driven through Inv/GetData/NotFound.parse",
    "btclib.p2p.inventory._LocatorPayload.parse": "private base class; driven through GetBlocks/GetHeaders.parse",
    "btclib.p2p.keepalive._NoncePayload.parse": "private base class; driven through Ping/Pong.parse",
    "btclib.descriptors.miniscript._Decoder.decode": "private helper of from_script, which is driven",
}


# ------------------------------------------------------------------------------------------------ text entry points
from btclib import bip44, bip85, silent_payments, slip132, to_prv_key, to_pub_key, tx_or_psbt  # noqa: E402
from btclib.mnemonic import bip39, dispatch, electrum, slip39  # noqa: E402
from btclib.mnemonic import mnemonic as mnemonic_mod  # noqa: E402
from btclib.wallet.descriptor_wallet import DescriptorWallet  # noqa: E402

ROOT_XPRV = "xprv9s21ZrQH143K3QTDL4LXw2F7HEK3wJUD2nW2nRk4stbPy6cq3jPPqjiChkVvvNKmPGJxWUtg6LnF5kejMRNNU3TGtRBeJgk33yuGBxrMPHi"
NETWORKS = ("mainnet", "testnet", "regtest", "signet")
LANGS = ("en", "es", "fr", "it", "ja", "ko", "pt", "cs", "zh-hans", "zh-hant", "tr")


@dataclass
class TextEP:
    name: str
    call: Callable  # (text, check_validity, extra) -> object
    kinds: tuple  # text seed kinds
    frames: tuple = ()  # re-framings that apply: "b58check", "bech32", "desc", "b64:<binkind>", "hex:<binkind>"
    has_cv: bool = False
    variants: tuple = (None,)
    str_only: bool = False  # annotated str (not String): bytes are not a declared type
    key: str = ""

    def __post_init__(self):
        self.key = self.key or self.name.replace("btclib.", "")


def _t(f):
    return lambda s, cv, x: f(s)


def _tcv(f):
    return lambda s, cv, x: f(s, check_validity=cv)


TEXT_EPS: list[TextEP] = [
    TextEP("btclib.base58.decode", lambda s, cv, x: base58.decode(s, x), ("address", "wif", "xkey"), ("b58check",), variants=(None, 21, 78, 0)),
    TextEP("btclib.bech32.decode", lambda s, cv, x: bech32.decode(s, x), ("address", "sp_address"), ("bech32",), variants=(None, 1, 0x2BC830A3, 0)),
    TextEP("btclib.b32.witness_from_address", _t(b32.witness_from_address), ("address",), ("bech32",)),
    TextEP("btclib.b58.h160_from_address", _t(b58.h160_from_address), ("address",), ("b58check",)),
    TextEP("btclib.bip21.Bip21.parse", _tcv(bip21.Bip21.parse), ("uri",), has_cv=True, str_only=True),
    TextEP("btclib.bip32.bip32.BIP32KeyData.b58decode", _tcv(BIP32KeyData.b58decode), ("xkey",), ("b58check",), has_cv=True),
    TextEP("btclib.bip32.der_path.int_from_index_str", lambda s, cv, x: der_path.int_from_index_str(s, bip380_enforced=x), ("index_str",), variants=(False, True), str_only=True),
    TextEP("btclib.bip32.der_path.indexes_from_der_path", lambda s, cv, x: der_path.indexes_from_der_path(s, bip380_enforced=x), ("der_path",), variants=(False, True), str_only=True),
    TextEP("btclib.bip32.der_path.hardenings_from_der_path", lambda s, cv, x: der_path.hardenings_from_der_path(s, bip380_enforced=x), ("der_path",), variants=(False, True), str_only=True),
    TextEP("btclib.bip32.der_path.str_from_der_path", lambda s, cv, x: der_path.str_from_der_path(s, x), ("der_path",), variants=(None, "deadbeef", b"\x00" * 4), str_only=True),
    TextEP("btclib.bip32.der_path.bytes_from_der_path", _t(der_path.bytes_from_der_path), ("der_path",), str_only=True),
    TextEP("btclib.bip32.key_origin.BIP32KeyOrigin.from_description", _tcv(BIP32KeyOrigin.from_description), ("origin",), has_cv=True, str_only=True),
    TextEP("btclib.bip322.Sig.b64decode", _tcv(bip322.Sig.b64decode), ("bip322_sig",), ("b64:bip322",), has_cv=True),
    TextEP("btclib.ecc.bms.Sig.b64decode", _tcv(bms.Sig.b64decode), ("bms_sig_b64",), ("b64:bms_sig",), has_cv=True),
    TextEP("btclib.ecc.ecies.Envelope.b64decode", _tcv(ecies.Envelope.b64decode), ("envelope_b64",), ("b64:envelope",), has_cv=True),
    TextEP("btclib.psbt.psbt.Psbt.b64decode", _tcv(Psbt.b64decode), ("psbt_b64",), ("b64:psbt",), has_cv=True),
    TextEP("btclib.tx_or_psbt.tx_or_psbt_from_any", _tcv(tx_or_psbt.tx_or_psbt_from_any), ("psbt_b64", "tx_hex"), ("b64:psbt", "hex:tx", "hex:psbt"), has_cv=True),
    TextEP("btclib.bip44.address_from_der_path", lambda s, cv, x: bip44.address_from_der_path(ROOT_XPRV, s, x), ("bip44_path", "der_path"), variants=(None,), str_only=True),
    TextEP("btclib.bip85.entropy_from_der_path", lambda s, cv, x: bip85.entropy_from_der_path(ROOT_XPRV, s), ("bip85_path", "der_path"), str_only=True),
    TextEP("btclib.bip85.drng_from_der_path", lambda s, cv, x: bip85.drng_from_der_path(ROOT_XPRV, s), ("bip85_path", "der_path"), str_only=True),
    TextEP("btclib.descriptors.descriptors.parse", lambda s, cv, x: descriptors.parse(s, x), ("descriptor", "descriptor_invalid"), ("desc",), variants=NETWORKS, str_only=True),
    TextEP("btclib.descriptors.descriptors.checksum", _t(descriptors.checksum), ("descriptor", "descriptor_invalid"), str_only=True),
    TextEP("btclib.descriptors.descriptors.from_address", _t(descriptors.from_address), ("address",), ("b58check", "bech32"), str_only=True),
    TextEP("btclib.descriptors.miniscript.parse", lambda s, cv, x: miniscript.parse(s, x), ("miniscript", "miniscript_invalid"), variants=("P2WSH", "tapscript"), str_only=True),
    TextEP("btclib.wallet.descriptor_wallet.DescriptorWallet.from_descriptor", lambda s, cv, x: DescriptorWallet.from_descriptor(s, x), ("descriptor",), ("desc",), variants=NETWORKS, str_only=True),
    TextEP("btclib.script.script_pub_key.ScriptPubKey.from_address", _tcv(ScriptPubKey.from_address), ("address",), ("b58check", "bech32"), has_cv=True),
    TextEP("btclib.tx.tx_out.TxOut.from_address", lambda s, cv, x: TxOut.from_address(x, s), ("address",), ("b58check", "bech32"), variants=(0, 1, 21 * 10**14, 21 * 10**14 + 1, -1)),
    TextEP("btclib.silent_payments.keys_from_address", _t(silent_payments.keys_from_address), ("sp_address",), ("bech32",)),
    TextEP("btclib.mnemonic.bip39.lang_from_mnemonic", _t(bip39.lang_from_mnemonic), ("bip39",), frames=("bip39",), str_only=True),
    TextEP("btclib.mnemonic.bip39.entropy_from_mnemonic", lambda s, cv, x: bip39.entropy_from_mnemonic(s, x), ("bip39",), variants=(None, *LANGS), frames=("bip39",), str_only=True),
    TextEP("btclib.mnemonic.bip39.seed_from_mnemonic", lambda s, cv, x: bip39.seed_from_mnemonic(s, "", x), ("bip39_short",), variants=(True, False), frames=("bip39",), str_only=True),
    TextEP("btclib.mnemonic.bip39.mxprv_from_mnemonic", lambda s, cv, x: bip39.mxprv_from_mnemonic(s, None, "mainnet", x), ("bip39_short",), variants=(True, False), frames=("bip39",), str_only=True),
    TextEP("btclib.mnemonic.dispatch.all_seed_types_from_mnemonic", lambda s, cv, x: dispatch.all_seed_types_from_mnemonic(s, x), ("bip39", "electrum", "slip39"), variants=LANGS, frames=("bip39",), str_only=True),
    TextEP("btclib.mnemonic.dispatch.seed_type_from_mnemonic", lambda s, cv, x: dispatch.seed_type_from_mnemonic(s, x), ("bip39", "electrum", "slip39"), variants=LANGS, frames=("bip39",), str_only=True),
    TextEP("btclib.mnemonic.electrum.version_from_mnemonic", _t(electrum.version_from_mnemonic), ("electrum",), str_only=True),
    TextEP("btclib.mnemonic.electrum.lang_from_mnemonic", _t(electrum.lang_from_mnemonic), ("electrum",), str_only=True),
    TextEP("btclib.mnemonic.electrum.entropy_from_mnemonic", lambda s, cv, x: electrum.entropy_from_mnemonic(s, x), ("electrum",), variants=(None, *LANGS), str_only=True),
    TextEP("btclib.mnemonic.electrum.mxprv_from_mnemonic", _t(electrum.mxprv_from_mnemonic), ("electrum_short",), str_only=True),
    TextEP("btclib.mnemonic.electrum.old_mnemonic_from_hex_seed", _t(electrum.old_mnemonic_from_hex_seed), ("hex",), str_only=True),
    TextEP("btclib.mnemonic.electrum.hex_seed_from_old_mnemonic", _t(electrum.hex_seed_from_old_mnemonic), ("electrum_old",), str_only=True),
    TextEP("btclib.mnemonic.electrum.old_master_prv_key_from_mnemonic", _t(electrum.old_master_prv_key_from_mnemonic), ("electrum_old_short",), str_only=True),
    TextEP("btclib.mnemonic.electrum.old_master_pub_key_from_mnemonic", _t(electrum.old_master_pub_key_from_mnemonic), ("electrum_old_short",), str_only=True),
    TextEP("btclib.mnemonic.mnemonic.indexes_from_mnemonic", lambda s, cv, x: mnemonic_mod.indexes_from_mnemonic(s, x), ("bip39", "electrum"), variants=LANGS, frames=("bip39",), str_only=True),
    TextEP("btclib.mnemonic.slip39.share_from_mnemonic", _t(slip39.share_from_mnemonic), ("slip39",), str_only=True),
    TextEP("btclib.mnemonic.slip39.master_secret_from_mnemonics", lambda s, cv, x: slip39.master_secret_from_mnemonics(s if isinstance(s, list) else [s], x), ("slip39_group",), variants=("", "TREZOR"), str_only=True),
    TextEP("btclib.mnemonic.slip39.mxprv_from_mnemonics", lambda s, cv, x: slip39.mxprv_from_mnemonics(s if isinstance(s, list) else [s]), ("slip39_group",), str_only=True),
    # decoders of keys whose names the walk's word list does not hold: WIF / xkey / SEC text and octets
    TextEP("btclib.to_prv_key.int_from_prv_key", _t(to_prv_key.int_from_prv_key), ("wif", "xkey", "hex"), ("b58check",)),
    TextEP("btclib.to_prv_key.prv_keyinfo_from_prv_key", lambda s, cv, x: to_prv_key.prv_keyinfo_from_prv_key(s, *x), ("wif", "xkey", "hex"), ("b58check",), variants=((), (), (), ("mainnet",), ("testnet", True), (None, False))),
    TextEP("btclib.to_pub_key.point_from_key", _t(to_pub_key.point_from_key), ("wif", "xkey", "hex"), ("b58check", "hex:point")),
    TextEP("btclib.to_pub_key.pub_keyinfo_from_key", lambda s, cv, x: to_pub_key.pub_keyinfo_from_key(s, *x), ("wif", "xkey", "hex"), ("b58check", "hex:point"), variants=((), ("mainnet",), ("testnet", True), (None, False))),
    TextEP("btclib.slip132.address_from_xkey", _t(slip132.address_from_xkey), ("xkey",), ("b58check",)),
    TextEP("btclib.bip32.bip32.xpub_from_xprv", _t(bip32mod.xpub_from_xprv), ("xkey",), ("b58check",)),
    TextEP("btclib.bip32.bip32.derive", lambda s, cv, x: bip32mod.derive(s, x), ("xkey",), ("b58check",), variants=("m/0", "m/0h", [1, 2], 0x80000000, b"\x00\x00\x00\x01")),
]
TEXT_EPS.append(TextEP("btclib.utils.str_from_string", lambda s, cv, x: __import__("btclib.utils", fromlist=["x"]).str_from_string(s, "text"), ("hex", "address")))
TEXT_BY_KEY = {e.key: e for e in TEXT_EPS}
assert len(TEXT_BY_KEY) == len(TEXT_EPS)


# ------------------------------------------------------------------------------------------------ JSON entry points
from btclib.network import Network  # noqa: E402

JSON_EPS: dict[str, Callable] = {
    "btclib.tx.out_point.OutPoint.from_dict": OutPoint.from_dict,
    "btclib.tx.tx_in.TxIn.from_dict": TxIn.from_dict,
    "btclib.tx.tx_out.TxOut.from_dict": TxOut.from_dict,
    "btclib.tx.tx.Tx.from_dict": Tx.from_dict,
    "btclib.script.witness.Witness.from_dict": Witness.from_dict,
    "btclib.block.block_header.BlockHeader.from_dict": BlockHeader.from_dict,
    "btclib.block.block.Block.from_dict": Block.from_dict,
    "btclib.psbt.psbt.Psbt.from_dict": Psbt.from_dict,
    "btclib.psbt.psbt_in.PsbtIn.from_dict": PsbtIn.from_dict,
    "btclib.psbt.psbt_out.PsbtOut.from_dict": PsbtOut.from_dict,
    "btclib.bip32.key_origin.BIP32KeyOrigin.from_dict": BIP32KeyOrigin.from_dict,
    "btclib.network.Network.from_dict": Network.from_dict,
    "btclib.bip32.key_origin.decode_from_bip32_derivs": key_origin.decode_from_bip32_derivs,
    "btclib.bip32.key_origin.decode_hd_key_paths": lambda d, check_validity=True: key_origin.decode_hd_key_paths(d),
    "btclib.psbt.psbt_utils.taproot_bip32_from_dict": psbt_utils.taproot_bip32_from_dict,
    "btclib.psbt.psbt_utils.decode_dict_bytes_bytes": lambda d, check_validity=True: psbt_utils.decode_dict_bytes_bytes(d),
    "btclib.psbt.psbt_utils.decode_leaf_scripts": lambda d, check_validity=True: psbt_utils.decode_leaf_scripts(d),
    "btclib.psbt.psbt_utils.decode_taproot_tree": lambda d, check_validity=True: psbt_utils.decode_taproot_tree(d),
    "btclib.psbt.psbt_utils.decode_taproot_bip32": lambda d, check_validity=True: psbt_utils.decode_taproot_bip32(d),
    "btclib.psbt.psbt_utils.decode_musig2_participant_pub_keys": lambda d, check_validity=True: psbt_utils.decode_musig2_participant_pub_keys(d),
    "btclib.script.script.script_from_dict": lambda d, check_validity=True: script.script_from_dict(d),
}


def driven_names() -> set[str]:
    return {e.name for e in BIN_EPS} | {e.name for e in TEXT_EPS} | set(JSON_EPS)


def assert_table_complete() -> dict[str, str]:
    """Every callable the walk calls a parser is driven or carries a reason. Returns the not-driven table (for the evidence)."""
    from vlib.runner import HarnessError

    found = candidates()
    missing = sorted(set(found) - driven_names() - set(NOT_DRIVEN))
    if missing:
        raise HarnessError(f"parse/decode entry points the table does not know (add an adapter or a reason): {missing}")
    stale = sorted(n for n in driven_names() if n not in found and not _resolves(n))
    if stale:
        raise HarnessError(f"table entries that no longer resolve to a callable: {stale}")
    return NOT_DRIVEN


def _resolves(name: str) -> bool:
    parts = name.split(".")
    for i in range(len(parts) - 1, 0, -1):
        try:
            obj = importlib.import_module(".".join(parts[:i]))
        except ImportError:
            continue
        try:
            for p in parts[i:]:
                obj = getattr(obj, p)
        except AttributeError:
            return False
        return callable(obj)
    return False
