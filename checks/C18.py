"""C18 — sizes, fees and amounts are exact integer accounting."""

from __future__ import annotations

import copy
from decimal import Decimal
from fractions import Fraction

from hypothesis import strategies as st

from btclib.amount import btc_from_sats, sats_from_btc, valid_btc_amount, valid_sats_amount
from btclib.exceptions import BTClibRuntimeError, BTClibTypeError, BTClibValueError
from btclib.fee import DUST_RELAY_FEE_RATE, FeeRate, dust_threshold, fee_from_vsize, package_fee
from btclib.psbt.psbt import Psbt, extract_tx
from btclib.script.witness import Witness
from btclib.tx import OutPoint, Tx, TxIn, TxOut
from btclib.tx.tx_in import input_weight
from btclib.tx_builder import build_psbt
from vlib import build, worlds
from vlib.gens import common as g
from vlib.models import tx_ref
from vlib.runner import HarnessError, Outcome, SubCheck, Violation

PROPERTY = "C18"
LEVEL = "exploration"
RULE = (
    "Generated transactions and blocks whose script, witness-item and count sizes sit on the CompactSize boundaries (252/253, 65535/65536) against an independent wire model; "
    "wallet worlds of 13 descriptor kinds signed by the library's own roles (estimate before signing vs weight after); funded PSBTs whose amounts are placed within 2 satoshi of the "
    "fee / dust decision thresholds, at integer and decimal rates; fee, dust and amount arithmetic against fractions.Fraction."
)
ASSUMPTIONS = [
    "vlib/models/tx_ref.py (independent serializer, validated in C05/C09 on Core vectors) defines 'the serialization a size describes'",
    "dust model is Core's GetDustThreshold with a ceiling fee (the library documents exact ceiling division); witness program = 4..42 bytes, OP_0/OP_1..16, one push of the rest",
    "funding decisions are checked against build_psbt's documented rule, with the no-change size taken from the library's own estimate of a psbt made by Psbt.from_tx (the estimate itself is checked by estimate_dominates)",
]
LIBEXC = (BTClibValueError, BTClibTypeError, BTClibRuntimeError)
MAX_MONEY = 21_000_000 * 100_000_000


def dec(units: int, places: int = 8) -> Decimal:
    """units / 10**places as a Decimal built from its digits: exact whatever the ambient decimal context is."""
    sign = "-" if units < 0 else ""
    whole, frac = divmod(abs(units), 10**places)
    return Decimal(f"{sign}{whole}.{frac:0{places}d}")


# the ambient decimal context is the caller's, and "what a caller has set that to is no business of a fee rate" (btclib/fee.py):
# every arithmetic sub-check runs under a generated one (None = Python's default: 28 digits, ROUND_HALF_EVEN)
CONTEXTS = [None, None, None, {"prec": 50}, {"prec": 16}, {"prec": 12}, {"prec": 9}, {"prec": 6}, {"prec": 3}, {"prec": 1}, {"prec": 28, "rounding": "ROUND_DOWN"}, {"prec": 28, "inexact": True}, {"prec": 7, "rounding": "ROUND_UP", "inexact": True}]


class ambient:
    def __init__(self, spec):
        self.spec = spec

    def __enter__(self):
        import decimal

        self.cm = decimal.localcontext()
        ctx = self.cm.__enter__()
        if self.spec:
            ctx.prec = self.spec["prec"]
            if "rounding" in self.spec:
                ctx.rounding = getattr(decimal, self.spec["rounding"])
            if self.spec.get("inexact"):
                ctx.traps[decimal.Inexact] = True
        return ctx

    def __exit__(self, *a):
        return self.cm.__exit__(*a)


def ctx_tag(spec):
    return "ctx=default" if not spec else f"ctx=prec{spec['prec']}" + ("+trap" if spec.get("inexact") else "") + ("+" + spec["rounding"][6:].lower() if "rounding" in spec else "")


def cs_len(n: int) -> int:
    return len(tx_ref.compact_size(n))


def ceil_div(a: int, b: int) -> int:
    return -(-a // b)


def crosses(n: int) -> bool:
    return n >= 0xFD


# ---------------------------------------------------------------- 1. transaction sizes
SIZES = [0, 1, 75, 76, 252, 253, 254, 255, 256, 520, 521, 10000]
BIG = [65535, 65536, 65537]


@st.composite
def sized_tx_case(draw):
    case = draw(g.valid_tx_case(max_in=4, max_out=4, big_scripts=True, big_counts=draw(st.integers(0, 5)) == 0))
    mode = draw(st.sampled_from(["plain", "plain", "big-ss", "big-wit", "big-spk", "no-witness", "many-items", "huge-count"]))
    if mode == "big-ss":
        case["vin"][0]["script_sig"] = "51" * draw(st.sampled_from(BIG))
    elif mode == "big-wit":
        case["vin"][0]["witness"] = ["ab" * draw(st.sampled_from(BIG)), "cd"]
    elif mode == "big-spk":
        case["vout"][0]["spk"] = "6a" + "00" * (draw(st.sampled_from(BIG)) - 1)
    elif mode == "no-witness":
        for i in case["vin"]:
            i["witness"] = []
    elif mode == "many-items":
        case["vin"][-1]["witness"] = [draw(st.sampled_from(["", "00", "aa" * 253]))] * draw(st.sampled_from([252, 253, 254, 300]))
    elif mode == "huge-count" and draw(st.integers(0, 7)) == 0:
        n = draw(st.sampled_from(BIG))
        which = draw(st.sampled_from(["vout", "witness"]))
        if which == "vout":
            case["vout"] = [{"value": 1, "spk": "51"}] * n
        else:
            case["vin"][0]["witness"] = [""] * n
    case["mode"] = mode
    return case


def _tx_size_facts(case, tags):
    """Model sizes of a tx dict and whether any length or count sits at >= 253."""
    total = len(tx_ref.serialize(case, True))
    stripped = len(tx_ref.serialize(case, False))
    lens = [len(case["vin"]), len(case["vout"])]
    for i in case["vin"]:
        lens.append(len(i["script_sig"]) // 2)
        lens.append(len(i["witness"]))
        lens += [len(w) // 2 for w in i["witness"]]
    lens += [len(o["spk"]) // 2 for o in case["vout"]]
    return total, stripped, any(crosses(n) for n in lens), any(n >= 0x10000 for n in lens)


def check_tx_sizes(case):
    mode = case.get("mode", "plain")
    tx = build.tx(case, check_validity=False)
    total, stripped, crossing, wide = _tx_size_facts(case, None)
    seg = tx_ref.has_witness(case)
    got_total = tx.serialize(include_witness=True, check_validity=False)
    got_stripped = tx.serialize(include_witness=False, check_validity=False)
    if len(got_total) != total or len(got_stripped) != stripped:
        raise Violation("tx_sizes:serialization-length-vs-model", f"lib {len(got_total)}/{len(got_stripped)} model {total}/{stripped}")
    if tx.size != total:
        raise Violation("tx_sizes:size-not-serialization-length", f"size {tx.size} bytes {total} mode={mode}")
    want_w = 3 * stripped + total
    if tx.weight != want_w:
        raise Violation("tx_sizes:weight", f"weight {tx.weight} want {want_w} (stripped {stripped}, total {total})")
    if tx.vsize != ceil_div(want_w, 4):
        raise Violation("tx_sizes:vsize", f"vsize {tx.vsize} want {ceil_div(want_w, 4)} weight {want_w}")
    if bool(tx.is_segwit) != seg:
        raise Violation("tx_sizes:is_segwit", f"{tx.is_segwit} model {seg}")
    # input_weight: BIP141 weight one input adds; summing them with the fixed part gives the weight
    fixed = 4 * (4 + cs_len(len(case["vin"])) + cs_len(len(case["vout"])) + sum(8 + cs_len(len(o["spk"]) // 2) + len(o["spk"]) // 2 for o in case["vout"]) + 4) + (2 if seg else 0)
    acc = fixed
    for i in case["vin"]:
        ss = bytes.fromhex(i["script_sig"])
        wit = Witness([bytes.fromhex(w) for w in i["witness"]], check_validity=False) if seg else None
        iw = input_weight(ss, wit)
        want = 4 * (36 + cs_len(len(ss)) + len(ss) + 4) + (len(tx_ref.ser_witness(i["witness"])) if seg else 0)
        if iw != want:
            raise Violation("tx_sizes:input_weight", f"input_weight {iw} want {want} ss={len(ss)} witness={[len(w) // 2 for w in i['witness']][:5]} seg={seg}")
        acc += iw
    if acc != want_w:
        raise HarnessError(f"input weights do not add up in the model: {acc} {want_w}")
    return Outcome(crossing, (mode, f"segwit={seg}", f"crossing={crossing}", f"wide={wide}"))


# ---------------------------------------------------------------- 2. block sizes
@st.composite
def sized_block_case(draw):
    ntx = draw(st.sampled_from([0, 1, 2, 3, 5, 251, 252, 253]))
    if ntx > 5:
        base = draw(g.valid_tx_case(max_in=1, max_out=1))
        txs = []
        for k in range(ntx):
            t = copy.deepcopy(base)
            t["lock_time"] = k
            if k % 7:
                t["vin"][0]["witness"] = []
            txs.append(t)
    else:
        txs = [draw(g.valid_tx_case(max_in=2, max_out=3, big_scripts=True)) for _ in range(ntx)]
    return {"txs": txs, "seed": draw(st.integers(0, 2**32)), "commit": draw(st.booleans())}


def check_block_sizes(case):
    from checks.C17 import make_block

    block, txs, hdr = make_block(case["txs"], case["seed"], case["commit"])
    n = len(txs)
    total = 80 + cs_len(n) + sum(len(tx_ref.serialize(t, True)) for t in txs)
    stripped = 80 + cs_len(n) + sum(len(tx_ref.serialize(t, False)) for t in txs)
    raw = block.serialize(include_witness=True, check_validity=False)
    raw_s = block.serialize(include_witness=False, check_validity=False)
    if len(raw) != total or len(raw_s) != stripped:
        raise Violation("block_sizes:serialization-length-vs-model", f"lib {len(raw)}/{len(raw_s)} model {total}/{stripped}")
    if block.size != total:
        raise Violation("block_sizes:size-not-serialization-length", f"size {block.size} bytes {total} n={n}")
    if block.stripped_size != stripped:
        raise Violation("block_sizes:stripped_size", f"{block.stripped_size} bytes {stripped} n={n}")
    if block.weight != 3 * stripped + total:
        raise Violation("block_sizes:weight", f"{block.weight} want {3 * stripped + total}")
    if block.vsize != ceil_div(3 * stripped + total, 4):
        raise Violation("block_sizes:vsize", f"{block.vsize} want {ceil_div(3 * stripped + total, 4)}")
    for t_obj, t in zip(block.transactions, txs):
        tt, ts = len(tx_ref.serialize(t, True)), len(tx_ref.serialize(t, False))
        if t_obj.size != tt or t_obj.weight != 3 * ts + tt or t_obj.vsize != ceil_div(3 * ts + tt, 4):
            raise Violation("block_sizes:member-tx-size", f"{t_obj.size}/{t_obj.weight}/{t_obj.vsize} want {tt}/{3 * ts + tt}")
    seg = any(tx_ref.has_witness(t) for t in txs)
    return Outcome(n >= 2, (f"txs={'253+' if n >= 253 else ('6..252' if n > 5 else n)}", f"segwit={seg}", f"crossing={crosses(n)}"))


# ---------------------------------------------------------------- 3. estimate >= actual
@st.composite
def estimate_case(draw, kinds=None):
    return {"world": draw(worlds.world_case(max_inputs=4, kinds=kinds))}


def _actual(result):
    raw = bytes.fromhex(result["tx_hex"])
    t = tx_ref.parse(raw)
    return t, 3 * len(tx_ref.serialize(t, False)) + len(raw)


def check_estimate(case):
    world = case["world"]
    result = worlds.run_world(world)
    kinds = sorted(set(result["kinds"]))
    if not result["ok"]:
        # that the library signs and finalizes every generated world is C10's property (and reported there): here a refused world has no weight to compare
        return Outcome(False, (f"world-refused:{result.get('stage')}",))
    if result["estimated_weight"] is None:
        return Outcome(False, ("no-estimate: " + str(result.get("estimate_error")).split(":")[0][:40],))  # nothing estimated, nothing that can be below the signed weight
    t, weight = _actual(result)
    est = result["estimated_weight"]
    if est < weight:
        raise Violation("estimate:below-actual", f"estimate {est} < signed weight {weight}; kinds={result['kinds']}")
    # the library's own numbers for the same objects
    unsigned = Psbt.b64decode(result["unsigned_psbt_b64"])
    final = Psbt.b64decode(result["finalized_psbt_b64"])
    signed_tx = extract_tx(final)
    if signed_tx.weight != weight or signed_tx.vsize != ceil_div(weight, 4):
        raise Violation("estimate:signed-tx-weight-vs-model", f"{signed_tx.weight}/{signed_tx.vsize} model {weight}")
    try:
        final_est = final.weight_estimate()
    except LIBEXC:
        final_est = None  # the property speaks of the unsigned psbt: whether a finalized one is estimated at all is not asked
    if final_est is not None and final_est < weight:
        raise Violation("estimate:finalized-estimate-below-actual", f"{final_est} < {weight} kinds={result['kinds']}")
    simple = all(i.get("sizer") is None for i in world["inputs"])
    if simple:
        if unsigned.estimated_weight != est:
            raise Violation("estimate:property-vs-method", f"estimated_weight {unsigned.estimated_weight} weight_estimate {est}")
        if unsigned.estimated_vsize != ceil_div(est, 4):
            raise Violation("estimate:vsize-not-ceil-of-weight", f"{unsigned.estimated_vsize} weight {est}")
    slack = est - weight
    n_in = len(world["inputs"])
    return Outcome(True, tuple(f"kind={k}" for k in kinds) + (f"slack/input<={min(8, slack // n_in)}", f"final-exact={final_est == weight}", f"psbt-v{world['psbt_version']}"))


# ---------------------------------------------------------------- 4. funding, end to end
def is_witness_program(spk: bytes) -> bool:
    return 4 <= len(spk) <= 42 and (spk[0] == 0 or 0x51 <= spk[0] <= 0x60) and spk[1] == len(spk) - 2


def dust_model(spk: bytes, kvb: int) -> int:
    if spk[:1] == b"\x6a" or len(spk) > 10000:
        return 0
    size = 8 + cs_len(len(spk)) + len(spk) + ((32 + 4 + 1 + 107 // 4 + 4) if is_witness_program(spk) else (32 + 4 + 1 + 107 + 4))
    return ceil_div(kvb * size, 1000)


CHANGE_SCRIPTS = [
    "0014" + "c1" * 20,
    "0020" + "c2" * 32,
    "5120" + "c3" * 32,
    "76a914" + "c4" * 20 + "88ac",
    "a914" + "c5" * 20 + "87",
    "51",
    "6a",
    "6a04deadbeef",
    "",
    "5128" + "c6" * 40,
    "0014" + "c7" * 19,
    "21" + "02" + "c8" * 32 + "ac",
    "6002" + "c9c9",
]
RATES = [1000, 0, 1, 999, 1000, 1001, 1234, 2500, 3000, 10_000, 99_999, 250_000, 1_000_000]


def rate_strategy():
    return st.one_of(st.sampled_from(RATES), st.integers(0, 20_000), st.integers(0, 10**7))


@st.composite
def funding_case(draw, kinds=None):
    # the small draws come first: a world is many draws, and what follows it is what an exhausted example buffer zero-fills
    head = {
        "kvb": draw(rate_strategy()),
        "dust_kvb": draw(st.sampled_from([3000, 3000, 3000, 0, 1000, 30_000])),
        "change": draw(st.one_of(st.none(), st.sampled_from(CHANGE_SCRIPTS), st.sampled_from(CHANGE_SCRIPTS[:5]))),
        "target": draw(st.sampled_from(["dust", "dust", "dust", "fee", "fee", "fee", "free", "free", "overspend"])),
        "delta": draw(st.sampled_from([-2, -1, 0, 0, 1, 1, 2, 3])),
    }
    world = draw(worlds.world_case(max_inputs=3, kinds=kinds))
    if world["psbt_version"] == 2 and head["change"] == "":
        head["change"] = CHANGE_SCRIPTS[0]  # P11: a v2 psbt output needs a non-empty script
    world["required_locktimes"] = False  # a v2-only input field; build_psbt answers a v0 psbt (converted afterwards when the world asks v2)
    return {"world": world, **head}


def _steer(case, w0, total_in):
    """Place the last output so that the remainder sits `delta` away from the threshold the target names.
    Returns the world (with amounts adjusted) and the remainder."""
    world = copy.deepcopy(case["world"])
    outs = world["outputs"]
    others = sum(o["amount"] for o in outs[:-1])
    change = case["change"]
    v0 = ceil_div(w0, 4)
    fee0 = ceil_div(case["kvb"] * v0, 1000)
    if change is not None:
        spk = bytes.fromhex(change)
        v1 = ceil_div(w0 + 4 * (8 + cs_len(len(spk)) + len(spk)), 4)
        fee1 = ceil_div(case["kvb"] * v1, 1000)
        dust = dust_model(spk, case["dust_kvb"])
    target = case["target"]
    if target == "dust" and change is not None:
        want_remainder = fee1 + dust + case["delta"]
    elif target in ("fee", "dust"):
        want_remainder = fee0 + case["delta"]
    elif target == "overspend":
        want_remainder = -1 - abs(case["delta"])
    else:
        want_remainder = None
    if want_remainder is not None:
        amount = total_in - others - want_remainder
        if 0 <= amount <= MAX_MONEY and others + amount <= MAX_MONEY:
            outs[-1]["amount"] = amount
    return world, total_in - sum(o["amount"] for o in outs)


def check_funding(case):
    world0 = case["world"]
    total_in = sum(i["amount"] for i in world0["inputs"])
    kinds = sorted({i["kind"] for i in world0["inputs"]})
    # pass 1: the library's estimate of the payment-only psbt (Psbt.from_tx path); amounts do not enter a size
    base = worlds.run_world({**world0, "stop_after": "estimate"})
    if not base["ok"] or base["estimated_weight"] is None:
        return Outcome(False, (f"base-world-refused:{base.get('stage') or 'estimate'}",))  # C10's to report; nothing to fund
    w0 = base["estimated_weight"]
    world, remainder = _steer(case, w0, total_in)
    change = case["change"]
    kvb, dust_kvb = case["kvb"], case["dust_kvb"]
    # expected decision (build_psbt's documented rule)
    v0 = ceil_div(w0, 4)
    fee0 = ceil_div(kvb * v0, 1000)
    expect = None
    if change is not None:
        spk = bytes.fromhex(change)
        v1 = ceil_div(w0 + 4 * (8 + cs_len(len(spk)) + len(spk)), 4)
        fee1 = ceil_div(kvb * v1, 1000)
        dust = dust_model(spk, dust_kvb)
        if remainder - fee1 >= dust:
            expect = ("change", fee1, remainder - fee1)
    plain = ("nochange", remainder, 0) if remainder >= fee0 else ("refuse", None, None)
    if expect is None:
        expect = plain
    # the decisions the property allows besides the documented one: exactly on the threshold a change worth `dust` may be made or folded into the fee
    # (the docstrings say ">= " in one place and "more than" in another), and a change script whose threshold is zero (an OP_RETURN, a zero dust rate)
    # may be paid, skipped or refused
    allowed = {expect}
    if expect[0] == "change" and (expect[2] == dust or dust == 0):
        allowed.add(plain)
    if expect[0] == "change" and dust == 0:
        allowed.add(("refuse", None, None))
    funded_world = {**world, "funding": {"sats_per_kvbyte": kvb, "dust_sats_per_kvbyte": dust_kvb, "change_script": change}}
    # SIGHASH_SINGLE of a taproot input needs its own output: a change output may provide it, nothing is lost by keeping P2
    result = worlds.run_world(funded_world)
    tags = [f"expect={expect[0]}", f"target={case['target']}", f"change-script={'none' if change is None else ('segwit' if is_witness_program(bytes.fromhex(change)) else 'other')}", f"rate={'0' if kvb == 0 else ('<1sat/vb' if kvb < 1000 else ('frac' if kvb % 1000 else 'int'))}"]
    near = any(abs(remainder - thr) <= 2 for thr in ([fee0] + ([fee1 + dust] if change is not None else [])))  # from the numbers, not from what the recipe aimed at
    tags.append(f"steered={near}")
    if not result["ok"]:
        if result.get("stage") != "funding":
            return Outcome(False, tuple(tags) + (f"funded-world-refused:{result.get('stage')}",))  # a later role's refusal: C10's to report
        if "BTClibValueError" not in result.get("error_classes", [result["error"].split(":")[0]]):
            raise Violation("funding:refusal-is-not-a-value-error", result["error"])
        if ("refuse", None, None) not in allowed:
            raise Violation(f"funding:refused-what-the-inputs-cover:{expect[0]}", f"{result['error']}; remainder {remainder} fee0 {fee0} expect {expect} kvb {kvb}")
        return Outcome(near, tuple(tags) + ("refused",))
    f = result["funded"]
    if allowed == {("refuse", None, None)}:
        raise Violation("funding:funded-what-the-inputs-do-not-cover", f"remainder {remainder} < owed {fee0}; got fee {f['fee']} change {f['change']}")
    t, weight = _actual(result)
    vsize = ceil_div(weight, 4)
    outs_total = sum(o["value"] for o in t["vout"])
    prev_total = sum(p["value"] for p in result["prevouts"])
    if prev_total != total_in:
        raise HarnessError("prevouts do not add up to the recipe's amounts")
    if prev_total != outs_total + f["fee"]:
        raise Violation("funding:value-not-conserved", f"inputs {prev_total} outputs {outs_total} reported fee {f['fee']} change {f['change']}")
    if f["fee"] < 0:
        raise Violation("funding:negative-fee", str(f))
    if f["fee"] < ceil_div(kvb * vsize, 1000):
        raise Violation("funding:below-requested-rate-on-final-vsize", f"fee {f['fee']} final vsize {vsize} rate {kvb} sat/kvB owes {ceil_div(kvb * vsize, 1000)}")
    n_pay = len(world["outputs"])
    if f["change_index"] is None:
        if len(t["vout"]) != n_pay or f["change"] != 0:
            raise Violation("funding:no-change-index-but-an-extra-output", f"{len(t['vout'])} outputs for {n_pay} payments, change {f['change']}")
    else:
        if not 0 <= f["change_index"] <= n_pay or len(t["vout"]) != n_pay + 1:
            raise Violation("funding:change-index", f"index {f['change_index']} outputs {len(t['vout'])} payments {n_pay}")
        out = t["vout"][f["change_index"]]
        if out["spk"] != change or out["value"] != f["change"]:
            raise Violation("funding:change-output-is-not-the-change", f"{out} vs script {change} amount {f['change']}")
        if out["value"] < dust_model(bytes.fromhex(change), dust_kvb):
            raise Violation("funding:dust-change-created", f"change {out['value']} < dust {dust_model(bytes.fromhex(change), dust_kvb)} for {change} at {dust_kvb}")
    # payments untouched (the outputs other than the change, in order)
    paid = [o for k, o in enumerate(t["vout"]) if k != f["change_index"]]
    for k, o in enumerate(world["outputs"]):
        if paid[k]["value"] != o["amount"]:
            raise Violation("funding:payment-amount-changed", f"output {k}: {paid[k]['value']} vs {o['amount']}")
    # exact decision
    got = ("change", f["fee"], f["change"]) if f["change_index"] is not None else ("nochange", f["fee"], 0)
    if got not in allowed:
        raise Violation(f"funding:decision:{expect[0]}->{got[0]}", f"expected {expect} got {got}; remainder {remainder} w0 {w0} kvb {kvb} dust_kvb {dust_kvb} change {change}")
    return Outcome(near, tuple(tags) + tuple(f"kind={k}" for k in kinds))


# ---------------------------------------------------------------- 5. funding, direct (no signing): arithmetic edges in bulk
SPK_KINDS = {
    "p2wpkh": "0014" + "a1" * 20,
    "p2tr": "5120" + "79be667ef9dcbbac55a06295ce870b07029bfcdb2dce28d959f2815b16f81798",
    "p2pkh": "76a914" + "a3" * 20 + "88ac",
    "p2sh-p2wpkh": "a914" + "a4" * 20 + "87",
    "p2pk": "21" + "0279be667ef9dcbbac55a06295ce870b07029bfcdb2dce28d959f2815b16f81798" + "ac",
}
# what a signed input of that kind weighs at most, by hand: (script_sig bytes, witness item sizes)
SPEND_MODEL = {
    "p2wpkh": (0, [72, 33]),
    "p2tr": (0, [64]),
    "p2pkh": (1 + 72 + 1 + 33, []),
    "p2sh-p2wpkh": (1 + 22, [72, 33]),
    "p2pk": (1 + 72, []),
}


@st.composite
def direct_case(draw):
    n_in = draw(st.sampled_from([1, 1, 2, 3, 5, 252, 253]))
    kinds = [draw(st.sampled_from(sorted(SPK_KINDS))) for _ in range(min(n_in, 5))]
    big = draw(st.booleans())
    amounts = [draw(st.one_of(st.integers(0, 10**5), st.integers(0, 10**9), st.integers(0, MAX_MONEY // max(n_in, 1)))) if big or k < 5 else 1000 for k in range(n_in)]
    n_out = draw(st.sampled_from([0, 1, 1, 2, 3, 252, 253]))
    out_spks = [draw(st.sampled_from(CHANGE_SCRIPTS + ["00" * 253, "51" * 300])) for _ in range(min(n_out, 4))]
    return {
        "kinds": kinds,
        "n_in": n_in,
        "amounts": amounts,
        "n_out": n_out,
        "out_spks": out_spks,
        "out_amounts": [draw(st.one_of(st.integers(0, 10**4), st.integers(0, 10**8))) for _ in range(min(n_out, 4))],
        "kvb": draw(rate_strategy()),
        "rate_spelling": draw(st.sampled_from(["kvb", "vb-decimal", "vb-str", "btc-kvb"])),
        "dust_kvb": draw(st.sampled_from([3000, 3000, 0, 1, 999, 1001, 30_000])),
        "change": draw(st.one_of(st.none(), st.sampled_from(CHANGE_SCRIPTS))),
        "target": draw(st.sampled_from(["dust", "dust", "fee", "fee", "free", "overspend", "defect"])),
        "delta": draw(st.sampled_from([-2, -1, 0, 0, 1, 2])),
        "defect": draw(st.sampled_from(["dup-outpoint", "no-utxo", "no-inputs"])),
        "tx_version": draw(st.sampled_from([1, 2, 2, 3])),
        "lock_time": draw(st.sampled_from([0, 0, 1, 500_000_000, 0xFFFFFFFF])),
        "sequence": draw(st.sampled_from([None, 0, 0xFFFFFFFD, 0xFFFFFFFF])),
        "ctx": draw(st.sampled_from(CONTEXTS)),
    }


def _rate(case):
    kvb = case["kvb"]
    how = case["rate_spelling"]
    if how == "kvb":
        return FeeRate(sats_per_kvbyte=kvb)
    if how == "vb-decimal":
        return FeeRate.from_sats_per_vbyte(dec(kvb, 3))
    if how == "vb-str":
        return FeeRate.from_sats_per_vbyte(f"{kvb // 1000}.{kvb % 1000:03d}")
    return FeeRate.from_btc_per_kvbyte(dec(kvb))


def check_direct(case):
    with ambient(case.get("ctx")):
        return _check_direct(case)


def _check_direct(case):
    n_in, n_out = case["n_in"], case["n_out"]
    kinds = [case["kinds"][k % len(case["kinds"])] for k in range(n_in)]
    spks = [SPK_KINDS[k] for k in kinds]
    out_spks = [case["out_spks"][k % len(case["out_spks"])] for k in range(n_out)] if n_out else []
    out_amounts = [case["out_amounts"][k % len(case["out_amounts"])] for k in range(n_out)] if n_out else []
    prev_txid = "ab" * 32
    vin = [TxIn(OutPoint(bytes.fromhex(prev_txid), k), sequence=0xFFFFFFFF if case["sequence"] is None else case["sequence"]) for k in range(n_in)]
    template = Psbt.from_tx(Tx(2, 0, vin, [TxOut(0, "51")], check_validity=False), check_validity=False)
    inputs = template.inputs
    redeem = bytes.fromhex("0014" + "a5" * 20)
    for k, psbt_in in enumerate(inputs):
        if case["sequence"] is None:
            psbt_in.sequence = None
        utxo = TxOut(case["amounts"][k], spks[k])
        if kinds[k] in ("p2pkh", "p2pk"):
            psbt_in.non_witness_utxo = Tx(2, 0, [TxIn(OutPoint(b"\x07" * 32, 0), sequence=0xFFFFFFFF)], [TxOut(1, "51")] * k + [utxo], check_validity=False)
        else:
            psbt_in.witness_utxo = utxo
        if kinds[k] == "p2sh-p2wpkh":
            from btclib.hashes import hash160

            psbt_in.witness_utxo = TxOut(case["amounts"][k], bytes.fromhex("a914") + hash160(redeem) + bytes.fromhex("87"))
            psbt_in.redeem_script = redeem
    # non_witness_utxo must be the transaction the outpoint names: rebuild the outpoints of the legacy inputs
    for k, psbt_in in enumerate(inputs):
        if psbt_in.non_witness_utxo is not None:
            psbt_in.previous_tx_id = psbt_in.non_witness_utxo.id
            psbt_in.output_index = k
    # model of the estimated size
    seg = any(SPEND_MODEL[k][1] for k in kinds)

    def weight_with(extra_outs):
        outs = [bytes.fromhex(s) for s in out_spks] + extra_outs
        w = 4 * (4 + cs_len(n_in) + cs_len(len(outs)) + sum(8 + cs_len(len(s)) + len(s) for s in outs) + 4) + (2 if seg else 0)
        for k in kinds:
            ss, wit = SPEND_MODEL[k]
            w += 4 * (36 + cs_len(ss) + ss + 4)
            if seg:
                w += cs_len(len(wit)) + sum(cs_len(x) + x for x in wit)
        return w

    total_in = sum(case["amounts"][:n_in])
    total_out = sum(out_amounts)
    change = case["change"]
    kvb, dust_kvb = case["kvb"], case["dust_kvb"]
    target = case["target"]
    fee0 = ceil_div(kvb * ceil_div(weight_with([]), 4), 1000)
    if change is not None:
        spk = bytes.fromhex(change)
        fee1 = ceil_div(kvb * ceil_div(weight_with([spk]), 4), 1000)
        dust = dust_model(spk, dust_kvb)
    # steer the first input's amount
    want = None
    if target == "dust" and change is not None:
        want = total_out + fee1 + dust + case["delta"]
    elif target in ("fee", "dust"):
        want = total_out + fee0 + case["delta"]
    elif target == "overspend":
        want = total_out - 1 - abs(case["delta"])
    if want is not None:
        first = want - (total_in - case["amounts"][0])
        if 0 <= first <= MAX_MONEY and want <= MAX_MONEY:
            total_in = want
            utxo0 = inputs[0].witness_utxo
            if utxo0 is not None:
                inputs[0].witness_utxo = TxOut(first, utxo0.script_pub_key)
            else:
                prev = inputs[0].non_witness_utxo
                inputs[0].non_witness_utxo = Tx(2, 0, prev.vin, [TxOut(first, prev.vout[0].script_pub_key)], check_validity=False)
                inputs[0].previous_tx_id = inputs[0].non_witness_utxo.id
    remainder = total_in - total_out
    expect = None
    if change is not None and remainder - fee1 >= dust:
        expect = ("change", fee1, remainder - fee1)
    if expect is None:
        if n_out == 0:
            expect = ("refuse", None, None)
        else:
            expect = ("nochange", remainder, 0) if remainder >= fee0 else ("refuse", None, None)
    plain = ("refuse", None, None) if n_out == 0 or remainder < fee0 else ("nochange", remainder, 0)
    allowed = {expect}  # as in funding_worlds: on the threshold, and for a change script whose threshold is zero, more than one decision is right
    if expect[0] == "change" and (expect[2] == dust or dust == 0):
        allowed.add(plain)
    if expect[0] == "change" and dust == 0:
        allowed.add(("refuse", None, None))
    if total_in > MAX_MONEY or total_out > MAX_MONEY:
        expect = ("any", None, None)
    defect = case["defect"] if target == "defect" else None
    if defect == "dup-outpoint":
        if n_in < 2:
            defect = None
        else:
            inputs[1] = copy.deepcopy(inputs[0])
    elif defect == "no-utxo":
        inputs[-1].witness_utxo = None
        inputs[-1].non_witness_utxo = None
    elif defect == "no-inputs":
        inputs = []
    outputs = [TxOut(a, s, check_validity=False) for a, s in zip(out_amounts, out_spks)]
    tags = [f"expect={expect[0]}", f"target={target}", f"n_in={'253' if n_in >= 253 else ('252' if n_in == 252 else '<=5')}", f"n_out={'252+' if n_out >= 252 else n_out}", f"spelling={case['rate_spelling']}", f"defect={defect}"]
    near = any(abs(remainder - thr) <= 2 for thr in ([fee0] + ([fee1 + dust] if change is not None else [])))
    tags.append(f"steered={near}")
    try:
        rate = _rate(case)
    except LIBEXC as e:
        raise Violation("direct:exact-rate-refused", f"{case['rate_spelling']} of {kvb} sat/kvB: {type(e).__name__}: {e}")
    if rate.sats_per_kvbyte != kvb:
        raise Violation("direct:rate-conversion", f"{case['rate_spelling']} of {kvb} sat/kvB gives {rate.sats_per_kvbyte}")
    try:
        funded = build_psbt(inputs, outputs, rate, None if change is None else bytes.fromhex(change), tx_version=case["tx_version"], lock_time=case["lock_time"], dust_fee_rate=FeeRate(sats_per_kvbyte=dust_kvb))
    except BTClibValueError as e:
        if defect is not None or expect[0] == "any" or ("refuse", None, None) in allowed:
            return Outcome(near, tuple(tags) + ("refused",))
        raise Violation(f"direct:refused-what-the-inputs-cover:{expect[0]}", f"{e}; remainder {remainder} fee0 {fee0} expect {expect}")
    if defect is not None:
        raise Violation(f"direct:defective-inputs-funded:{defect}", f"fee {funded.fee} change {funded.change}")
    if allowed == {("refuse", None, None)}:
        raise Violation("direct:funded-what-the-inputs-do-not-cover", f"remainder {remainder} owed {fee0} n_out {n_out}; fee {funded.fee} change {funded.change}")
    psbt = funded.psbt
    tx = psbt.tx
    got_outs = [(o.value, o.script_pub_key.script.hex()) for o in tx.vout]
    pays = list(zip(out_amounts, out_spks))
    if funded.change_index is None:
        if got_outs != pays or funded.change != 0:
            raise Violation("direct:outputs-without-change", f"{got_outs[:4]} vs {pays[:4]} change {funded.change}")
    else:
        # the change is where change_index says it is (its position is the builder's choice); the payments are the other outputs, in order
        ci = funded.change_index
        if not 0 <= ci <= n_out or len(got_outs) != n_out + 1 or got_outs[:ci] + got_outs[ci + 1:] != pays or got_outs[ci] != (funded.change, change):
            raise Violation("direct:outputs-with-change", f"index {funded.change_index} outputs {got_outs[:4]} change {funded.change}")
        if funded.change < dust_model(bytes.fromhex(change), dust_kvb):
            raise Violation("direct:dust-change-created", f"{funded.change} < {dust_model(bytes.fromhex(change), dust_kvb)} for {change} at {dust_kvb}")
    if total_in != sum(v for v, _ in got_outs) + funded.fee:
        raise Violation("direct:value-not-conserved", f"in {total_in} out {sum(v for v, _ in got_outs)} fee {funded.fee}")
    if psbt.version != 0 or tx.version != case["tx_version"] or tx.lock_time != case["lock_time"]:
        raise Violation("direct:tx-fields", f"psbt v{psbt.version} tx v{tx.version} lock {tx.lock_time}")
    want_seq = 0xFFFFFFFF if case["sequence"] is None else case["sequence"]
    if any(i.sequence != want_seq for i in tx.vin):
        raise Violation("direct:sequence", f"{[i.sequence for i in tx.vin][:4]} want {want_seq}")
    # the size the fee was bought at is the size of the psbt that is returned
    est = psbt.estimated_weight
    want_w = weight_with([bytes.fromhex(change)] if funded.change_index is not None else [])
    if est < want_w:
        raise Violation("direct:estimate-below-hand-count", f"estimate {est} < {want_w} kinds={kinds[:5]} n_in={n_in} n_out={n_out}")
    if funded.fee < ceil_div(kvb * ceil_div(want_w, 4), 1000):
        raise Violation("direct:fee-below-rate-at-worst-case-size", f"fee {funded.fee} < {ceil_div(kvb * ceil_div(want_w, 4), 1000)}")
    if expect[0] != "any" and est == want_w:
        got = ("change", funded.fee, funded.change) if funded.change_index is not None else ("nochange", funded.fee, 0)
        if got not in allowed:
            raise Violation(f"direct:decision:{expect[0]}->{got[0]}", f"expected {expect} got {got}; remainder {remainder} kvb {kvb} dust_kvb {dust_kvb} change {change}")
        tags.append("estimate=hand-count")
    return Outcome(near, tuple(tags))


# ---------------------------------------------------------------- 6. fee / dust arithmetic
@st.composite
def fee_case(draw):
    big = st.one_of(st.integers(0, 10**6), st.integers(0, 2**64), st.sampled_from([0, 1, 999, 1000, 1001, 4_000_000, 2**31 - 1, 2**31, 2**53, 2**53 + 1, 2**63 - 1, 2**64]))
    return {
        "kvb": draw(st.one_of(rate_strategy(), big)),
        "vsize": draw(st.one_of(st.integers(0, 2000), big)),
        "anc_vsize": draw(st.one_of(st.just(0), st.integers(0, 10**6))),
        "anc_fee": draw(st.one_of(st.just(0), st.integers(0, 10**7), st.integers(0, MAX_MONEY))),
        "spk": draw(st.one_of(st.sampled_from(CHANGE_SCRIPTS), g.hexbytes(0, 45), st.sampled_from(["00" * 252, "00" * 253, "51" * 10000, "51" * 10001, "6a" + "00" * 10000]))),
        "vb_text": draw(st.one_of(st.none(), st.tuples(st.integers(0, 10**6), st.integers(0, 99999), st.integers(0, 5)))),
        "bad": draw(st.sampled_from([None, None, "neg-vsize", "neg-rate", "neg-anc", "float-vsize", "bool-vsize", "nan", "inf", "comma", "neg-vb", "anc-fee-over", "str-kvb", "none-btc"])),
        "ctx": draw(st.sampled_from(CONTEXTS)),
    }


def check_fee(case):
    with ambient(case.get("ctx")):
        return _check_fee(case)


def _check_fee(case):
    kvb, vsize = case["kvb"], case["vsize"]
    tags = [ctx_tag(case.get("ctx"))]
    rate = FeeRate(sats_per_kvbyte=kvb)
    want = ceil_div(kvb * vsize, 1000)
    got = fee_from_vsize(vsize, rate)
    if got != want or type(got) is not int:
        raise Violation("fee:fee_from_vsize-not-ceil", f"fee_from_vsize({vsize}, {kvb}/kvB) = {got!r}, want {want}")
    inexact = (kvb * vsize) % 1000 != 0
    tags.append(f"inexact-product={inexact}")
    tags.append(f"wide={kvb * vsize >= 2**53}")
    # package fee
    av, af = case["anc_vsize"], case["anc_fee"]
    pf = package_fee(vsize, rate, ancestor_vsize=av, ancestor_fee=af)
    want_pf = max(want, ceil_div(kvb * (vsize + av), 1000) - af)
    if pf != want_pf:
        raise Violation("fee:package_fee", f"package_fee({vsize},{kvb},{av},{af}) = {pf} want {want_pf}")
    tags.append(f"package-lifts={want_pf > want}")
    # accessors and constructors agree exactly
    spv = rate.sats_per_vbyte
    if not isinstance(spv, Decimal) or Fraction(spv) != Fraction(kvb, 1000):
        raise Violation("fee:sats_per_vbyte-not-exact", f"{kvb} sat/kvB reads {spv!r}")
    back = FeeRate.from_sats_per_vbyte(spv)
    if back.sats_per_kvbyte != kvb or FeeRate.from_sats_per_vbyte(str(spv)).sats_per_kvbyte != kvb:
        raise Violation("fee:sats_per_vbyte-round-trip", f"{kvb} -> {spv} -> {back.sats_per_kvbyte}")
    if kvb <= MAX_MONEY:
        btc = dec(kvb)
        if Fraction(btc) != Fraction(kvb, 10**8):
            raise HarnessError("decimal context lost digits")
        r2 = FeeRate.from_btc_per_kvbyte(btc)
        if r2.sats_per_kvbyte != kvb or FeeRate.from_btc_per_kvbyte(format(btc, "f")).sats_per_kvbyte != kvb:
            raise Violation("fee:btc_per_kvbyte-conversion", f"{btc} BTC/kvB -> {r2.sats_per_kvbyte}, want {kvb}")
    # free-form decimal sat/vB text: whole millisatoshi accepted exactly, finer refused
    if case["vb_text"] is not None:
        whole, frac, digits = case["vb_text"]
        text = f"{whole}.{str(frac).zfill(digits)[:digits]}" if digits else str(whole)
        exact = Fraction(Decimal(text)) * 1000
        try:
            r3 = FeeRate.from_sats_per_vbyte(text)
        except BTClibValueError:
            r3 = None
        if exact.denominator == 1:
            if r3 is None or r3.sats_per_kvbyte != int(exact):
                raise Violation("fee:from_sats_per_vbyte-text", f"{text!r} -> {r3}")
            tags.append("vb-text=exact")
        else:
            if r3 is not None:
                raise Violation("fee:from_sats_per_vbyte-truncates", f"{text!r} is finer than a millisatoshi/vB and reads {r3}")
            tags.append("vb-text=too-fine")
        # a float spelled the same is the number that was written
        f = float(text)
        if repr(f) == text or (Decimal(repr(f)) == Decimal(text)):
            try:
                r4 = FeeRate.from_sats_per_vbyte(f)
            except BTClibValueError:
                r4 = None
            if (r4 is None) != (r3 is None) or (r4 is not None and r4 != r3):
                raise Violation("fee:float-quote-differs-from-its-repr", f"{f!r}: {r4} vs {r3}")
    # ordering is the integers'
    other = FeeRate(sats_per_kvbyte=case["anc_vsize"])
    if (rate < other) != (kvb < case["anc_vsize"]) or (rate == other) != (kvb == case["anc_vsize"]):
        raise Violation("fee:ordering", f"{kvb} vs {case['anc_vsize']}")
    # dust
    spk = bytes.fromhex(case["spk"])
    d = dust_threshold(spk, rate)
    if d != dust_model(spk, kvb):
        raise Violation("fee:dust_threshold", f"dust_threshold({case['spk'][:80]}.. len {len(spk)}, {kvb}) = {d}, model {dust_model(spk, kvb)}")
    if dust_threshold(spk) != dust_model(spk, 3000) or DUST_RELAY_FEE_RATE.sats_per_kvbyte != 3000:
        raise Violation("fee:dust_threshold-default-rate", f"{dust_threshold(spk)} model {dust_model(spk, 3000)}")
    tags.append(f"dust-spk={'unspendable' if dust_model(spk, 3000) == 0 else ('segwit' if is_witness_program(spk) else 'other')}")
    # refusals
    bad = case["bad"]
    if bad is not None:
        calls = {
            "neg-vsize": lambda: fee_from_vsize(-1 - vsize, rate),
            "neg-rate": lambda: FeeRate(sats_per_kvbyte=-1 - kvb),
            "neg-anc": lambda: package_fee(vsize, rate, ancestor_vsize=-1 - av),
            "float-vsize": lambda: fee_from_vsize(float(vsize % 10**6) + 0.5, rate),
            "bool-vsize": lambda: fee_from_vsize(True, rate),
            "nan": lambda: FeeRate.from_sats_per_vbyte("NaN"),
            "inf": lambda: FeeRate.from_sats_per_vbyte(Decimal("Infinity")),
            "comma": lambda: FeeRate.from_sats_per_vbyte("1,2"),
            "neg-vb": lambda: FeeRate.from_sats_per_vbyte(f"-{kvb % 1000 + 1}"),
            "anc-fee-over": lambda: package_fee(vsize, rate, ancestor_fee=MAX_MONEY + 1 + af),
            "str-kvb": lambda: FeeRate(sats_per_kvbyte=str(kvb)),
            "none-btc": lambda: FeeRate.from_btc_per_kvbyte(None),
        }
        try:
            out = calls[bad]()
        except (BTClibValueError, BTClibTypeError):
            tags.append(f"refused={bad}")
        else:
            if bad == "anc-fee-over":
                tags.append("answered=anc-fee-over")  # no docstring promises a refusal of ancestor fees above the money range
            else:
                raise Violation(f"fee:accepted:{bad}", f"returned {out!r}")
    return Outcome(inexact, tuple(tags))


# ---------------------------------------------------------------- 7. amounts
SATS_EDGES = [0, 1, 99_999_999, 100_000_000, 100_000_001, MAX_MONEY - 1, MAX_MONEY]


@st.composite
def amount_case(draw):
    return {
        "sats": draw(st.one_of(st.sampled_from(SATS_EDGES), st.integers(0, MAX_MONEY), st.integers(0, 10**9))),
        "outside": draw(st.one_of(st.sampled_from([-1, MAX_MONEY + 1, -MAX_MONEY, 2**63, 2**64, -(2**63)]), st.integers(MAX_MONEY + 1, 2**70), st.integers(-(2**70), -1))),
        "sub": draw(st.integers(1, 999)),  # thousandths of a satoshi
        "spelling": draw(st.sampled_from(["decimal", "str", "str-padded", "sci", "int-if-whole", "float"])),
        "dust": draw(st.one_of(st.just(0), st.integers(0, 10**6))),
        "ctx": draw(st.sampled_from(CONTEXTS)),
    }


def check_amount(case):
    with ambient(case.get("ctx")):
        return _check_amount(case)


def _check_amount(case):
    sats = case["sats"]
    tags = [ctx_tag(case.get("ctx"))]
    btc = btc_from_sats(sats)
    if not isinstance(btc, Decimal) or Fraction(btc) != Fraction(sats, 10**8):
        raise Violation("amount:btc_from_sats-not-exact", f"{sats} -> {btc!r}")
    if sats_from_btc(btc) != sats:
        raise Violation("amount:round-trip", f"{sats} -> {btc} -> {sats_from_btc(btc)}")
    whole, frac = divmod(sats, 10**8)
    how = case["spelling"]
    spelled = {
        "decimal": dec(sats),
        "str": f"{whole}.{frac:08d}",
        "str-padded": f"{whole}.{frac:08d}000",
        "sci": f"{sats}e-8",
        "int-if-whole": whole if frac == 0 else f"{whole}.{frac:08d}",
        "float": float(f"{whole}.{frac:08d}"),
    }[how]
    if how == "float" and Decimal(repr(spelled)) != Decimal(f"{whole}.{frac:08d}"):
        tags.append("float-not-representable")  # the float's shortest repr is another amount: nothing to ask
    else:
        try:
            got = sats_from_btc(spelled)
        except LIBEXC as e:
            if how in ("str-padded", "float"):
                # zeros past the eighth decimal and binary floats are spellings a strict reader may decline ("more than 8 decimals", "never floats")
                return Outcome(True, (*tags, f"declined={how}"))
            raise Violation(f"amount:exact-amount-refused:{how}", f"{spelled!r}: {type(e).__name__}: {e}")
        if got != sats or type(got) is not int:
            raise Violation(f"amount:sats_from_btc:{how}", f"{spelled!r} -> {got!r}, want {sats}")
        v = valid_btc_amount(spelled)
        if Fraction(v) != Fraction(sats, 10**8):
            raise Violation("amount:valid_btc_amount-value", f"{spelled!r} -> {v!r}")
    if valid_sats_amount(sats) != sats:
        raise Violation("amount:valid_sats_amount", f"{sats}")
    # dust floor
    dust = case["dust"]
    try:
        valid_sats_amount(sats, dust)
        ok = True
    except BTClibValueError:
        ok = False
    if ok != (sats >= dust):
        raise Violation("amount:dust-floor-sats", f"{sats} with dust {dust}: accepted={ok}")
    try:
        valid_btc_amount(btc, dec(dust))
        ok = True
    except BTClibValueError:
        ok = False
    if ok != (sats >= dust):
        raise Violation("amount:dust-floor-btc", f"{btc} with dust {dust} sat: accepted={ok}")
    # outside the money range
    outside = case["outside"]
    for name, call in (
        ("valid_sats_amount", lambda: valid_sats_amount(outside)),
        ("btc_from_sats", lambda: btc_from_sats(outside)),
        ("sats_from_btc", lambda: sats_from_btc(dec(outside))),
        ("valid_btc_amount", lambda: valid_btc_amount(format(dec(outside), "f"))),
        ("TxOut", lambda: TxOut(outside, "51")),
    ):
        try:
            out = call()
        except (BTClibValueError, BTClibTypeError):
            continue
        raise Violation(f"amount:outside-range-accepted:{name}", f"{outside} -> {out!r}")
    # a fraction of a satoshi
    sub = dec(sats * 1000 + case["sub"], 11)
    for spelled_sub in (sub, format(sub, "f")):
        try:
            out = sats_from_btc(spelled_sub)
        except BTClibValueError:
            continue
        raise Violation("amount:sub-satoshi-accepted", f"{spelled_sub!r} -> {out!r}")
    for name, bad in (("nan", "NaN"), ("inf", Decimal("Infinity")), ("-inf", "-Infinity"), ("text", "1,5"), ("bool", True), ("float-sats", sats + 0.5), ("str-sats", "12x")):
        try:
            out = valid_sats_amount(bad) if name in ("bool", "float-sats", "str-sats") else sats_from_btc(bad)
        except (BTClibValueError, BTClibTypeError):
            continue
        raise Violation(f"amount:accepted:{name}", f"{bad!r} -> {out!r}")
    tags += [f"spelling={how}", f"frac={frac != 0}", f"edge={sats in SATS_EDGES}"]
    return Outcome(frac != 0, tuple(tags))


ALL = None
SIMPLE = ["pkh", "wpkh", "sh_wpkh", "multi_bare", "multi_sh", "multi_wsh", "sortedmulti_wsh", "multi_sh_wsh", "tr_key"]
SUBCHECKS = [
    SubCheck("tx_sizes", check_tx_sizes, "transactions with script_sig / witness item / script_pub_key lengths and input / output / witness item counts on 252..256 and 65535..65537, with and without witnesses: size = len(serialize), weight = 3*stripped + total, vsize = ceil(weight/4), input_weight per input, all against the wire model; non-trivial: some length or count >= 253", sized_tx_case, quick=1500, thorough=20000),
    SubCheck("block_sizes", check_block_sizes, "regtest blocks of 1..254 transactions: size, stripped_size, weight, vsize vs the model (80 + CompactSize(count) + transactions); non-trivial: >= 2 transactions", sized_block_case, quick=150, thorough=2000),
    SubCheck("estimate_dominates", check_estimate, "wallet worlds (13 kinds, 1..4 inputs, every sighash type, PSBT v0/v2): weight_estimate(sizer) before signing >= weight of the transaction extracted after the library's signers and finalizer ran; estimate of the finalized psbt likewise; estimated_weight / estimated_vsize consistent; every world counts", lambda: estimate_case(), quick=2000, thorough=40000),
    SubCheck("estimate_each_kind", check_estimate, "the same, one input kind per world so that each kind is reached on its own", lambda: st.sampled_from(worlds.KINDS).flatmap(lambda k: estimate_case(kinds=[k])), quick=1600, thorough=30000),
    SubCheck("funding_worlds", check_funding, "build_psbt over the updated inputs of a wallet world, amounts steered to threshold +-2 sat (fee owed / fee + dust), rates 0..10^7 sat/kvB, 13 change scripts or none; exact decision vs the documented rule, then signed, finalized, extracted: value conserved on the real transaction, fee >= ceil(rate*final vsize/1000), change >= dust model; non-trivial: within 2 sat of a threshold", lambda: funding_case(), quick=1600, thorough=30000),
    SubCheck("funding_direct", check_direct, "build_psbt over hand-made inputs (p2wpkh, p2tr, p2pkh, p2sh-p2wpkh, p2pk; 1..253 inputs, 0..253 outputs), hand-counted worst-case size, four spellings of the rate, defective inputs (duplicate outpoint, no utxo, none) refused; non-trivial: within 2 sat of a threshold", direct_case, quick=2500, thorough=40000),
    SubCheck("fee_arith", check_fee, "fee_from_vsize = ceil(rate*vsize/1000) by integer arithmetic up to 2^128 products; package_fee = max(own, package - ancestors); FeeRate unit conversions against fractions.Fraction; dust_threshold vs Core's GetDustThreshold model; refusals; non-trivial: rate*vsize not a multiple of 1000", fee_case, quick=6000, thorough=150000),
    SubCheck("amount_arith", check_amount, "satoshi <-> BTC exact on 0..21e14 (edges + uniform) in six spellings; dust floors; refusal outside the money range, of sub-satoshi decimals, NaN/Inf, bools, floats with half a satoshi; non-trivial: a fractional BTC amount", amount_case, quick=6000, thorough=150000),
]
