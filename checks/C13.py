"""C13 — mnemonics and seeds: entropy round-trips, checksums bind, thresholds recover (BIP39, Electrum, SLIP39, BIP85)."""

from __future__ import annotations

import hashlib
import itertools
import json
import os
import unicodedata

from hypothesis import strategies as st

from btclib import bip85
from btclib.exceptions import BTClibRuntimeError, BTClibTypeError, BTClibValueError
from btclib.mnemonic import bip39, dispatch, electrum, slip39
from btclib.network import NETWORKS
from vlib.models import base58_ref, bip32_ref, fastec
from vlib.models import bip39_ref as b39
from vlib.models import bip85_ref as b85
from vlib.models import electrum_ref as el
from vlib.models import slip39_ref as s39
from vlib.runner import VERIF, HarnessError, Outcome, SubCheck, Violation

PROPERTY = "C13"
LEVEL = "exploration"
RULE = (
    "Hypothesis-generated entropies (128..256 bits, forced leading zero bytes, bytes / 0-1 string / int forms) x 12 BIP39 word lists x unicode passphrases "
    "in composed and decomposed forms x sentence presentations (NFC, ideographic / doubled / tab / newline separators); every one of the 2048 words at a "
    "position of a valid sentence (enumerated, distinct by construction); Electrum seeds of the 4 types x 12 lists (13 with its own Portuguese) against a "
    "transcription of Electrum's make_seed / seed_type / normalize_text; SLIP39 configurations (1..16 groups, member thresholds 1..16, exponents, "
    "extendable flag, arbitrary share indexes through the model's splitter) with generated qualifying subsets in generated orders, one-below-threshold "
    "subsets, mixed splits, tampered and re-checksummed shares, 1..3 word substitutions; all subsets of all configurations with <= 5 shares (enumerated); "
    "BIP85 applications against HMAC-SHA512 of the BIP32 model's child key. Oracles are spec transcriptions in vlib/models/{bip39,electrum,slip39,bip85}_ref.py."
)
ASSUMPTIONS = [
    "the models read their own copies of the word lists (vectors/wordlists, pinned by digest; english.txt against the digest bitcoin/bips publishes): a word list the library ships is under test like its code",
    "letter case of SLIP39 words, which mis-typed Electrum spellings decode, Electrum's two-factor seed types, the order in which dispatch lists the schemes and where in its stream of random bytes a SLIP39 split "
    "takes the identifier from are not stated by the property or the specifications: either behaviour is accepted, and what is answered is compared with the model",
    "bip39_ref/electrum_ref/slip39_ref/bip85_ref are validated at start on Trezor's BIP39 vectors (12 languages, 288 cases) and bip32JP's Japanese vectors, "
    "Electrum's SEED_TEST_CASES / Test_seeds / old-seed wallets, Trezor's 45 SLIP39 vectors, and BIP85's own vectors (copies in /verif/vectors)",
    "Electrum has no specification: its code (normalize_text, seed_type, make_seed, old_mnemonic) as transcribed in electrum_ref.py is taken as the definition",
    "whitespace collapsing of BIP39 sentences, exact-threshold SLIP39 share sets, printable-ASCII SLIP39 passphrases, int entropies padded to the next allowed "
    "size are documented btclib contracts and are checked as documented",
    "a wrong SLIP39 share set passing the 32-bit digest by chance (2^-32) and an out-of-range BIP32 master key (2^-127) are not expected to occur",
    "SLIP39 iteration exponents 0..4 are exercised end to end, 5..15 by the share codec only (the cost of one recovery doubles per step)",
]
REFUSAL = (BTClibValueError, BTClibTypeError)
H = 0x80000000
XPRV_MAIN = bytes.fromhex("0488ade4")
NETS = list(NETWORKS)


def nfkd(s: str) -> str:
    return unicodedata.normalize("NFKD", s)


def expand(seed: int, tag: str, n: int) -> bytes:
    """n pseudo-random bytes derived from a drawn int (all randomness comes from the case)."""
    return hashlib.shake_256(f"{tag}:{seed}".encode()).digest(n)


class Picker:
    """Deterministic choices derived from a drawn int."""

    def __init__(self, seed: int, tag: str = "") -> None:
        self.seed, self.tag, self.i = seed, tag, 0

    def below(self, n: int) -> int:
        self.i += 1
        return int.from_bytes(expand(self.seed, f"{self.tag}/{self.i}", 8), "big") % n

    def shuffle(self, xs: list) -> list:
        xs = list(xs)
        for k in range(len(xs) - 1, 0, -1):
            j = self.below(k + 1)
            xs[k], xs[j] = xs[j], xs[k]
        return xs

    def sample(self, xs: list, k: int) -> list:
        return self.shuffle(xs)[:k]


def root_xprv(seed: bytes, version: bytes = XPRV_MAIN) -> str:
    k, c = bip32_ref.master(seed)
    return b85.xprv_text(version, c, k.to_bytes(32, "big"))


def lib_try(f, *a, **kw):
    """(value, None) or (None, exception) for the documented refusal classes."""
    try:
        return f(*a, **kw), None
    except REFUSAL as e:
        return None, e


# ================================================================ model validation
def _vec(name):
    with open(os.path.join(VERIF, "vectors", name), encoding="utf-8") as f:
        return json.load(f)


def validate_models() -> None:
    try:
        b39.check_word_files()
    except ValueError as e:
        raise HarnessError(str(e)) from None
    name2code = {"english": "en", "chinese_simplified": "zh", "chinese_traditional": "zh_tw", "czech": "cs", "french": "fr", "italian": "it", "japanese": "ja",
                 "korean": "ko", "portuguese": "pt", "spanish": "es", "russian": "ru", "turkish": "tr"}
    tv = _vec("bip39_trezor_vectors.json")
    if set(tv) != set(name2code):
        raise HarnessError("bip39 vectors: languages")
    for name, vs in tv.items():
        lang = name2code[name]
        for ent, mn, seed, xprv in vs:
            w = b39.words_from_entropy(bytes.fromhex(ent), lang)
            if w != b39.split_words(mn) or b39.entropy_from_words(w, lang) != bytes.fromhex(ent):
                raise HarnessError(f"bip39_ref words {name} {ent}")
            s = b39.seed(mn, "TREZOR")
            if s.hex() != seed or root_xprv(s) != xprv:
                raise HarnessError(f"bip39_ref seed {name} {ent}")
    for v in _vec("bip39_jp_vectors.json"):
        if b39.words_from_entropy(bytes.fromhex(v["entropy"]), "ja") != b39.split_words(v["mnemonic"]) or b39.seed(v["mnemonic"], v["passphrase"]).hex() != v["seed"]:
            raise HarnessError("bip39_ref japanese vector")
    if b39.entropy_from_words("abandon abandon abandon abandon abandon abandon abandon abandon abandon abandon abandon abandon".split(), "en") is not None:
        raise HarnessError("bip39_ref accepts a wrong checksum")
    # electrum
    ev = _vec("electrum_vectors.json")
    for mn, pw, ver, seed in ev["seed"]:
        if el.seed_type(mn) != ver or el.mnemonic_to_seed(mn, pw).hex() != seed:
            raise HarnessError(f"electrum_ref seed vector {mn[:20]}")
    for mn, lang, ent in ev["decode"]:
        if el.mnemonic_decode(nfkd(mn), lang) != ent or nfkd(el.mnemonic_encode(ent, lang)) != nfkd(mn):
            raise HarnessError("electrum_ref decode vector")
    for mn, ver in ev["version"]:
        if el.seed_type(mn) != ver:
            raise HarnessError(f"electrum_ref version vector {mn[:30]!r}: {el.seed_type(mn)!r} != {ver!r}")
    for hx, mn, mpk in ev["old"]:
        if el.old_format_seed(mn) != hx or (len(hx) % 8 == 0 and " ".join(el.mn_encode(hx)) != mn):
            raise HarnessError("electrum_ref old vector")
    hx, mn, mpk = ev["old"][1]
    P = fastec.mul(el.old_stretch_key(hx.encode()), fastec.G)
    if (P[0].to_bytes(32, "big") + P[1].to_bytes(32, "big")).hex() != mpk:
        raise HarnessError("electrum_ref old stretch")
    for mn, pw, xprv, _xpub, _addr in _vec("electrum_wallet_vectors.json"):
        s = el.mnemonic_to_seed(mn, pw)
        if electrum_xprv(s, el.seed_type(mn), "mainnet") != xprv:
            raise HarnessError("electrum_ref wallet vector")
    for g in _vec("electrum_language_vectors.json")["generated"]:
        m, _i = el.make_seed_from(g["entropy"], g["type"], g["lang"])
        if g["mnemonic"] and (nfkd(m) != nfkd(g["mnemonic"]) or el.mnemonic_to_seed(m, "").hex() != g["seed"]):
            raise HarnessError("electrum_ref make_seed vector")
        if not g["mnemonic"] and el.seed_type(m) == g["type"]:
            raise HarnessError("electrum_ref 2fa in portuguese")
    # slip39
    n_ok = n_bad = 0
    for desc, mns, secret, xprv in _vec("slip39_vectors.json"):
        try:
            r = s39.recover(mns, "TREZOR")
        except s39.RefError:
            if secret:
                raise HarnessError(f"slip39_ref refuses valid vector {desc}") from None
            n_bad += 1
            continue
        if r.hex() != secret or root_xprv(r) != xprv or any(s39.encode_share(s39.decode_share(m)) != m for m in mns):
            raise HarnessError(f"slip39_ref vector {desc}")
        n_ok += 1
    if (n_ok, n_bad) != (15, 30):
        raise HarnessError(f"slip39 vectors: {n_ok} valid, {n_bad} invalid")
    rnd = Rnd(7)
    g = s39.generate(bytes(range(16)), "x", 0, 12345, False, 2, [{"GI": 5, "MT": 2, "MIs": [3, 15, 9]}, {"GI": 0, "MT": 1, "MIs": [7]}, {"GI": 14, "MT": 3, "MIs": [0, 1, 2, 13]}], rnd, group_count=16)
    if s39.recover([g[0][2], g[2][3], g[0][0], g[2][0], g[2][2]], "x") != bytes(range(16)):
        raise HarnessError("slip39_ref split/recover")
    for a in range(1, 256):
        if s39.gf_mul(a, s39.gf_inv(a)) != 1:
            raise HarnessError("slip39_ref GF(256) inverse")
    # bip85
    bv = _vec("bip85_vectors.json")
    raw = base58_ref.check_decode(bv["master_bip32_root_key"])
    mc, mk = raw[13:45], int.from_bytes(raw[46:], "big")

    def path(s):
        return [int(x.rstrip("'")) + H for x in s.split("/")[1:]]

    for v in bv["entropy"]:
        if b85.child_key(mk, mc, path(v["path"])).to_bytes(32, "big").hex() != v["derived_key"] or b85.entropy(mk, mc, path(v["path"])).hex() != v["derived_entropy"]:
            raise HarnessError("bip85_ref entropy")
    for v in bv["bip39"]:
        if " ".join(b85.mnemonic(b85.entropy(mk, mc, path(v["path"])), v["words"], "en")) != v["derived_bip39_mnemonic"]:
            raise HarnessError("bip85_ref bip39")
    e = b85.entropy(mk, mc, path(bv["hd_seed_wif"][0]["path"]))
    if base58_ref.check_encode(b"\x80" + e[:32] + b"\x01") != bv["hd_seed_wif"][0]["derived_wif"]:
        raise HarnessError("bip85_ref wif")
    e = b85.entropy(mk, mc, path(bv["xprv"][0]["path"]))
    if b85.xprv_text(XPRV_MAIN, e[:32], e[32:]) != bv["xprv"][0]["derived_xprv"]:
        raise HarnessError("bip85_ref xprv")
    v = bv["hex"][0]
    if b85.entropy(mk, mc, path(v["path"]))[: v["num_bytes"]].hex() != v["derived_entropy"]:
        raise HarnessError("bip85_ref hex")
    v = bv["drng"][0]
    if b85.drng(b85.entropy(mk, mc, path(v["path"])), v["num_bytes"]).hex() != v["drng"]:
        raise HarnessError("bip85_ref drng")
    v = bv["pwd_base64"][0]
    if b85.base64_text(b85.entropy(mk, mc, path(v["path"])))[: v["pwd_len"]] != v["derived_pwd"]:
        raise HarnessError("bip85_ref base64")
    v = bv["pwd_base85"][0]
    if b85.base85_text(b85.entropy(mk, mc, path(v["path"])))[: v["pwd_len"]] != v["derived_pwd"]:
        raise HarnessError("bip85_ref base85")
    v = bv["dice"][0]
    if ",".join(map(str, b85.dice(b85.entropy(mk, mc, path(v["path"])), v["sides"], v["rolls"]))) != v["derived_rolls"]:
        raise HarnessError("bip85_ref dice")


class Rnd:
    """entropy_source for SLIP39 splitting, a function of a drawn int."""

    def __init__(self, seed: int, first: bytes = b"") -> None:
        self.seed, self.n, self.first = seed, 0, first

    def __call__(self, n: int) -> bytes:
        self.n += 1
        if self.n == 1 and self.first:
            return (self.first + expand(self.seed, "rnd/1", n))[:n]
        return expand(self.seed, f"rnd/{self.n}", n)


def electrum_xprv(seed: bytes, seed_type: str, net: str) -> str:
    """electrum's keystore.from_seed for the two types btclib derives: 'standard' -> m (xprv), 'segwit' -> m/0' (zprv)."""
    k, c = bip32_ref.master(seed)
    if seed_type == "standard":
        return b85.xprv_text(NETWORKS[net].bip32_prv, c, k.to_bytes(32, "big"))
    P = fastec.mul(k, fastec.G)
    fp = bip32_ref.hash160(bip32_ref.ser_p(P))[:4]
    k1, c1 = bip32_ref.ckd_priv(k, c, H)
    return base58_ref.check_encode(NETWORKS[net].slip132_p2wpkh_prv + b"\x01" + fp + H.to_bytes(4, "big") + c1 + b"\x00" + k1.to_bytes(32, "big"))


# ================================================================ shared strategies
SPECIAL = ["\u00e9", "e\u0301", "\u00c5", "\u212b", "A\u030a", "\ufb01", "\u334d", "\u30ac", "\uff76\uff9e", "\u01c6", "\u1e9b\u0323", "\u00a8", "\u3000", " ", "  ", "\u0130", "\u00df", "\u03c2", "\U0001d518", "\u00bd", "\u00f1", "n\u0303", "\uac00", "\u1100\u1161", "\uff11", "\u216b", "\u00a0", "\t", "A", "z",
           # compatibility characters that have no lower case of their own and decompose (NFKD) to UPPER-case letters: the order of lower() and NFKD shows on them
           "\u2122", "\u210d", "\u2115", "\u2116", "\u3392", "\U0001d400", "\u2122", "\u210d"]
KNOWN_PASS = ["TREZOR", "㍍ガバヴァぱばぐゞちぢ十人十色", "araña difícil solución término cárcel", "给我一些测试向量谷歌", "Did you ever hear the tragedy of Darth Plagueis the Wise?"]


def passphrases():
    return st.one_of(st.just(""), st.text(max_size=10), st.lists(st.sampled_from(SPECIAL), max_size=8).map("".join), st.sampled_from(KNOWN_PASS))


PASS = passphrases()  # strategies are built once: building them inside a composite costs more than the checks


def in_form(s: str, form: str) -> str:
    return s if form == "asis" else unicodedata.normalize(form, s)


PASS_FORMS = ["asis", "NFC", "NFD", "NFKC", "NFKD"]
SEPS = [" ", "  ", "\t", "\n", "\u3000", " \r\n ", "\u00a0", "\u2003", "\u3000\u3000"]


def present(words: list[str], how: str, sel: int) -> str:
    """The same sentence, written another way btclib documents as equivalent (NFKD + whitespace collapse)."""
    if how == "plain":
        return " ".join(words)
    if how == "ideographic":
        return "\u3000".join(words)
    if how == "nfc":
        return unicodedata.normalize("NFC", " ".join(words))
    if how == "nfkc":
        return unicodedata.normalize("NFKC", " ".join(words))
    if how == "nfc-ideographic":
        return unicodedata.normalize("NFC", "\u3000".join(words))
    p = Picker(sel, "sep")
    out = SEPS[p.below(len(SEPS))] if how == "ws-edges" else ""
    for i, w in enumerate(words):
        out += w
        if i < len(words) - 1:
            out += SEPS[p.below(len(SEPS))]
    if how == "ws-edges":
        out += SEPS[p.below(len(SEPS))]
    return out


PRESENT = ["plain", "ideographic", "nfc", "nfkc", "nfc-ideographic", "ws", "ws-edges"]


def expected_dispatch(sentence: str, lang: str) -> list[str]:
    """dispatch.all_seed_types_from_mnemonic by the three models (slip39 share, electrum type, bip39 validity in `lang`)."""
    out = []
    try:
        s39.decode_share(sentence)
        out.append("slip39")
    except s39.RefError:
        pass
    t = el.seed_type(sentence)
    if t:
        out.append("electrum_" + t)
    words = b39.split_words(sentence)
    if words and lang in b39.LANGS and lang in b39.langs_holding(words):
        out.append("bip39" if b39.entropy_from_words(words, lang) is not None else "bip39_wordlist")
    return out


def check_dispatch(sentence: str, lang: str, where: str) -> None:
    want = expected_dispatch(sentence, lang)
    got = dispatch.all_seed_types_from_mnemonic(sentence, lang)
    # which schemes claim the sentence is the specifications' question; the order they are listed in is the library's
    if sorted(got) != sorted(want):
        raise Violation(f"dispatch:{where}:lib={'+'.join(got) or 'none'}:ref={'+'.join(want) or 'none'}", f"{sentence!r} lang={lang}")
    first = dispatch.seed_type_from_mnemonic(sentence, lang)
    if first not in (want or [""]):
        raise Violation(f"dispatch:{where}:first", f"{sentence!r} -> {first!r}")


# ================================================================ BIP39
SIZES = [128, 160, 192, 224, 256]


def binstr(b: bytes) -> str:
    return bin(int.from_bytes(b, "big"))[2:].zfill(8 * len(b))


_EDIT_KIND = st.sampled_from(["subst", "subst", "subst", "subst", "last", "trunc", "append", "foreign", "swap"])
_EDITS = {n: st.lists(st.tuples(_EDIT_KIND, st.integers(0, n - 1), st.integers(0, 2047)).map(list), min_size=8, max_size=8) for n in (12, 15, 18, 21, 24)}
_ENT = {n: st.binary(min_size=n // 8, max_size=n // 8) for n in SIZES}
_B39 = st.fixed_dictionaries({
    "size": st.sampled_from(SIZES), "shape": st.sampled_from(["random", "random", "random", "lead-zero", "lead-zero", "all-zero", "all-ones", "lead-zero-bits"]), "k": st.integers(1, 7),
    "lang": st.sampled_from(["ja", "es", "fr", "ko", "zh", "zh_tw", "cs", "it", "pt", "ru", "tr", "en"]), "form": st.sampled_from(["bytes", "binstr", "int", "hexstr-bytes", "bytes"]), "pass": PASS, "pass_form": st.sampled_from(PASS_FORMS),
    "present": st.sampled_from(["nfc", "ws-edges", "plain", "ideographic", "nfkc", "nfc-ideographic", "ws"]), "sel": st.integers(0, 2**32), "net": st.sampled_from(NETS),
})


@st.composite
def bip39_case(draw):
    d = draw(_B39)
    size, shape, k = d.pop("size"), d.pop("shape"), d.pop("k")
    ent = bytearray(draw(_ENT[size]))
    if shape == "lead-zero":
        for i in range(min(k, 5)):
            ent[i] = 0
    elif shape == "all-zero":
        ent = bytearray(size // 8)
    elif shape == "all-ones":
        ent = bytearray(b"\xff" * (size // 8))
    elif shape == "lead-zero-bits":
        ent[0] &= 0xFF >> k
    d["ent"] = bytes(ent).hex()
    d["edits"] = draw(_EDITS[size // 32 * 3])
    return d


EDIT_CLASS = {"subst": "checksum", "last": "checksum", "swap": "checksum", "trunc": "length", "append": "length", "foreign": "unknown-word"}


def apply_edit(words: list[str], lang: str, edit) -> list[str]:
    kind, pos, widx = edit
    wl = b39.wordlist(lang)
    w2 = list(words)
    pos %= len(w2)
    if kind == "subst":
        w2[pos] = wl[widx]
    elif kind == "last":
        w2[-1] = wl[widx]
    elif kind == "trunc":
        w2 = w2[: max(1, pos)]
    elif kind == "append":
        w2.append(wl[widx])
    elif kind == "foreign":
        other = b39.LANGS[(b39.LANGS.index(lang) + 1 + widx % 11) % 12]
        w2[pos] = b39.wordlist(other)[widx]
    elif kind == "swap":
        j = widx % len(w2)
        w2[pos], w2[j] = w2[j], w2[pos]
    return w2


def auto_expectation(words: list[str]):
    """What reading a sentence without naming the language must give: ('ok', entropy, langs) | ('refuse', None, langs)."""
    readings = b39.valid_readings(words)
    ents = set(readings.values())
    if len(ents) == 1:
        return "ok", next(iter(ents)), sorted(readings)
    return "refuse", None, sorted(readings)


def check_bip39(case):
    lang = case["lang"]
    E = bytes.fromhex(case["ent"])
    form = case["form"]
    if form == "int":
        v = int.from_bytes(E, "big")
        bits = next(s for s in SIZES if s >= max(v.bit_length(), 1))  # documented: an int is front-padded to the next allowed size
        E = v.to_bytes(bits // 8, "big")
        arg = v
    elif form == "binstr":
        arg = binstr(E)
    elif form == "hexstr-bytes":
        arg = bytearray(E)
    else:
        arg = E
    words = b39.words_from_entropy(E, lang)
    canonical = " ".join(words)
    # 1. encoding
    m = bip39.mnemonic_from_entropy(arg, lang)
    if b39.split_words(m) != words:
        raise Violation(f"bip39:encode-differs:{'int' if form == 'int' else 'bits'}", f"lang={lang} ent={E.hex()} lib={m!r} ref={canonical!r}")
    if m != ("\u3000" if lang == "ja" else " ").join(words):
        raise Violation(f"bip39:sentence-spelling:{'ja' if lang == 'ja' else 'other'}", f"lang={lang} lib={m!r}")
    # 2. round trip, language given
    back = bip39.entropy_from_mnemonic(m, lang)
    if back != binstr(E):
        raise Violation("bip39:roundtrip", f"lang={lang} ent={E.hex()} back={back}")
    # 3. another presentation of the same sentence
    shown = present(words, case["present"], case["sel"])
    got, err = lib_try(bip39.entropy_from_mnemonic, shown, lang)
    if got != binstr(E):
        raise Violation(f"bip39:presentation:{'unicode-form' if case['present'] in ('nfc', 'nfkc') else 'whitespace'}:{'refused' if err else 'differs'}", f"lang={lang} {shown!r} -> {got} {err}")
    # 4. language read off the words
    verdict, ent_auto, langs = auto_expectation(words)
    got, err = lib_try(bip39.entropy_from_mnemonic, shown)
    if (verdict == "ok") != (err is None) or (verdict == "ok" and got != binstr(ent_auto)):
        raise Violation(f"bip39:autodetect:{verdict}:lib={'refused' if err else 'answered'}", f"{shown!r} valid in {langs}: {got} {err}")
    got, err = lib_try(bip39.lang_from_mnemonic, nfkd(shown))
    if verdict == "ok" and (err is not None or got not in langs):
        raise Violation("bip39:lang_from_mnemonic:not-a-valid-language", f"{shown!r} valid in {langs}: {got} {err}")
    if verdict == "refuse" and err is None:
        raise Violation("bip39:lang_from_mnemonic:ambiguous-answered", f"{shown!r} valid in {langs}: {got}")
    # 5. seed and master key
    pw = case["pass"]
    pw_shown = in_form(pw, case["pass_form"])
    want_seed = b39.seed(canonical, pw)
    if verdict == "ok":
        seed = bip39.seed_from_mnemonic(shown, pw_shown)
    else:
        # valid under two lists with two entropies: the seed is the same whichever list is meant (it is stretched from the sentence), so a refusal and the seed are both right
        seed, err = lib_try(bip39.seed_from_mnemonic, shown, pw_shown)
        if seed is None:
            seed = bip39.seed_from_mnemonic(shown, pw_shown, verify_checksum=False)
    if seed != want_seed:
        raise Violation(f"bip39:seed-differs:{'passphrase-normalization' if nfkd(pw_shown) != pw_shown else ('sentence-normalization' if shown != canonical else 'plain')}", f"lang={lang} {shown!r} pass={pw_shown!r} lib={seed.hex()} ref={want_seed.hex()}")
    net = case["net"]
    k, c = bip32_ref.master(want_seed)
    want_x = b85.xprv_text(NETWORKS[net].bip32_prv, c, k.to_bytes(32, "big"))
    got_x = bip39.mxprv_from_mnemonic(shown, pw_shown if pw_shown else None, net, verify_checksum=verdict == "ok")
    if got_x != want_x:
        raise Violation("bip39:mxprv-differs", f"net={net} lib={got_x} ref={want_x}")
    # 6. edited sentences: accepted iff the specification's checksum accepts
    n_acc = 0
    for i, edit in enumerate(case["edits"]):
        w2 = apply_edit(words, lang, tuple(edit))
        s2 = " ".join(w2)
        model = b39.entropy_from_words(w2, lang)
        got, err = lib_try(bip39.entropy_from_mnemonic, s2, lang)
        if (got is None) != (model is None) or (model is not None and got != binstr(model)):
            raise Violation(f"bip39:edit-verdict:{EDIT_CLASS[edit[0]]}:lib={'ok' if got is not None else 'refused'}:ref={'ok' if model is not None else 'refused'}", f"lang={lang} {s2!r} lib={got} {err} ref={model and model.hex()}")
        n_acc += model is not None
        if i < 2:
            v2, _e2, l2 = auto_expectation(w2)
            got, err = lib_try(bip39.seed_from_mnemonic, s2, "")
            if (v2 == "ok") != (err is None):
                raise Violation(f"bip39:seed-gate:ref={v2}:lib={'refused' if err else 'answered'}", f"{s2!r} valid in {l2}")
            if bip39.seed_from_mnemonic(s2, "", verify_checksum=False) != b39.seed(s2, ""):
                raise Violation("bip39:seed-unverified-differs", s2)
            check_dispatch(s2, lang, "bip39-edit")
    check_dispatch(canonical, lang, "bip39")
    return Outcome(lang != "en" or case["present"] != "plain" or pw != "", (lang, f"bits={8 * len(E)}", form, f"present={case['present']}", f"pass={case['pass_form']}" if pw else "pass=empty", f"edits-accepted={n_acc}", f"auto={verdict}"))


# ---------------------------------------------------------------- every word at one position
def bip39_units(tier):
    units = []
    for li, lang in enumerate(b39.LANGS):
        for si, size in enumerate(SIZES):
            nwords = size // 32 * 3
            if tier == "quick":
                positions = sorted({(li * 5 + si * 7) % nwords, nwords - 1} if (li + si) % 2 else {(li * 3 + si) % nwords})
            else:
                positions = range(nwords)
            for pos in positions:
                units.append([lang, size, pos])
    return units


def bip39_run_unit(unit, col):
    lang, size, pos = unit
    E = bytearray(hashlib.sha256(f"c13-unit:{lang}:{size}:{pos}".encode()).digest()[: size // 8])
    if pos % 3 == 0:
        E[0] = 0
    words = b39.words_from_entropy(bytes(E), lang)
    wl = b39.wordlist(lang)
    acc = 0
    for w in wl:
        w2 = list(words)
        w2[pos] = w
        s2 = " ".join(w2)
        model = b39.entropy_from_words(w2, lang)
        got, err = lib_try(bip39.entropy_from_mnemonic, s2, lang)
        if (got is None) != (model is None) or (model is not None and got != binstr(model)):
            col.fail(f"bip39:all-words-verdict:lib={'ok' if got is not None else 'refused'}:ref={'ok' if model is not None else 'refused'}", {"unit": unit}, f"{s2!r} lib={got} {err} ref={model and model.hex()}")
            return
        acc += model is not None
    col.bulk(2048, 2047, {"lang": lang, "bits": size, "position": pos, "accepted": acc}, {"accepted": acc, "refused": 2048 - acc, f"units-{lang}": 1, f"units-bits={size}": 1})


# ---------------------------------------------------------------- sentences valid in two languages
_shared: dict = {}


def shared_words(a: str, b: str) -> list[str]:
    if (a, b) not in _shared:
        sb = set(b39.wordlist(b))
        _shared[(a, b)] = [w for w in b39.wordlist(a) if w in sb]
    return _shared[(a, b)]


_AMBIGUOUS = st.fixed_dictionaries({"pair": st.sampled_from([["en", "fr"], ["fr", "en"], ["zh", "zh_tw"], ["zh_tw", "zh"]]), "size": st.sampled_from(SIZES),
                                   "idx": st.lists(st.integers(0, 5000), min_size=24, max_size=24), "start": st.integers(0, 5000)})


def ambiguous_case():
    return _AMBIGUOUS


def check_ambiguous(case):
    a, b = case["pair"]
    sh = shared_words(a, b)
    nwords = case["size"] // 32 * 3
    head = [sh[i % len(sh)] for i in case["idx"][: nwords - 2]]
    found = {"both-different": None, "both-same": None, "only-a": None, "neither": None}
    span = len(sh) if len(sh) < 200 else 40
    for dp in range(span):
        for dl in range(span):
            w = head + [sh[(case["start"] + dp) % len(sh)], sh[(case["start"] * 7 + dl) % len(sh)]]
            ea, eb = b39.entropy_from_words(w, a), b39.entropy_from_words(w, b)
            kind = "neither" if ea is None and eb is None else ("only-a" if eb is None else (None if ea is None else ("both-same" if ea == eb else "both-different")))
            if kind and found[kind] is None:
                found[kind] = w
        if found["both-different"] or (found["both-same"] and a.startswith("zh")):
            break
    tags = []
    for kind, w in found.items():
        if w is None:
            continue
        s = " ".join(w)
        verdict, ent, langs = auto_expectation(w)
        got, err = lib_try(bip39.entropy_from_mnemonic, s)
        if (verdict == "ok") != (err is None) or (verdict == "ok" and got != binstr(ent)):
            raise Violation(f"bip39:autodetect:{kind}:ref={verdict}:lib={'refused' if err else 'answered'}", f"{s!r} valid in {langs}: lib={got} {err}")
        gl, err = lib_try(bip39.lang_from_mnemonic, s)
        if verdict == "ok" and (err is not None or gl not in langs):
            raise Violation(f"bip39:lang_from_mnemonic:{kind}:not-a-valid-language", f"{s!r} valid in {langs}: {gl} {err}")
        if kind == "both-different" and err is None:
            raise Violation("bip39:lang_from_mnemonic:ambiguous-answered", f"{s!r} -> {gl}")
        for l in (a, b):
            model = b39.entropy_from_words(w, l)
            got, err = lib_try(bip39.entropy_from_mnemonic, s, l)
            if (got is None) != (model is None) or (model is not None and got != binstr(model)):
                raise Violation("bip39:explicit-language-verdict", f"{s!r} lang={l} lib={got} ref={model and model.hex()}")
        # the seed gate: no seed for a sentence whose checksum holds under no list; otherwise the seed of the sentence (for two entropies, that or a refusal)
        seed, err = lib_try(bip39.seed_from_mnemonic, s, "")
        if kind == "neither":
            if seed is not None:
                raise Violation("bip39:seed:invalid-checksum-answered", s)
        elif (seed is None and kind != "both-different") or (seed is not None and seed != b39.seed(s, "")):
            raise Violation(f"bip39:seed:{kind}:lib={'refused' if seed is None else 'answered'}", f"{s!r} {err}")
        if bip39.seed_from_mnemonic(s, "", verify_checksum=False) != b39.seed(s, ""):
            raise Violation("bip39:seed-differs:unverified", s)
        tags.append(kind)
    return Outcome(bool(found["both-different"] or found["both-same"]), tuple(tags) + (f"{a}-{b}",))


# ---------------------------------------------------------------- sizes the BIP does not define
_SIZES = st.fixed_dictionaries({
    "lang": st.sampled_from(b39.LANGS), "kind": st.sampled_from(["bytes", "bytes", "binstr", "int", "sentence", "sentence"]),
    "nbytes": st.one_of(st.integers(1, 70), st.sampled_from([15, 17, 31, 33, 36, 40, 48, 63, 64, 65])), "nbits": st.integers(1, 540), "fill": st.integers(0, 2**32),
    "k": st.one_of(st.integers(1, 17), st.sampled_from([4, 5, 6, 7, 8, 16])), "extra": st.sampled_from([0, 0, -1, 1])})


def sizes_case():
    return _SIZES


def check_sizes(case):
    """Whatever the size handed in, a sentence that comes out is one BIP39 defines (12..24 words, ENT/32 checksum bits)
    carrying the leftmost bits handed in; a sentence of any other length is refused."""
    lang, kind = case["lang"], case["kind"]
    wl = b39.wordlist(lang)
    if kind == "sentence":
        # ENT = 32k bits, CS = k bits, 3k words, by the BIP's arithmetic extended to k the BIP does not list (k=4..8 are the BIP's)
        k = case["k"]
        ent = expand(case["fill"], "ent", 4 * k)
        bits = binstr(ent) + bin(int.from_bytes(hashlib.sha256(ent).digest(), "big"))[2:].zfill(256)[:k]
        words = [wl[int(bits[i : i + 11], 2)] for i in range(0, len(bits), 11)]
        if case["extra"] == 1:
            words.append(wl[case["fill"] % 2048])
        elif case["extra"] == -1 and len(words) > 1:
            words.pop()
        model = b39.entropy_from_words(words, lang)
        s = " ".join(words)
        got, err = lib_try(bip39.entropy_from_mnemonic, s, lang)
        if (got is None) != (model is None) or (model is not None and got != binstr(model)):
            raise Violation(f"bip39:nonstandard-size:words={len(words)}" if model is None else "bip39:standard-length-refused", f"lang={lang} {len(words)} words: lib={got and len(got)} bits {err}")
        got, err = lib_try(bip39.seed_from_mnemonic, s, "")
        if (err is None) != (auto_expectation(words)[0] == "ok"):
            raise Violation(f"bip39:nonstandard-size:words={len(words)}" if model is None else "bip39:seed-gate:standard-length", f"lang={lang} {s!r}")
        return Outcome(True, (f"sentence-words={len(words)}", "accepted" if model is not None else "refused"))
    if kind == "bytes":
        raw = expand(case["fill"], "raw", case["nbytes"])
        arg, given = raw, binstr(raw)
    elif kind == "binstr":
        given = binstr(expand(case["fill"], "raw", 70))[: case["nbits"]]
        arg = given
    else:
        v = int.from_bytes(expand(case["fill"], "raw", 70), "big") >> (560 - case["nbits"])
        arg, given = v, bin(v)[2:]
    m, err = lib_try(bip39.mnemonic_from_entropy, arg, lang)
    if m is None:
        if len(given) in SIZES and kind != "int":
            raise Violation("bip39:standard-size-refused", f"{kind} of {len(given)} bits: {err}")
        return Outcome(True, (f"{kind}-refused",))
    words = b39.split_words(m)
    ent = b39.entropy_from_words(words, lang)
    if ent is None:
        raise Violation(f"bip39:nonstandard-size:words={len(words)}", f"lang={lang} {kind} of {len(given)} bits -> {len(words)} words, not a sentence BIP39 defines")
    eb = binstr(ent)
    # an input longer than 256 bits is cut; the library reads octets as an integer first (tests/mnemonic/entropy_test.py pins that: 27 octets
    # holding a 211-bit value, asked for 214 bits, give the value's own bits), so the leftmost bits of either reading are accepted: which one
    # is outside the property, which quantifies over 128..256-bit entropies
    ok = eb == given if kind != "int" and len(given) in SIZES else (eb.lstrip("0") == given.lstrip("0") or given.startswith(eb) or given.lstrip("0").startswith(eb))
    if not ok:
        raise Violation(f"bip39:size-handling:{kind}", f"{len(given)} bits given, sentence carries {len(eb)} bits that are neither the value nor its leftmost bits")
    return Outcome(True, (f"{kind}-bits={'standard' if len(given) in SIZES else ('<128' if len(given) < 128 else ('>256' if len(given) > 256 else 'between'))}", f"words={len(words)}"))


# ================================================================ Electrum
ETYPES = ["standard", "segwit", "2fa", "2fa_segwit"]
ELANGS = el.LANGS  # electrum reads en, es, ja, pt, zh; btclib writes the other BIP39 lists under the same scheme
EMUT = ["mask-case", "ws", "upper", "nfc", "join", "strip-accents", "fullwidth", "subst", "drop-last", "hex-words", "old-words", "none"]
ALLOWED_BYTES = [16, 20, 24, 28, 32, 64]


def _ent_strategy(base):
    return st.one_of(
        st.integers(2**121 + 2**120, 2**132 - 1),  # what electrum draws: twelve words of a 2048-word list
        st.integers(2**127 + 2**126, 2**138 - 1),  # thirteen of the 1626-word one
        st.sampled_from([12, 13, 24, 11, 20, 21, 2, 1, 6, 18]).flatmap(lambda k: st.integers(1, 3000).map(lambda d: max(0, base**k - d))),  # the search crosses a word-count boundary
        st.integers(2**250, 2**256 - 1),
        st.integers(0, 2**140),
        st.integers(0, 5000),
    )


_E_ENT = {2048: _ent_strategy(2048), 1626: _ent_strategy(1626)}
_ELECTRUM = st.fixed_dictionaries({
    "lang": st.sampled_from(["ja", "pt", "es", "zh", "en", "fr", "it", "cs", "ko", "ru", "tr", "zh_tw"]), "type": st.sampled_from(ETYPES), "form": st.sampled_from(["int", "bytes", "int", "binstr", "int"]), "size": st.sampled_from(ALLOWED_BYTES),
    "pass": PASS, "pass_form": st.sampled_from(PASS_FORMS), "mut": st.sampled_from(EMUT), "sel": st.integers(0, 2**32), "net": st.sampled_from(NETS)})


@st.composite
def electrum_case(draw):
    d = draw(_ELECTRUM)
    ent = draw(_E_ENT[1626 if d["lang"] == "pt" else 2048])
    if d["form"] != "int":
        ent %= 1 << (8 * d["size"])
    else:
        d["size"] = 0
    d["ent"] = ent
    return d


def fullwidth(s: str) -> str:
    return "".join(chr(ord(ch) + 0xFEE0) if "!" <= ch <= "~" else ch for ch in s)


def mutate_electrum(m: str, lang: str, kind: str, sel: int) -> str:
    p = Picker(sel, "emut")
    words = m.split()
    if kind == "upper":
        return m.upper()
    if kind == "mask-case":
        return "".join(ch.upper() if p.below(2) else ch for ch in m)
    if kind == "nfc":
        return unicodedata.normalize("NFC", m)
    if kind == "ws":
        return present(words, "ws-edges", sel)
    if kind == "join":
        return "".join(words)
    if kind == "strip-accents":
        return "".join(ch for ch in nfkd(m) if not unicodedata.combining(ch))
    if kind == "fullwidth":
        return fullwidth(m)
    if kind == "subst" and words:
        words[p.below(len(words))] = el.wordlist(lang)[p.below(len(el.wordlist(lang)))]
        return " ".join(words)
    if kind == "drop-last":
        return " ".join(words[:-1])
    if kind == "hex-words":
        hw = ["beef", "face", "fade", "feed"]
        return " ".join(hw[p.below(4)] for _ in range([8, 16, 12, 7][p.below(4)]))
    if kind == "old-words":
        ow = el.old_wordlist()
        return " ".join(ow[p.below(1626)] for _ in range([12, 24, 12, 13][p.below(4)]))
    return m


def check_electrum(case):
    lang, typ, ent, form = case["lang"], case["type"], case["ent"], case["form"]
    if form == "bytes":
        arg = ent.to_bytes(case["size"], "big")
    elif form == "binstr":
        arg = bin(ent)[2:].zfill(8 * case["size"])
    else:
        arg = ent
    mref, iref = el.make_seed_from(ent, typ, lang)
    tref = el.seed_type(mref)
    want = mref if tref == typ else None  # electrum's seed_type has the last word: '2fa' wants 12 words or 20 and more
    m, err = lib_try(electrum.mnemonic_from_entropy, typ, arg, lang)
    cls = "pt" if lang == "pt" else "2048"
    if m != want:
        raise Violation(f"electrum:generate-differs:{cls}:lib={'refused' if m is None else 'answered'}:ref={'refused' if want is None else 'answered'}",
                        f"lang={lang} ent={ent} lib={m!r} {err} ref={mref!r} (ref type {tref!r}, encodes {iref})")
    nwords = len(mref.split())
    tags = [typ, lang, f"form={form}", f"words={nwords if nwords in (12, 13, 24) else ('<12' if nwords < 12 else 'other')}", f"mut={case['mut']}"]
    if want is None:
        return Outcome(True, (*tags, "generation-refused"))
    # decoding: the integer the search stopped at, and the law that ties the two directions
    got, err = lib_try(electrum.entropy_from_mnemonic, m, lang)
    if got is None or int(got, 2) != iref:
        raise Violation(f"electrum:decode-differs:{cls}", f"lang={lang} {m!r}: lib={got} {err} ref={iref}")
    if electrum.mnemonic_from_entropy(typ, iref - 1, lang) != m:
        raise Violation("electrum:regenerate-from-decoded-minus-one", f"lang={lang} {m!r}")
    holders = [l for l in ELANGS if all(w in el._load(l)[1] for w in m.split())]
    got_l, err_l = lib_try(electrum.lang_from_mnemonic, m)
    got, err = lib_try(electrum.entropy_from_mnemonic, m)
    if len(holders) == 1:
        if got_l != lang or got is None or int(got, 2) != iref:
            raise Violation("electrum:autodetect:unique-language", f"{m!r} only in {holders}: lang={got_l} {err_l} entropy={got} {err}")
    elif err_l is None or err is None:
        raise Violation("electrum:autodetect:ambiguous-answered", f"{m!r} in {holders}: lang={got_l} entropy={got}")
    # the sentence as a user may type it: version, normalized text, seed, master key -- all against electrum's reading of it
    mut = mutate_electrum(m, lang, case["mut"], case["sel"])
    t = el.seed_type(mut)
    got, err = lib_try(electrum.version_from_mnemonic, mut)
    if t == "":
        if err is None:
            raise Violation(f"electrum:version:unversioned-accepted:{case['mut']}", f"{mut!r} -> {got}")
    elif got != (t, el.normalize_text(mut)):
        raise Violation(f"electrum:version-differs:{case['mut']}", f"{mut!r}: lib={got} {err} ref={(t, el.normalize_text(mut))}")
    pw = in_form(case["pass"], case["pass_form"])
    want_seed = el.mnemonic_to_seed(mut, pw)
    got, err = lib_try(electrum._seed_from_mnemonic, mut, pw)
    if (t == "") != (got is None) or (got is not None and got != (t, want_seed)):
        raise Violation(f"electrum:seed-differs:{'passphrase-normalization' if el.normalize_text(pw) != pw else ('plain' if mut == m else 'typed:' + case['mut'])}", f"{mut!r} pass={pw!r}: lib={got and (got[0], got[1].hex())} {err} ref={(t, want_seed.hex())}")
    got, err = lib_try(electrum.mxprv_from_mnemonic, mut, pw if pw else None, case["net"])
    if t in ("standard", "segwit"):
        wx = electrum_xprv(want_seed, t, case["net"])
        if got != wx:
            raise Violation(f"electrum:mxprv-differs:{t}", f"{mut!r} net={case['net']}: lib={got} {err} ref={wx}")
    elif err is None and t in ("", "old"):
        # (the two-factor types are documented as not derived here; a library that learns them is none of this property's business)
        raise Violation(f"electrum:mxprv:answered-for:{t or 'unversioned'}", f"{mut!r} -> {got}")
    # decoding what was typed: electrum's mnemonic_decode of the NFKD lower-cased words
    got, err = lib_try(electrum.entropy_from_mnemonic, mut, lang)
    if t in ("", "old"):
        want_i = None
    else:
        try:
            want_i = el.mnemonic_decode(nfkd(mut).lower(), lang)
        except KeyError:
            want_i = None
    # a sentence without a version prefix is refused; the sentence as it was made decodes to its entropy; how many mis-typed spellings a decoder forgives is its
    # own choice, but what it answers for one is the entropy of the words electrum reads there
    strict = t in ("", "old") or mut == m
    if ((got is None) != (want_i is None) and strict) or (got is not None and want_i is not None and int(got, 2) != want_i):
        raise Violation(f"electrum:decode-typed:lib={'refused' if got is None else 'answered'}:ref={'refused' if want_i is None else 'answered'}", f"{mut!r} lang={lang}: lib={got} {err} ref={want_i}")
    if (got is None) != (want_i is None):
        tags.append("typed-decode:lib=" + ("refused" if got is None else "answered"))
    check_dispatch(m, lang, "electrum")
    if case["mut"] in ("hex-words", "old-words", "subst"):
        check_dispatch(mut, lang, "electrum-mutated")
    tags.append(f"typed-as={t or 'none'}")
    return Outcome(lang != "en" or case["mut"] != "none", tuple(tags))


# ---------------------------------------------------------------- pre-2.0 seeds
_OLD = st.fixed_dictionaries({
    "kind": st.sampled_from(["hex32", "hex64", "hex32", "hex-other", "words", "words", "bad-hex"]), "hex": st.binary(min_size=32, max_size=32).map(bytes.hex), "groups": st.integers(1, 10),
    "idx": st.lists(st.integers(0, 1625), min_size=24, max_size=24), "n": st.sampled_from([12, 24, 12, 24, 3, 9, 13, 18]), "show": st.sampled_from(["plain", "upper", "ws", "mask-case"]),
    "sel": st.integers(0, 2**32), "stretch": st.integers(0, 3).map(lambda v: v == 0), "bad": st.sampled_from(["odd", "not-multiple-of-8", "non-hex", "spaces", "underscore", "empty"]),
    "pass": st.sampled_from(["", "", "", "x", "TREZOR"])})


def old_case():
    return _OLD


def check_old(case):
    kind = case["kind"]
    ow = el.old_wordlist()
    if kind == "bad-hex":
        h = case["hex"]
        bad = {"odd": h[:31], "not-multiple-of-8": h[:36], "non-hex": "g" + h[1:32], "spaces": h[:8] + " " + h[8:15], "underscore": h[:4] + "_" + h[5:16], "empty": ""}[case["bad"]]
        got, err = lib_try(electrum.old_mnemonic_from_hex_seed, bad)
        if case["bad"] == "empty":
            return Outcome(False, ("bad-hex:empty",))  # zero groups: electrum's mn_encode answers [] too
        if err is None:
            raise Violation(f"electrum-old:encode:bad-hex-accepted:{case['bad']}", f"{bad!r} -> {got!r}")
        return Outcome(True, (f"bad-hex:{case['bad']}",))
    if kind == "words":
        sentence = " ".join(ow[i] for i in case["idx"][: case["n"]])
    else:
        hx = {"hex32": case["hex"][:32], "hex64": case["hex"], "hex-other": (case["hex"] * 2)[: 8 * case["groups"]]}[kind]
        enc, err = lib_try(electrum.old_mnemonic_from_hex_seed, hx)
        if enc is None and kind == "hex-other":
            return Outcome(False, ("hex-other-refused",))  # only the 128- and 256-bit seeds are Electrum's own; other multiples of 32 bits are the encoder's to take or leave
        if enc != " ".join(el.mn_encode(hx)):
            raise Violation("electrum-old:encode-differs", f"{hx} -> {enc!r}")
        if electrum.old_mnemonic_from_hex_seed(hx.upper()) != enc:
            raise Violation("electrum-old:encode-upper-hex", hx)
        sentence = enc
    shown = {"plain": sentence, "upper": sentence.upper(), "ws": present(sentence.split(), "ws-edges", case["sel"]), "mask-case": mutate_electrum(sentence, "en", "mask-case", case["sel"])}[case["show"]]
    is_old = el.is_old_seed(shown)
    got, err = lib_try(electrum.hex_seed_from_old_mnemonic, shown)
    want = el.old_format_seed(shown) if is_old else None
    if got != want:
        raise Violation(f"electrum-old:decode-differs:lib={'refused' if got is None else 'answered'}:ref={'refused' if want is None else 'answered'}", f"{shown!r}: lib={got} {err} ref={want}")
    if kind in ("hex32", "hex64") and got != hx:
        raise Violation("electrum-old:roundtrip", f"{hx} -> {shown!r} -> {got}")
    t = el.seed_type(shown)
    gv, err = lib_try(electrum.version_from_mnemonic, shown)
    if (gv[0] if gv else "") != t:
        raise Violation("electrum-old:version-differs", f"{shown!r}: lib={gv} ref={t!r}")
    tags = [kind, f"words={len(sentence.split())}", "old" if is_old else f"not-old:{t or 'none'}", case["show"]]
    if is_old:
        for f in (electrum.entropy_from_mnemonic, electrum.mxprv_from_mnemonic):
            _g, err = lib_try(f, shown)
            if err is None:
                raise Violation(f"electrum-old:{f.__name__}-answered", shown)
        # the hex form of the seed is itself an old seed
        if kind in ("hex32", "hex64"):
            for h in (hx, hx.upper()):
                if electrum.hex_seed_from_old_mnemonic(h) != hx or electrum.version_from_mnemonic(h)[0] != "old":
                    raise Violation("electrum-old:hex-string-as-seed", h)
        if case["stretch"]:
            strict_hex = len(want) % 2 == 0 and all(ch in "0123456789abcdef" for ch in want)
            k, err = lib_try(electrum.old_master_prv_key_from_mnemonic, shown, case["pass"] or None)
            if case["pass"] or not strict_hex:
                if err is None:
                    raise Violation(f"electrum-old:stretch:answered:{'passphrase' if case['pass'] else 'not-octets'}", f"{shown!r} -> {want}")
                tags.append("stretch-refused")
            else:
                wk = el.old_stretch_key(want.encode())
                if k != wk:
                    raise Violation("electrum-old:stretch-differs", f"{want}: lib={k} ref={wk}")
                P = fastec.mul(wk, fastec.G)
                if electrum.old_master_pub_key_from_mnemonic(shown) != (P[0].to_bytes(32, "big") + P[1].to_bytes(32, "big")).hex():
                    raise Violation("electrum-old:master-pub-key-differs", want)
                tags.append("stretched")
        check_dispatch(shown, "en", "electrum-old")
    return Outcome(True, tuple(tags))


# ================================================================ SLIP39
ASCII = st.text(alphabet=st.characters(min_codepoint=32, max_codepoint=126), max_size=12)
S_FAULTS = ["minus-member", "mixed-same-id", "minus-group", "plus-member", "plus-group", "duplicate", "mixed-other-id", "subst-1", "subst-2", "subst-3", "none",
            "tamper-id", "tamper-ext", "tamper-e", "tamper-GT", "tamper-G", "tamper-MT", "tamper-MI", "tamper-GI", "tamper-value", "tamper-padding", "tamper-checksum-kind"]


FAULT_CLASS = {"minus-member": "below-threshold", "minus-group": "below-threshold", "plus-member": "above-threshold", "plus-group": "above-threshold", "duplicate": "above-threshold",
               "mixed-same-id": "foreign-share", "mixed-other-id": "foreign-share", "subst-1": "word-substitution", "subst-2": "word-substitution", "subst-3": "word-substitution",
               "tamper-MI": "share-integrity", "tamper-GI": "share-integrity", "tamper-value": "share-integrity", "tamper-padding": "share-encoding", "tamper-checksum-kind": "share-encoding"}
CODEC_CLASS = {"subst-1": "checksum", "subst-2": "checksum", "subst-3": "checksum", "transpose": "checksum", "checksum-kind": "checksum", "padding": "length-or-padding", "odd-value": "length-or-padding",
               "add-word": "length-or-padding", "drop-word": "length-or-padding", "short-value": "length-or-padding", "GT>G": "fields", "case": "words", "ws": "words", "foreign-word": "words", "none": "none"}


def group_shapes():
    """1..16 groups of (member threshold, member count); threshold 1 only with a single member (the SLIP forbids 1-of-N).
    The head of every list is a non-degenerate value: Hypothesis favours the head of a sampled_from."""
    tn = st.integers(2, 16).flatmap(lambda n: st.tuples(st.integers(2, n), st.just(n))).map(list)
    small = st.sampled_from([[2, 3], [3, 5], [2, 2], [1, 1], [3, 3], [2, 5], [4, 6], [16, 16], [15, 16], [2, 16], [1, 1]])
    shape = st.one_of(small, tn)
    return st.sampled_from([3, 2, 4, 1, 5, 2, 8, 16, 3, 12]).flatmap(lambda k: st.lists(shape, min_size=k, max_size=k))


_GROUPS = group_shapes()
_SECRET = st.sampled_from([16, 32, 18, 20, 24, 28, 30, 64, 16, 32]).flatmap(lambda n: st.binary(min_size=n, max_size=n)).map(bytes.hex)


def _slip39_fixed(min_e, max_e):
    return st.fixed_dictionaries({
        "arm": st.sampled_from(["lib-split", "ref-split"]), "secret": _SECRET, "zero_lead": st.integers(0, 3), "pass": ASCII, "wrong_pass": ASCII, "e": st.integers(min_e, max_e), "ext": st.booleans(),
        "groups": _GROUPS, "gt_sel": st.sampled_from([1, 15, 0, 2, 3, 4, 5, 7, 11]), "rnd": st.integers(0, 2**64), "pick": st.integers(0, 2**64), "fault": st.sampled_from(S_FAULTS), "net": st.sampled_from(["mainnet", "testnet"])})


def _slip39_fix(d):
    # group threshold 1..G: the low values and G itself are the interesting ones
    sel, g = d.pop("gt_sel"), len(d["groups"])
    d["gt"] = g if sel == 15 else 1 + sel % g  # 2 (when there are 2 groups or more) and G first
    return d


_SLIP39 = {e: _slip39_fixed(*e).map(_slip39_fix) for e in ((0, 1), (2, 4))}


def slip39_case():
    return _SLIP39[(0, 1)]


def slip39_high_e_case():
    return _SLIP39[(2, 4)]


def make_split(case, secret: bytes, rnd_seed: int, first: bytes = b"", identifier=None):
    """-> list of groups, each {"GI", "MT", "members": [(MI, mnemonic)]}, made by the library or by the model (arbitrary indexes).
    With an identifier given, the model makes the split under it with the indexes a library split has (0, 1, 2, ...)."""
    groups, gt = case["groups"], case["gt"]
    rnd = Rnd(rnd_seed, first)
    if identifier is not None:
        spec = [{"GI": gi, "MT": g[0], "MIs": list(range(g[1]))} for gi, g in enumerate(groups)]
        mns = s39.generate(secret, case["pass"], case["e"], identifier, case["ext"], gt, spec, rnd, group_count=len(groups))
        return [{"GI": sp["GI"], "MT": sp["MT"], "members": list(zip(sp["MIs"], ms))} for sp, ms in zip(spec, mns)]
    if case["arm"] == "lib-split":
        mns = slip39.mnemonics_from_master_secret(secret, [tuple(g) for g in groups], gt, case["pass"], case["e"], case["ext"], rnd)
        if len(mns) != len(groups) or any(len(ms) != g[1] for ms, g in zip(mns, groups)):
            raise Violation("slip39:generate:shape", f"groups={groups}: {[len(x) for x in mns]}")
        return [{"GI": gi, "MT": g[0], "members": list(enumerate(ms))} for gi, (g, ms) in enumerate(zip(groups, mns))]
    p = Picker(case["pick"], "indexes")
    identifier = int.from_bytes(rnd(2), "big") & 0x7FFF
    gcount = max(len(groups), 1 + p.below(16))
    gis = p.sample(list(range(gcount)), len(groups))
    spec = [{"GI": gi, "MT": g[0], "MIs": p.sample(list(range(16)), g[1])} for gi, g in zip(gis, groups)]
    mns = s39.generate(secret, case["pass"], case["e"], identifier, case["ext"], gt, spec, rnd, group_count=gcount)
    return [{"GI": s["GI"], "MT": s["MT"], "members": list(zip(s["MIs"], ms))} for s, ms in zip(spec, mns)]


def check_share_fields(split, case, secret_len: int) -> int:
    """Every mnemonic of a split decodes, by the model, to the fields the configuration dictates."""
    ids = set()
    for g in split:
        for mi, m in g["members"]:
            try:
                sh = s39.decode_share(m)
            except s39.RefError as ex:
                raise Violation("slip39:generate:share-invalid-by-spec", f"{m!r}: {ex}") from None
            ids.add(sh["id"])
            want = {"ext": case["ext"], "e": case["e"], "GI": g["GI"], "GT": case["gt"], "MI": mi, "MT": g["MT"]}
            bad = [k for k, v in want.items() if sh[k] != v]
            if bad or len(sh["value"]) != secret_len or sh["G"] < len(split):
                raise Violation(f"slip39:generate:share-fields:{'+'.join(bad) or 'length'}", f"{m!r} -> {sh}")
    if len(ids) != 1:
        raise Violation("slip39:generate:identifiers-differ", str(ids))
    return ids.pop()


def tamper(m: str, what: str, p: Picker, used_mi: set) -> str:
    sh = s39.decode_share(m)
    pad = 0
    kind = None
    if what == "id":
        sh["id"] ^= 1 << p.below(15)
    elif what == "ext":
        sh["ext"] = not sh["ext"]
    elif what == "e":
        sh["e"] ^= 1
    elif what == "GT":
        sh["GT"] = sh["GT"] % 16 + 1
        sh["G"] = max(sh["G"], sh["GT"]) if p.below(2) else sh["G"]
    elif what == "G":
        sh["G"] = sh["G"] % 16 + 1
    elif what == "MT":
        sh["MT"] = sh["MT"] % 16 + 1
    elif what == "MI":
        free = [i for i in range(16) if i not in used_mi]
        sh["MI"] = free[p.below(len(free))] if free else (sh["MI"] + 1) % 16
    elif what == "GI":
        sh["GI"] = (sh["GI"] + 1 + p.below(15)) % 16
    elif what == "value":
        v = bytearray(sh["value"])
        v[p.below(len(v))] ^= 1 << p.below(8)
        sh["value"] = bytes(v)
    elif what == "padding":
        pad = 1 + p.below(255)
    elif what == "checksum-kind":
        kind = not sh["ext"]
    out = s39.encode_share(sh, pad_bits_value=pad)
    if kind is not None:  # the checksum of the other customization string over unchanged data
        words = out.split()
        data = [s39._index[w] for w in words[:-3]]
        out = " ".join(words[:-3] + [s39.wordlist()[i] for i in s39.rs1024_create(data, kind)])
    return out


def check_slip39(case):
    secret = bytearray(bytes.fromhex(case["secret"]))
    for i in range(case["zero_lead"]):
        secret[i] = 0
    secret = bytes(secret)
    pw, fault = case["pass"], case["fault"]
    split = make_split(case, secret, case["rnd"])
    identifier = check_share_fields(split, case, len(secret))
    p = Picker(case["pick"], "subset")
    chosen = p.sample(list(range(len(split))), case["gt"])
    picked = {gi: p.sample(split[gi]["members"], split[gi]["MT"]) for gi in chosen}
    subset = p.shuffle([m for gi in chosen for _mi, m in picked[gi]])
    # a qualifying subset, in any order, recovers the secret; the model agrees
    try:
        ref_val = s39.recover(subset, pw)
    except s39.RefError as ex:
        if case["arm"] == "ref-split":
            raise HarnessError(f"model cannot recover its own split: {ex}") from None
        raise Violation("slip39:generate:not-recoverable-by-spec", f"{ex}: {subset}") from None
    if ref_val != secret:
        if case["arm"] == "ref-split":
            raise HarnessError("model recovers another secret from its own split")
        raise Violation("slip39:generate:spec-recovers-another-secret", f"{ref_val.hex()} != {secret.hex()}")
    got, err = lib_try(slip39.master_secret_from_mnemonics, subset, pw)
    if got != secret:
        raise Violation(f"slip39:recover:{'refused' if err else 'wrong-secret'}:{case['arm']}", f"groups={case['groups']} gt={case['gt']} chosen={[(split[g]['GI'], [mi for mi, _ in picked[g]]) for g in chosen]}: {got and got.hex()} {err}")
    # a wrong passphrase gives another secret, the one the specification defines
    wp = case["wrong_pass"] if case["wrong_pass"] != pw else pw + "!"
    got = slip39.master_secret_from_mnemonics(subset, wp)
    if got == secret or got != s39.recover(subset, wp):
        raise Violation("slip39:wrong-passphrase", f"pass={pw!r} wrong={wp!r}: lib={got.hex()} ref={s39.recover(subset, wp).hex()}")
    # master key, share codec, dispatch
    k, c = bip32_ref.master(secret)
    if slip39.mxprv_from_mnemonics(subset, pw if pw else None, case["net"]) != b85.xprv_text(NETWORKS[case["net"]].bip32_prv, c, k.to_bytes(32, "big")):
        raise Violation("slip39:mxprv-differs", case["net"])
    for m in subset[:3]:
        sh, rs = slip39.share_from_mnemonic(m), s39.decode_share(m)
        lib_fields = {"id": sh.identifier, "ext": sh.extendable, "e": sh.iteration_exponent, "GI": sh.group_index, "GT": sh.group_threshold, "G": sh.group_count, "MI": sh.member_index, "MT": sh.member_threshold, "value": sh.value}
        if lib_fields != rs:
            raise Violation("slip39:share-decode-differs", f"{m!r}: lib={lib_fields} ref={rs}")
        if slip39.mnemonic_from_share(sh) != m:
            raise Violation("slip39:share-reencode-differs", m)
    if dispatch.seed_type_from_mnemonic(subset[0]) != "slip39":
        raise Violation("dispatch:slip39-share-not-first", subset[0])
    # one fault
    must_refuse = True
    bad = list(subset)
    spare_members = [(gi, mm) for gi in chosen for mm in split[gi]["members"] if mm not in picked[gi]]
    if (fault == "plus-member" and not spare_members) or (fault == "plus-group" and len(chosen) == len(split)) or (fault.startswith("mixed") and len(subset) < 2):
        fault = "minus-member"
    if fault == "none":
        bad = None
    elif fault == "minus-member":
        bad.pop(p.below(len(bad)))
    elif fault == "minus-group":
        gi = chosen[p.below(len(chosen))]
        drop = {m for _mi, m in picked[gi]}
        bad = [m for m in bad if m not in drop]
    elif fault == "plus-member":
        cands = [(gi, mm) for gi in chosen for mm in split[gi]["members"] if mm not in picked[gi]]
        if not cands:
            bad = None
        else:
            bad.insert(p.below(len(bad) + 1), cands[p.below(len(cands))][1][1])
            must_refuse = False  # documented: exactly the threshold; answering with the secret would still honour the property
    elif fault == "plus-group":
        rest = [gi for gi in range(len(split)) if gi not in chosen]
        if not rest:
            bad = None
        else:
            gi = rest[p.below(len(rest))]
            bad += [m for _mi, m in p.sample(split[gi]["members"], split[gi]["MT"])]
            bad = p.shuffle(bad)
            must_refuse = False
    elif fault == "duplicate":
        bad.insert(p.below(len(bad) + 1), bad[p.below(len(bad))])
        must_refuse = False
    elif fault in ("mixed-same-id", "mixed-other-id"):
        if len(subset) < 2:
            bad = None
        else:
            other = bytes(x ^ 0x5A for x in secret)
            first = Rnd(case["rnd"])(2) if fault == "mixed-same-id" else b""
            case_b = dict(case, pick=case["pick"])  # same configuration and indexes, other coefficients
            # (a library split under the same identifier is made by the model: where in its stream of random bytes a library takes the identifier from is its own affair)
            split_b = make_split(case_b, other, case["rnd"] + 1, first, identifier if fault == "mixed-same-id" and case["arm"] == "lib-split" else None)
            gi = chosen[p.below(len(chosen))]
            mi, m = picked[gi][p.below(len(picked[gi]))]
            mb = dict(split_b[gi]["members"])[mi]
            bad[bad.index(m)] = mb
    elif fault.startswith("subst-"):
        j = p.below(len(bad))
        words = bad[j].split()
        for pos in p.sample(list(range(len(words))), int(fault[-1])):
            words[pos] = s39.wordlist()[(s39._index[words[pos]] + 1 + p.below(1023)) % 1024]
        bad[j] = " ".join(words)
    else:
        j = p.below(len(bad))
        sh = s39.decode_share(bad[j])
        used = {mi for g in split if g["GI"] == sh["GI"] for mi, _ in g["members"]}
        bad[j] = tamper(bad[j], fault[7:], p, used)
        must_refuse = False  # decided by the model below
    tags = [case["arm"], f"fault={fault}", f"groups={min(len(split), 5) if len(split) < 16 else 16}", f"gt={min(case['gt'], 4)}",
            f"max-t={max(g['MT'] for g in split) if max(g['MT'] for g in split) < 5 else '5+'}", f"e={case['e']}", f"ext={case['ext']}", f"secret={len(secret)}B"]
    if bad is not None:
        try:
            model = s39.recover(bad, pw)
        except s39.RefError:
            model = None
        if must_refuse and model is not None:
            raise HarnessError(f"the model accepts a share set the property says must be refused: {fault}")
        got, err = lib_try(slip39.master_secret_from_mnemonics, bad, pw)
        if fault in ("plus-member", "plus-group", "duplicate"):
            ok = got is None or got == secret
        else:
            ok = got == model
        if not ok:
            raise Violation(f"slip39:fault:{FAULT_CLASS.get(fault, fault)}:lib={'refused' if got is None else 'answered'}:ref={'refused' if model is None else 'answered'}", f"groups={case['groups']} gt={case['gt']}: lib={got and got.hex()} {err} ref={model and model.hex()}")
        tags.append("faulty-set-refused" if got is None else "faulty-set-answered")
    nt = len(subset) >= 2 or case["arm"] == "ref-split"
    return Outcome(nt, tuple(tags))


# ---------------------------------------------------------------- refusals at generation
_S_REFUSAL = st.fixed_dictionaries({
    "kind": st.sampled_from(["1-of-N", "t>n", "t=0", "gt>G", "gt=0", "odd-secret", "short-secret", "non-ascii-pass", "control-char-pass", "e=16", "e=-1", "17-groups", "17-members", "no-groups", "ext-not-bool",
                             "recover-non-ascii-pass", "recover-empty"]),
    "n": st.integers(2, 16), "secret": st.binary(min_size=32, max_size=32).map(bytes.hex), "ch": st.sampled_from(["\u00e9", "\u007f", "\u001f", "\u3000", "\u0100"])})


def slip39_refusal_case():
    return _S_REFUSAL


def check_slip39_refusal(case):
    kind, n, secret = case["kind"], case["n"], bytes.fromhex(case["secret"])
    rnd = Rnd(1)
    kw = {"master_secret": secret[:16], "groups": [(2, 3)], "group_threshold": 1, "passphrase": "", "iteration_exponent": 0, "extendable": True, "entropy_source": rnd}
    if kind == "1-of-N":
        kw["groups"] = [(1, n)]
    elif kind == "t>n":
        kw["groups"] = [(n, n - 1)]
    elif kind == "t=0":
        kw["groups"] = [(0, n)]
    elif kind == "gt>G":
        kw["groups"], kw["group_threshold"] = [(2, 3)] * (n - 1), n
    elif kind == "gt=0":
        kw["group_threshold"] = 0
    elif kind == "odd-secret":
        kw["master_secret"] = secret[: 15 + 2 * (n // 2)]
    elif kind == "short-secret":
        kw["master_secret"] = secret[: min(14, n - n % 2)]
    elif kind in ("non-ascii-pass", "control-char-pass"):
        kw["passphrase"] = "abc" + (case["ch"] if kind == "non-ascii-pass" else "\n")
    elif kind == "e=16":
        kw["iteration_exponent"] = 16
    elif kind == "e=-1":
        kw["iteration_exponent"] = -1
    elif kind == "17-groups":
        kw["groups"], kw["group_threshold"] = [(1, 1)] * 17, 2
    elif kind == "17-members":
        kw["groups"] = [(2, 17)]
    elif kind == "no-groups":
        kw["groups"], kw["group_threshold"] = [], 0
    elif kind == "ext-not-bool":
        kw["extendable"] = 1
    if kind.startswith("recover-"):
        mns = slip39.mnemonics_from_master_secret(secret[:16], [(1, 1)], 1, "", 0, True, rnd)[0]
        got, err = lib_try(slip39.master_secret_from_mnemonics, [] if kind == "recover-empty" else mns, "abc" + case["ch"] if kind != "recover-empty" else "")
    else:
        got, err = lib_try(slip39.mnemonics_from_master_secret, **kw)
    if err is None:
        raise Violation(f"slip39:refusal:answered:{kind}", f"{kw if not kind.startswith('recover') else kind}")
    return Outcome(True, (kind,))


# ---------------------------------------------------------------- the share codec on arbitrary fields
def _codec_fix(d):
    # the group count covers the threshold and the share's own group index (SLIP-0039 is silent on an index beyond the count: not generated)
    d["G"] = min(16, max(d["GT"], d["GI"] + 1) + d.pop("G_extra"))
    return d


_CODEC = st.fixed_dictionaries({
    "id": st.one_of(st.integers(0, 32767), st.sampled_from([0, 32767, 16384])), "ext": st.booleans(), "e": st.integers(0, 15), "GI": st.integers(0, 15), "GT": st.integers(1, 16), "G_extra": st.integers(0, 15),
    "MI": st.integers(0, 15), "MT": st.integers(1, 16), "value": st.sampled_from([32, 16, 28, 18, 20, 22, 24, 26, 30, 40, 64]).flatmap(lambda n: st.binary(min_size=n, max_size=n)).map(bytes.hex),
    "zero_lead": st.integers(0, 3),
    "mut": st.sampled_from(["padding", "none", "subst-3", "subst-1", "subst-2", "GT>G", "checksum-kind", "drop-word", "add-word", "odd-value", "short-value", "transpose", "case", "ws", "foreign-word", "none"]),
    "sel": st.integers(0, 2**32)}).map(_codec_fix)


def codec_case():
    return _CODEC


def check_codec(case):
    v = bytearray(bytes.fromhex(case["value"]))
    for i in range(case["zero_lead"]):
        v[i] = 0
    sh = {k: case[k] for k in s39.FIELDS}
    sh["value"] = bytes(v)
    p = Picker(case["sel"], "codec")
    mut = case["mut"]
    m = s39.encode_share(sh)
    enc, err = lib_try(lambda: slip39.mnemonic_from_share(slip39.Share(sh["id"], sh["ext"], sh["e"], sh["GI"], sh["GT"], sh["G"], sh["MI"], sh["MT"], sh["value"])))
    if enc != m:
        raise Violation("slip39:codec:encode-differs", f"{sh} lib={enc!r} ref={m!r}")
    words = m.split()
    wl = s39.wordlist()
    if mut.startswith("subst-"):
        for pos in p.sample(list(range(len(words))), int(mut[-1])):
            words[pos] = wl[(s39._index[words[pos]] + 1 + p.below(1023)) % 1024]
        t = " ".join(words)
    elif mut == "padding":
        t = s39.encode_share(sh, pad_bits_value=1 + p.below(255))
    elif mut == "GT>G":
        t = s39.encode_share(dict(sh, GT=min(16, sh["G"] + 1 + p.below(3)), G=sh["G"] if sh["G"] < 16 else 15))
    elif mut == "checksum-kind":
        t = tamper(m, "checksum-kind", p, set())
    elif mut == "drop-word":
        data = [s39._index[w] for w in words[:-3]]
        data.pop(4 + p.below(len(data) - 4))
        t = " ".join(wl[i] for i in data + s39.rs1024_create(data, sh["ext"]))
    elif mut == "add-word":
        data = [s39._index[w] for w in words[:-3]]
        data.insert(4, 0 if p.below(2) else p.below(1024))
        t = " ".join(wl[i] for i in data + s39.rs1024_create(data, sh["ext"]))
    elif mut == "odd-value":
        t = s39.encode_share(dict(sh, value=sh["value"] + b"\x01"))
    elif mut == "short-value":
        t = s39.encode_share(dict(sh, value=sh["value"][: 2 * p.below(8)]))
    elif mut == "transpose":
        i = p.below(len(words) - 1)
        words[i], words[i + 1] = words[i + 1], words[i]
        t = " ".join(words)
    elif mut == "case":
        t = m.upper() if p.below(2) else m.title()
    elif mut == "ws":
        t = present(words, "ws-edges", case["sel"])
    elif mut == "foreign-word":
        words[p.below(len(words))] = ["abandon", "zoo", "", "acid1", "zzzz"][p.below(5)] or "x"
        t = " ".join(words)
    else:
        t = m
    try:
        model = s39.decode_share(t)
    except s39.RefError:
        model = None
    if mut == "ws" and model != sh:
        raise HarnessError("model does not read a share whose words are separated by other whitespace")
    got, err = lib_try(slip39.share_from_mnemonic, t)
    lib_fields = got and {"id": got.identifier, "ext": got.extendable, "e": got.iteration_exponent, "GI": got.group_index, "GT": got.group_threshold, "G": got.group_count, "MI": got.member_index, "MT": got.member_threshold, "value": got.value}
    if mut == "case":
        # SLIP-0039 does not speak of letter case: a reader may fold it or refuse it, and what it reads is the share
        model = sh if got is not None else None
    if lib_fields != model:
        raise Violation(f"slip39:codec:decode-verdict:{CODEC_CLASS[mut]}:lib={'refused' if got is None else 'answered'}:ref={'refused' if model is None else 'answered'}", f"{t!r}: lib={lib_fields} {err} ref={model}")
    if mut.startswith("subst-") and t != m and model is not None:
        raise HarnessError("RS1024 failed to detect <= 3 substitutions in the model")
    want_d = ["slip39"] if model is not None else []
    got_d = [x for x in dispatch.all_seed_types_from_mnemonic(t) if x == "slip39"]
    if got_d != want_d:
        raise Violation("dispatch:slip39-claim", f"{t!r}: {got_d} vs {want_d}")
    return Outcome(True, (f"mut={mut}", "accepted" if model is not None else "refused", f"value={len(sh['value'])}B", f"e={'0-1' if sh['e'] < 2 else '2-15'}"))


# ---------------------------------------------------------------- every subset of small configurations
def small_configs(max_shares: int):
    shapes = [(1, 1)] + [(t, n) for n in range(2, max_shares + 1) for t in range(2, n + 1)]
    out = []
    for k in range(1, max_shares + 1):
        for combo in itertools.combinations_with_replacement(shapes, k):
            if sum(n for _t, n in combo) <= max_shares:
                for gt in range(1, k + 1):
                    out.append([[list(g) for g in combo], gt])
    return out


def subsets_units(tier):
    cfgs = small_configs(5 if tier == "quick" else 7)
    return [[i, groups, gt] for i, (groups, gt) in enumerate(cfgs)]


def subsets_run_unit(unit, col):
    i, groups, gt = unit
    secret = hashlib.sha256(f"c13-subsets:{i}".encode()).digest()[: 16 if i % 3 else 32]
    pw = ["", "TREZOR", "p w"][i % 3]
    case = {"groups": groups, "gt": gt, "arm": "ref-split" if i % 2 else "lib-split", "pass": pw, "e": 0, "ext": bool(i % 4 < 2), "pick": i, "rnd": i}
    split = make_split(case, secret, i)
    check_share_fields(split, case, len(secret))
    shares = [(gi, m) for gi, g in enumerate(split) for _mi, m in g["members"]]
    p = Picker(i, "orders")
    evals = nontriv = exact_n = 0
    verdicts = {"exact-recovered": 0, "below-refused": 0, "above-refused": 0, "above-recovered": 0}
    for mask in range(1, 1 << len(shares)):
        sub = [shares[j] for j in range(len(shares)) if mask >> j & 1]
        per_group = {}
        for gi, _m in sub:
            per_group[gi] = per_group.get(gi, 0) + 1
        exact = len(per_group) == gt and all(c == split[gi]["MT"] for gi, c in per_group.items())
        meets = sum(1 for gi, c in per_group.items() if c >= split[gi]["MT"]) >= gt
        ms = [m for _gi, m in sub]
        if exact:
            orders = list(itertools.permutations(ms)) if len(ms) <= 3 else [ms, ms[::-1], p.shuffle(ms), p.shuffle(ms)]
        else:
            orders = [p.shuffle(ms)]
        for order in orders:
            got, err = lib_try(slip39.master_secret_from_mnemonics, list(order), pw)
            evals += 1
            if exact:
                if got != secret:
                    col.fail(f"slip39:subsets:qualifying-{'refused' if got is None else 'wrong-secret'}", {"unit": unit}, f"subset mask {mask:b} order {[ms.index(m) for m in order]}: {got and got.hex()} {err}")
                    return
                verdicts["exact-recovered"] += 1
                nontriv += len(ms) > 1
            else:
                if got is not None and not (meets and got == secret):
                    col.fail(f"slip39:subsets:{'above' if meets else 'below'}-threshold-answered", {"unit": unit}, f"subset mask {mask:b}: {got.hex()} (secret {secret.hex()})")
                    return
                verdicts[("above-" if meets else "below-") + ("refused" if got is None else "recovered")] += 1
                nontriv += 1
        exact_n += exact
    col.bulk(evals, nontriv, {"groups": groups, "group_threshold": gt, "shares": len(shares), "qualifying_subsets": exact_n, "arm": case["arm"]}, {k: v for k, v in verdicts.items() if v})


# ================================================================ BIP85
APPS = ["mnemonic", "dice", "entropy", "wif", "xprv", "hex", "base64", "base85", "drng", "rsa", "bad-path", "public-root", "mnemonic", "entropy"]
IDX = st.one_of(st.sampled_from([0, 1, 2**31 - 1, 2**31 - 2]), st.integers(0, 2**31 - 1), st.integers(0, 50))


_BIP85 = st.fixed_dictionaries({
    "seed": st.sampled_from([16, 32, 64]).flatmap(lambda n: st.binary(min_size=n, max_size=n)).map(bytes.hex), "net": st.sampled_from(["mainnet", "testnet", "regtest"]),
    "version": st.sampled_from(["bip32", "bip32", "slip132_p2wpkh", "slip132_p2wsh_p2sh"]), "root": st.sampled_from(["master", "master", "derived"]),
    "app": st.sampled_from(APPS), "index": IDX, "words": st.sampled_from([12, 15, 18, 21, 24, 24, 12, 13, 0, 48]), "lang": st.sampled_from(b39.LANGS),
    "num_bytes": st.one_of(st.integers(16, 64), st.sampled_from([15, 16, 64, 65, 0])), "pwd_len": st.one_of(st.integers(10, 86), st.sampled_from([9, 10, 19, 20, 80, 81, 86, 87])),
    "sides": st.one_of(st.integers(2, 300), st.sampled_from([2, 6, 255, 256, 257, 65536, 65537, 1, 2**31 - 1])), "rolls": st.one_of(st.integers(1, 40), st.sampled_from([0, 1, 100])),
    "path": st.lists(IDX, min_size=1, max_size=5), "bad": st.sampled_from(["unhardened-level", "wrong-purpose", "unhardened-purpose", "too-short"]), "pos": st.integers(0, 5),
    "chunks": st.lists(st.integers(0, 40), min_size=1, max_size=6), "key_bits": st.sampled_from([1024, 2048, 4096]), "sub_key": st.sampled_from([None, 0, 1, 2]),
    "form": st.sampled_from(["str", "bytes", "keydata"])})


def bip85_case():
    return _BIP85


def _refused(f, *a, **kw):
    try:
        f(*a, **kw)
    except (BTClibValueError, BTClibTypeError, BTClibRuntimeError):
        return True
    return False


def check_bip85(case):
    seed = bytes.fromhex(case["seed"])
    net = NETWORKS[case["net"]]
    version = getattr(net, case["version"] + "_prv")
    mk, mc = bip32_ref.master(seed)
    if case["root"] == "derived":  # a derived key as the root of a keychain of its own (documented)
        P = fastec.mul(mk, fastec.G)
        fp = bip32_ref.hash160(bip32_ref.ser_p(P))[:4]
        i0 = H + case["index"]
        mk, mc = bip32_ref.ckd_priv(mk, mc, i0)
        raw = version + b"\x01" + fp + i0.to_bytes(4, "big") + mc + b"\x00" + mk.to_bytes(32, "big")
    else:
        raw = version + b"\x00" * 9 + mc + b"\x00" + mk.to_bytes(32, "big")
    root = base58_ref.check_encode(raw)
    if case["form"] == "bytes":
        root = root.encode()
    elif case["form"] == "keydata":
        from btclib.bip32 import BIP32KeyData

        root = BIP32KeyData.b58decode(root)
    app, idx = case["app"], case["index"]
    P85 = H + b85.PURPOSE

    def ent(path):
        return b85.entropy(mk, mc, path)

    tags = [app, case["root"], case["form"]]
    if app == "entropy":
        path = [P85] + [H + i for i in case["path"]]
        if len(path) < 3:
            path += [H, H]
        spelled = "m/" + "/".join(f"{i - H}{'h' if k % 2 else chr(39)}" for k, i in enumerate(path)) if case["pos"] % 2 else path
        got = bip85.entropy_from_der_path(root, spelled)
        if got != ent(path):
            raise Violation("bip85:entropy-differs", f"path={path}: lib={got.hex()} ref={ent(path).hex()}")
        tags.append(f"levels={len(path)}")
    elif app == "mnemonic":
        words, lang = case["words"], case["lang"]
        ok = words in b85.WORDS_ENT and lang in b85.LANG_CODE
        got, err = lib_try(bip85.mnemonic_from_root_key, root, words, lang, idx)
        if not ok:
            if err is None:
                raise Violation(f"bip85:mnemonic:answered:{'words' if words not in b85.WORDS_ENT else 'unnumbered-language'}", f"words={words} lang={lang} -> {got!r}")
            tags.append("refused")
        else:
            e = ent([P85, H + 39, H + b85.LANG_CODE[lang], H + words, H + idx])
            want = b85.mnemonic(e, words, lang)
            if got is None or b39.split_words(got) != want:
                raise Violation("bip85:mnemonic-differs", f"words={words} lang={lang} index={idx}: lib={got!r} {err} ref={' '.join(want)!r}")
            if bip39.entropy_from_mnemonic(got, lang) != binstr(e[: b85.WORDS_ENT[words]]):
                raise Violation("bip85:mnemonic-entropy", got)
            tags += [lang, f"words={words}"]
    elif app == "wif":
        e = ent([P85, H + 2, H + idx])
        k = int.from_bytes(e[:32], "big")
        got, err = lib_try(bip85.wif_from_root_key, root, idx)
        want = base58_ref.check_encode(net.wif + e[:32] + b"\x01") if 0 < k < bip32_ref.n else None
        if got != want:
            raise Violation("bip85:wif-differs", f"index={idx} net={case['net']}: lib={got} {err} ref={want}")
    elif app == "xprv":
        e = ent([P85, H + 32, H + idx])
        got = bip85.xprv_from_root_key(root, idx)
        want = b85.xprv_text(net.bip32_prv, e[:32], e[32:])
        if got != want:
            raise Violation("bip85:xprv-differs", f"index={idx}: lib={got} ref={want}")
    elif app == "hex":
        nb = case["num_bytes"]
        got, err = lib_try(bip85.bytes_entropy_from_root_key, root, nb, idx)
        want = ent([P85, H + 128169, H + nb, H + idx])[:nb] if 16 <= nb <= 64 else None
        if got != want:
            raise Violation(f"bip85:hex:{'bounds' if want is None else 'differs'}", f"num_bytes={nb}: lib={got and got.hex()} {err}")
        tags.append("refused" if want is None else "answered")
    elif app in ("base64", "base85"):
        ln = case["pwd_len"]
        lo, hi, code, f, enc = (20, 86, 707764, bip85.base64_password_from_root_key, b85.base64_text) if app == "base64" else (10, 80, 707785, bip85.base85_password_from_root_key, b85.base85_text)
        got, err = lib_try(f, root, ln, idx)
        want = enc(ent([P85, H + code, H + ln, H + idx]))[:ln] if lo <= ln <= hi else None
        if got != want:
            raise Violation(f"bip85:{app}:{'bounds' if want is None else 'differs'}", f"pwd_len={ln}: lib={got!r} {err} ref={want!r}")
        tags.append("refused" if want is None else "answered")
    elif app == "dice":
        sides, rolls = case["sides"], case["rolls"]
        got, err = lib_try(bip85.rolls_from_root_key, root, rolls, sides, idx)
        want = b85.dice(ent([P85, H + 89101, H + sides, H + rolls, H + idx]), sides, rolls) if sides >= 2 and rolls >= 1 else None
        if got != want:
            raise Violation(f"bip85:dice:{'bounds' if want is None else 'differs'}", f"sides={sides} rolls={rolls}: lib={got} {err} ref={want}")
        tags.append(f"sides={'pow2' if sides & (sides - 1) == 0 else 'other'}")
    elif app in ("drng", "rsa"):
        if app == "drng":
            path = [P85, H, H + idx]
            d = bip85.drng_from_der_path(root, path)
        else:
            path = [P85, H + 828365, H + case["key_bits"], H + idx] + ([H + case["sub_key"]] if case["sub_key"] is not None else [])
            d = bip85.rsa_drng_from_root_key(root, case["key_bits"], idx, case["sub_key"])
        stream = b"".join(d.read(n) for n in case["chunks"])
        want = b85.drng(ent(path), sum(case["chunks"]))
        if stream != want:
            raise Violation(f"bip85:{app}-stream-differs", f"chunks={case['chunks']}")
        if not _refused(bip85.BIP85DRNG, ent(path)[:63]):
            raise Violation("bip85:drng:bad-argument-accepted", "")
    elif app == "bad-path":
        path = [P85, H + 39] + [H + i for i in case["path"]]
        bad = case["bad"]
        if bad == "unhardened-level":
            j = 1 + case["pos"] % (len(path) - 1)
            path[j] -= H
        elif bad == "wrong-purpose":
            path[0] = H + b85.PURPOSE + 1 + case["pos"]
        elif bad == "unhardened-purpose":
            path[0] = b85.PURPOSE
        else:
            path = path[: 1 + case["pos"] % 2]
            # a path that stops before the application's index: refused, or answered with the BIP's HMAC of the key it does reach
            got, err = lib_try(bip85.entropy_from_der_path, root, path)
            if got is not None and got != ent(path):
                raise Violation(f"bip85:bad-path-answered:{bad}", str(path))
            return Outcome(True, (*tags, bad))
        if not _refused(bip85.entropy_from_der_path, root, path):
            raise Violation(f"bip85:bad-path-answered:{bad}", str(path))
        tags.append(bad)
    elif app == "public-root":
        if case["root"] == "derived":
            return Outcome(False, ("public-root-skipped",))
        Pm = fastec.mul(mk, fastec.G)
        xpub = base58_ref.check_encode(getattr(net, case["version"] + "_pub") + b"\x00" * 9 + mc + bip32_ref.ser_p(Pm))
        for f, a in ((bip85.entropy_from_der_path, ([P85, H, H],)), (bip85.mnemonic_from_root_key, ()), (bip85.wif_from_root_key, ()), (bip85.xprv_from_root_key, ())):
            if not _refused(f, xpub, *a):
                raise Violation(f"bip85:public-root-answered:{f.__name__}", xpub)
    return Outcome(True, tuple(tags))


SUBCHECKS = [
    SubCheck("bip39", check_bip39, "mnemonic == BIP39 model's; decodes to the entropy in every presentation; language read off the words; seed and master key == PBKDF2 / BIP32 model for unicode "
             "passphrases in 5 normal forms; 8 edited sentences per case accepted iff the model's checksum accepts; non-trivial: non-English, non-plain presentation or a passphrase", bip39_case, quick=1600, thorough=16000),
    SubCheck("bip39_all_words", lambda c: None, "all 2048 words of the list at one position of a valid sentence (12 lists x 5 sizes; thorough: every position): accepted iff the model accepts, with the model's entropy; distinct by construction",
             units=bip39_units, run_unit=bip39_run_unit, exhaustive=True),
    SubCheck("bip39_ambiguous", check_ambiguous, "sentences built from words two lists share (en/fr, zh/zh_tw), searched for validity in one, both or neither: auto-detection answers iff exactly one entropy is valid", ambiguous_case, quick=160, thorough=1600),
    SubCheck("bip39_sizes", check_sizes, "inputs and sentences of sizes BIP39 does not define (1..70 bytes, 1..540 bits, 2..52 words): whatever is emitted or accepted is a 12..24-word sentence with the BIP's checksum", sizes_case, quick=1500, thorough=15000),
    SubCheck("electrum", check_electrum, "mnemonic_from_entropy == Electrum's make_seed search (model) for 4 types x 12 lists; decodes to the integer found; version/normalized text/seed/master key of mutated spellings "
             "(case, NFC, whitespace, CJK joined, accents stripped, fullwidth, substitutions, hex-like and old-list words) == model; non-trivial: non-English or mutated", electrum_case, quick=256, thorough=2560),
    SubCheck("electrum_old", check_old, "pre-2.0 seeds: hex <-> words == old_mnemonic model, recognised as 'old', stretch and master public key == model, refusals", old_case, quick=400, thorough=4000),
    SubCheck("slip39", lambda c: check_slip39(c), "split by the library or by the model (arbitrary group/member indexes); a generated qualifying subset in a generated order recovers the secret == model; wrong passphrase == model != secret; "
             "one fault per case (below threshold, mixed splits, word substitutions, tampered re-checksummed fields) decided by the model; non-trivial: >= 2 shares combined or model-made indexes", slip39_case, quick=900, thorough=9000),
    SubCheck("slip39_high_exponent", lambda c: check_slip39(c), "the same with iteration exponents 2..4", slip39_high_e_case, quick=48, thorough=480),
    SubCheck("slip39_subsets", lambda c: None, "every non-empty subset of every configuration with <= 5 (thorough 7) shares: exact-threshold subsets recover in every order tried (all permutations up to 3 shares), the others are refused; distinct by construction",
             units=subsets_units, run_unit=subsets_run_unit, exhaustive=True),
    SubCheck("slip39_codec", check_codec, "Share <-> mnemonic == model for arbitrary fields (all 16 exponents, indexes, thresholds, value lengths); mutated mnemonics accepted iff the model accepts (RS1024, padding, lengths, GT>G)", codec_case, quick=4000, thorough=40000),
    SubCheck("slip39_refusals", check_slip39_refusal, "documented refusals of generation and recovery parameters", slip39_refusal_case, quick=170, thorough=1000),
    SubCheck("bip85", check_bip85, "entropy == HMAC-SHA512('bip-entropy-from-k', model's hardened child key); mnemonic/WIF/xprv/hex/base64/base85/dice/DRNG applications == model; bounds and path refusals", bip85_case, quick=1500, thorough=15000),
]
