"""C11 — PSBT roles are lossless, order-independent and never alias their arguments."""

from __future__ import annotations

import copy
import itertools
import json
import random

from hypothesis import strategies as st

from btclib.bip32 import rootxprv_from_seed
from btclib.exceptions import BTClibRuntimeError, BTClibTypeError, BTClibValueError
from btclib.psbt import Psbt
from btclib.psbt.psbt import assert_signatures_only, combine, extract_tx, finalize, join, new_signers
from btclib.psbt_signer import SoftwareSigner, request_signatures
from vlib import worlds
from vlib.gens import psbts as gp
from vlib.models import psbt_ref as pref
from vlib.runner import Outcome, SubCheck, Violation

PROPERTY = "C11"
LEVEL = "exploration"
RULE = (
    "Field-populated PSBTs (v0/v2, every optional field present/absent, falsy-but-present values forced) split at the key-value level into 2..4 non-conflicting copies: "
    "combine over every permutation and two bracketings must give one serialization holding exactly the union of the operands' pairs, leave operands unchanged and unaliased; "
    "wallet worlds for the role histories: sign / combine / finalize / convert keep the transaction identity, return fresh objects, and a signer's tampered answer is refused."
)
ASSUMPTIONS = ["psbt_ref (independent BIP174 map splitter) reads key-value pairs; 'non-conflicting' is by construction: a key carries one value across all copies",
               "finalized inputs are not part of the combine domain (known finding K8 of C05: signing fields beside a final script are dropped by design)"]
LIBEXC = (BTClibValueError, BTClibTypeError, BTClibRuntimeError)

# key types that identify the transaction / must be in every copy
CORE_GLOBAL = {0x00, 0x02, 0x03, 0x04, 0x05, 0x06, 0xFB}
CORE_IN = {0x0E, 0x0F, 0x10, 0x11, 0x12}  # outpoint, and what the v2 transaction (sequence, lock time) is computed from
CORE_OUT = {0x03, 0x04, 0x09}  # amount, script, and the silent-payment info that stands in for the script in the identifier (BIP375)


@st.composite
def combine_case(draw):
    return {"psbt": draw(gp.psbt_case(dirty_finalized=False)), "k": draw(st.integers(2, 4)), "seed": draw(st.integers(0, 10**6)), "mismatch": draw(st.sampled_from(["none", "none", "none", "lock_time", "version", "sequence"]))}


def _is_finalized(case_psbt):
    return any(gp.is_present(i.get("final_script_sig")) or gp.is_present(i.get("final_script_witness")) for i in case_psbt["inputs"])


def _unfinalized(case_psbt):
    c = json.loads(json.dumps(case_psbt))
    for i in c["inputs"]:
        i["final_script_sig"] = None
        i["final_script_witness"] = []
    return c


def check_combine(case):
    case = dict(case, psbt=_unfinalized(case["psbt"]))  # finalized inputs are outside the combine domain (K8)
    p = gp.build_psbt(case["psbt"])
    b = p.serialize()
    maps = pref.split(b)
    n_in = len(p.inputs)
    rng = random.Random(case["seed"])
    k = case["k"]
    copies = [[[] for _ in maps] for _ in range(k)]
    n_extra = 0
    for mi, m in enumerate(maps):
        core = CORE_GLOBAL if mi == 0 else CORE_IN if mi <= n_in else CORE_OUT
        for key, val in m:
            if key[0] in core:
                owners = range(k)
            else:
                n_extra += 1
                owners = [c for c in range(k) if rng.random() < 0.5] or [rng.randrange(k)]
            for c in owners:
                copies[c][mi].append((key, val))
    operands = []
    for c in copies:
        try:
            operands.append(Psbt.parse(pref.join(c)))
        except LIBEXC:
            return Outcome(False, ("partition-not-valid-alone",))  # e.g. a label without the info it labels
    before = [o.serialize() for o in operands]
    union = sorted({x for o in before for x in pref.pairs(o)})
    # every permutation, flat
    results = set()
    perms = list(itertools.permutations(range(k)))
    rng.shuffle(perms)
    for perm in perms[:24]:
        r = combine([operands[i] for i in perm])
        results.add(r.serialize())
    # two bracketings
    if k >= 3:
        results.add(combine([combine(operands[:2]), *operands[2:]]).serialize())
        results.add(combine([operands[0], combine(operands[1:])]).serialize())
    if len(results) != 1:
        a, b2 = sorted(results)[:2]
        pa, pb = pref.pairs(a), pref.pairs(b2)
        diff = [x for x in pa if x not in pb] + [x for x in pb if x not in pa]
        t = diff[0] if diff else (0, b"", b"")
        raise Violation(f"combine:order-dependent:map={'global' if t[0] == 0 else 'input' if t[0] <= n_in else 'output'}:type=0x{t[1][:1].hex()}", f"{len(results)} different results; e.g. pair {t[0]} {t[1].hex()} {t[2].hex()[:40]}")
    out = results.pop()
    got = pref.pairs(out)
    if got != union:
        lost = [x for x in union if x not in got]
        gained = [x for x in got if x not in union]
        t = (lost or gained)[0]
        raise Violation(f"combine:{'pair-lost' if lost else 'pair-invented'}:map={'global' if t[0] == 0 else 'input' if t[0] <= n_in else 'output'}:type=0x{t[1][:1].hex()}", f"lost={[(i, k_.hex(), v.hex()[:20]) for i, k_, v in lost[:3]]} gained={[(i, k_.hex(), v.hex()[:20]) for i, k_, v in gained[:3]]}")
    if out != b:
        raise Violation("combine:union-differs-from-original", "")
    # idempotence and no mutation of operands
    try:
        alone = combine([p]).serialize()
    except LIBEXC:
        alone = b  # a Combiner may ask for two psbts: the property speaks of a psbt combined with itself
    if combine([p, p]).serialize() != b or alone != b:
        raise Violation("combine:not-idempotent", "")
    if [o.serialize() for o in operands] != before:
        raise Violation("combine:operand-mutated", "")
    # no aliasing: mutate the result's containers, operands must not see it
    r = combine(operands)
    for inp in r.inputs:
        inp.partial_sigs[b"\x02" + b"\x77" * 32] = b"\x30\x06\x02\x01\x01\x02\x01\x01\x01"
        inp.unknown[b"\xf0zz"] = b"zz"
        inp.hd_key_paths.clear()
        inp.taproot_script_spend_signatures.clear()
    for o_ in r.outputs:
        o_.unknown[b"\xf1zz"] = b"zz"
        o_.hd_key_paths.clear()
    r.unknown[b"\xf2zz"] = b"zz"
    r.hd_key_paths.clear()
    if [o.serialize() for o in operands] != before:
        raise Violation("combine:result-aliases-operand", "")
    shared = _shared_mutables(combine(operands), operands)
    if shared:
        raise Violation(f"combine:result-shares-an-object-with-an-operand:{shared}", "")
    # different transactions are refused
    mm = case["mismatch"]
    if mm != "none":
        other = json.loads(json.dumps(case["psbt"]))
        if mm == "lock_time":
            other["fallback_lock_time"] = (other.get("fallback_lock_time") or 0) ^ 1
        elif mm == "version":
            other["tx_version"] = (other.get("tx_version") or 2) + 1
        else:
            other["inputs"][0]["sequence"] = (other["inputs"][0].get("sequence") or 0) ^ 1
        try:
            q = gp.build_psbt(other)
        except LIBEXC:
            return Outcome(True, (f"v{p.version}", f"k={k}", "mismatch-not-buildable"))
        try:
            combine([p, q])
            refused = False
        except BTClibValueError:
            refused = True
        # v2: the unique id is sequence-blind, so a differing sequence is the same transaction; v0: another unsigned tx
        must_refuse = not (mm == "sequence" and p.version == 2)
        if p.version == 2 and mm == "lock_time" and any(gp.is_present(i.get("required_time_lock_time")) or gp.is_present(i.get("required_height_lock_time")) for i in case["psbt"]["inputs"]):
            must_refuse = None  # the fallback does not determine the lock time when an input requires one: either answer is defensible
        if must_refuse is True and not refused:
            raise Violation(f"combine:different-transactions-merged:{mm}:v{p.version}", "")
        if must_refuse is False and refused:
            raise Violation("combine:same-v2-transaction-refused:sequence", "")
    return Outcome(n_extra >= 2, (f"v{p.version}", f"k={k}", f"extras={min(n_extra, 10)}"))


# ---------------------------------------------------------------- role histories over wallet worlds
PLAIN_KINDS = ["pkh", "wpkh", "sh_wpkh", "multi_bare", "multi_sh", "multi_wsh", "sortedmulti_wsh", "multi_sh_wsh", "tr_key"]


@st.composite
def roles_case(draw):
    return {"world": draw(worlds.world_case(max_inputs=3, kinds=PLAIN_KINDS)), "tamper": draw(st.sampled_from(["none", "amount", "script", "drop-utxo", "add-unknown", "foreign-signature", "add-input", "sequence", "derivation", "sighash-byte", "sighash-byte"])), "seed": draw(st.integers(0, 10**6)),
            "ops": draw(st.lists(st.sampled_from(["to_v2", "to_v0", "reparse", "sign0", "sign1", "sign2", "combine-self", "finalize"]), max_size=6))}


def _identity(p: Psbt):
    return (p.tx.id, p.lock_time, len(p.inputs), len(p.outputs))


def check_roles(case):
    w = case["world"]
    res = worlds.run_world(w)
    if not res.get("ok"):
        return Outcome(False, ("world-refused",))  # C10 reports refusals
    unsigned = Psbt.b64decode(res["unsigned_psbt_b64"])
    signed = Psbt.b64decode(res["signed_psbt_b64"])
    final = Psbt.b64decode(res["finalized_psbt_b64"])
    tx_hex = res["tx_hex"]
    signers = [SoftwareSigner(rootxprv_from_seed(bytes.fromhex(s))) for s in w["seeds"]]
    ident = _identity(unsigned)
    # identity through the stages the world went through
    for name, p in (("signed", signed), ("finalized", final)):
        if _identity(p) != ident:
            raise Violation(f"roles:identity-changed:{name}", "")
    # conversions
    for name, p in (("unsigned", unsigned), ("signed", signed), ("finalized", final)):
        v0, v2 = p.to_v0(), p.to_v2()
        if v0.tx.id != unsigned.to_v0().tx.id or v2.unique_id != unsigned.to_v2().unique_id or v0.lock_time != ident[1] or v2.lock_time != ident[1]:
            raise Violation(f"roles:conversion-changes-transaction:{name}", "")
        # the converted psbt is an encoding of its own (object equality with its re-parse is C05's question)
        if Psbt.parse(v0.serialize()).serialize() != v0.serialize() or Psbt.parse(v2.serialize()).serialize() != v2.serialize():
            raise Violation(f"roles:converted-psbt-does-not-reparse:{name}", "")
        # there and back: version 0 cannot say everything version 2 can (to_v0 documents what is dropped), so it is the transaction that must survive; the
        # psbt's own version comes back byte for byte
        back0, back2 = v2.to_v0(), v0.to_v2()
        if back0.tx.id != v0.tx.id or back2.unique_id != v2.unique_id or back0.lock_time != ident[1] or back2.lock_time != ident[1]:
            raise Violation(f"roles:conversion-round-trip:{name}", "")
        if (p.version == 0 and back0.serialize() != p.serialize()) or (p.version == 2 and back2.to_v0().serialize() != v0.serialize()):
            raise Violation(f"roles:conversion-round-trip:{name}", "bytes")
    for conv in (final.to_v0(), final.to_v2()):
        if extract_tx(conv).serialize(True).hex() != tx_hex:
            raise Violation("roles:extract-differs-across-versions", "")
    # history: every role returns a fresh object and leaves its arguments unchanged
    cur = unsigned
    tags = []
    for op in case["ops"]:
        before = cur.serialize()
        try:
            if op == "to_v2":
                nxt = cur.to_v2()
            elif op == "to_v0":
                nxt = cur.to_v0()
            elif op == "reparse":
                nxt = Psbt.parse(cur.serialize())
            elif op.startswith("sign"):
                j = int(op[4:]) % len(signers)
                nxt = request_signatures(signers[j], cur)
            elif op == "combine-self":
                nxt = combine([cur, Psbt.parse(cur.serialize())])
            else:
                nxt = finalize(cur)
        except LIBEXC as e:
            # a role may refuse (finalizing before every signature is there, signing a finalized psbt): the argument must still be untouched
            if cur.serialize() != before:
                raise Violation(f"roles:argument-mutated-by-refusing-role:{op}", "")
            if not (op.startswith("sign") or op == "finalize"):
                raise Violation(f"roles:valid-psbt-refused:{op}", str(e)[:200]) from e  # converting, re-parsing and combining with itself have nothing to refuse
            tags.append(f"{op}:refused")
            continue
        if cur.serialize() != before:
            raise Violation(f"roles:argument-mutated:{op}", "")
        if nxt is cur:
            raise Violation(f"roles:same-object-returned:{op}", "")
        if _identity(nxt) != ident:
            raise Violation(f"roles:identity-changed:{op}", "")
        # aliasing: mutating the result's containers must not reach the argument
        snap = nxt.serialize()
        shared = _shared_mutables(nxt, [cur])
        if shared:
            raise Violation(f"roles:result-shares-an-object-with-the-argument:{op}:{shared}", "")
        for inp in nxt.inputs:
            inp.unknown[b"\xf0probe"] = b"x"
            inp.partial_sigs.pop(next(iter(inp.partial_sigs)), None) if inp.partial_sigs else None
        if cur.serialize() != before:
            raise Violation(f"roles:result-aliases-argument:{op}", "")
        nxt = Psbt.parse(snap)
        cur = nxt
        tags.append(op)
    # a signer's answer: accepted only if it differs by valid added signatures
    t = case["tamper"]
    j0 = next((j for j in w["sign_order"]), 0)
    returned = signers[j0].sign_psbt(unsigned)
    assert_signatures_only(unsigned, returned)
    fps = new_signers(unsigned, returned)
    added = returned.serialize() != unsigned.serialize()
    if added and fps != {signers[j0].master_fingerprint}:
        raise Violation("signer_answer:new_signers-wrong", f"{[f.hex() for f in fps]} vs {signers[j0].master_fingerprint.hex()}")
    if t == "sighash-byte":
        # the answer of every signer in turn (one device holding all the keys would answer so): an input of a multisig then gains several signatures at once,
        # and each of them is held to the hash of its own sighash byte
        for s_ in signers:
            returned = s_.sign_psbt(returned)
        try:
            assert_signatures_only(unsigned, returned)
        except LIBEXC as e:
            raise Violation("signer_answer:honest-answer-of-all-signers-refused", str(e)[:200]) from e
    if t != "none":
        bad = Psbt.parse(returned.serialize())
        rng = random.Random(case["seed"])
        changed = True
        if t == "amount":
            o = rng.choice(bad.outputs)
            o.amount = (o.amount or 0) + 1
        elif t == "script":
            o = rng.choice(bad.outputs)
            o.script_pub_key = b"\x51" + bytes(o.script_pub_key)
        elif t == "drop-utxo":
            i = rng.choice(bad.inputs)
            if i.witness_utxo is not None:
                i.witness_utxo = None
            elif i.non_witness_utxo is not None:
                i.non_witness_utxo = None
            else:
                changed = False
        elif t == "add-unknown":
            rng.choice(bad.inputs).unknown[b"\xf0evil"] = b"\x01"
        elif t == "foreign-signature":
            i = next((x for x in bad.inputs if x.partial_sigs), None)
            if i is None:
                changed = False
            else:
                key = next(iter(i.partial_sigs))
                sig = bytearray(i.partial_sigs[key])
                sig[10] ^= 1
                i.partial_sigs[key] = bytes(sig)
        elif t == "sighash-byte":
            # the sighash byte of one new signature -- the last one of the input with the most of them -- replaced by another defined type: the DER stays
            # valid, the signature is no longer one of the hash it now claims
            i = max(bad.inputs, key=lambda x: len(x.partial_sigs))
            if not i.partial_sigs:
                changed = False
            else:
                key = sorted(i.partial_sigs)[-1] if rng.random() < 0.7 else rng.choice(sorted(i.partial_sigs))
                sig = i.partial_sigs[key]
                i.partial_sigs[key] = sig[:-1] + bytes([0x02 if sig[-1] != 0x02 else 0x01])
                tags.append(f"sigs-on-input={min(len(i.partial_sigs), 3)}")
        elif t == "add-input":
            bad.inputs.append(copy.deepcopy(bad.inputs[0]))
        elif t == "sequence":
            i = rng.choice(bad.inputs)
            i.sequence = ((i.sequence if i.sequence is not None else 0xFFFFFFFF) ^ 1)
        elif t == "derivation":
            i = next((x for x in bad.inputs if x.hd_key_paths), None)
            if i is None:
                changed = False
            else:
                i.hd_key_paths.pop(next(iter(i.hd_key_paths)))
        if changed:
            try:
                assert_signatures_only(unsigned, bad)
                accepted = True
            except LIBEXC:
                accepted = False
            if accepted:
                raise Violation(f"signer_answer:tampered-answer-accepted:{t}", "")
            tags.append(f"tamper={t}:refused")
    for s_ in signers:
        s_.close()
    nt = any(o.startswith("sign") for o in tags) and len(tags) >= 2
    return Outcome(nt, tuple(tags[:6]))


# ---------------------------------------------------------------- join
def _mutable_ids(x, acc: dict, path: str) -> None:
    """id -> where, of every mutable container and every non-frozen btclib object reachable from x"""
    import dataclasses

    if isinstance(x, (bytes, str, int, float, bool, type(None), frozenset)) or id(x) in acc:
        return
    if isinstance(x, dict):
        acc[id(x)] = path
        for k, v in x.items():
            _mutable_ids(v, acc, path)
    elif isinstance(x, (list, set, bytearray)):
        acc[id(x)] = path
        if not isinstance(x, bytearray):
            for v in x:
                _mutable_ids(v, acc, path)
    elif isinstance(x, tuple):
        for v in x:
            _mutable_ids(v, acc, path)
    elif dataclasses.is_dataclass(x) and not isinstance(x, type) and type(x).__module__.startswith(("btclib.psbt", "btclib.tx", "btclib.script", "btclib.bip32")):
        if not type(x).__dataclass_params__.frozen:
            acc[id(x)] = path or type(x).__name__
        for f in dataclasses.fields(x):
            _mutable_ids(getattr(x, f.name, None), acc, f"{path}.{f.name}" if path else f"{type(x).__name__}.{f.name}")


def _shared_mutables(result, operands) -> str:
    """'' or the field path of a mutable object the result holds that an operand holds too (what one party then changes, the other sees)"""
    mine: dict = {}
    _mutable_ids(result, mine, "")
    for o in operands:
        theirs: dict = {}
        _mutable_ids(o, theirs, "")
        hit = sorted(mine[k] for k in mine.keys() & theirs.keys())
        if hit:
            return hit[0]
    return ""


@st.composite
def join_case(draw):
    return {"a": draw(gp.psbt_case(max_inputs=2, max_outputs=2, dirty_finalized=False)), "b": draw(gp.psbt_case(max_inputs=2, max_outputs=2, dirty_finalized=False)), "overlap": draw(st.booleans()),
            "modifiable": draw(st.sampled_from([None, 3, 3, 0xFB]))}  # version 2 joins need both psbts to allow new inputs and outputs: mostly given


def check_join(case):
    a_c, b_c = case["a"], json.loads(json.dumps(case["b"]))
    b_c["version"] = a_c["version"]
    if a_c["version"] == 0:
        for f in ("tx_modifiable", "sp_ecdh_shares", "sp_dleq_proofs"):
            b_c[f] = None if f == "tx_modifiable" else []
    elif case.get("modifiable") is not None:
        a_c = dict(a_c, tx_modifiable=case["modifiable"])
        b_c["tx_modifiable"] = case["modifiable"]
    try:
        a, b = gp.build_psbt(a_c), gp.build_psbt(b_c)
    except LIBEXC:
        return Outcome(False, ("b-not-valid-as-this-version",))
    if case["overlap"]:
        b = gp.build_psbt(a_c)
    ops_a = {(i.previous_tx_id, i.output_index) for i in a.inputs}
    ops_b = {(i.previous_tx_id, i.output_index) for i in b.inputs}
    overlap = bool(ops_a & ops_b)
    try:
        j = join([a, b], False, False, False, False)
    except LIBEXC as e:
        if overlap:
            return Outcome(True, ("overlap-refused",))
        return Outcome(False, ("join-refused-disjoint: " + str(e).split(":")[0][:40],))
    if overlap:
        raise Violation("join:overlapping-inputs-joined", "")
    if len(j.inputs) != len(a.inputs) + len(b.inputs) or len(j.outputs) != len(a.outputs) + len(b.outputs):
        raise Violation("join:inputs-or-outputs-missing", "")
    # the version 2 form of a map carries the outpoint, sequence, amount and script too (a version 0 map leaves them to the unsigned transaction): compared
    # in that form whatever the psbt's version, in order (nothing was shuffled)
    ser = lambda x: x.serialize(psbt_version=2)  # noqa: E731
    want_in = [ser(i) for i in list(a.inputs) + list(b.inputs)]
    got_in = [ser(i) for i in j.inputs]
    want_out = [ser(o) for o in list(a.outputs) + list(b.outputs)]
    got_out = [ser(o) for o in j.outputs]
    if want_in != got_in or want_out != got_out:
        raise Violation(f"join:fields-lost:{'inputs' if want_in != got_in else 'outputs'}:v{j.version}", "")
    if j.version == 0:
        tx = j.tx
        if [(i.prev_out.tx_id, i.prev_out.vout, i.sequence) for i in tx.vin] != [(i.prev_out.tx_id, i.prev_out.vout, i.sequence) for p_ in (a, b) for i in p_.tx.vin] or \
                [(o.value, o.script_pub_key.script) for o in tx.vout] != [(o.value, o.script_pub_key.script) for p_ in (a, b) for o in p_.tx.vout]:
            raise Violation("join:unsigned-transaction-is-not-the-concatenation", "")
    if _shared_mutables(j, [a, b]):
        raise Violation(f"join:result-shares-an-object-with-a-joined-psbt:{_shared_mutables(j, [a, b])}", "")
    return Outcome(True, (f"v{j.version}",))


SUBCHECKS = [
    SubCheck("combine_laws", check_combine, "non-trivial: >=2 key-value pairs distributed over the copies", combine_case, quick=1500, thorough=16000, max_buckets=6),
    SubCheck("role_histories", check_roles, "identity through sign/finalize/convert, fresh objects, no aliasing, tampered signer answers refused; non-trivial: a history with a sign step and >=2 steps", roles_case, quick=1000, thorough=10000, max_buckets=6),
    SubCheck("join", check_join, "join of PSBTs of disjoint transactions keeps every input and output map; overlapping inputs refused", join_case, quick=600, thorough=6000),
]
