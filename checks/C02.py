"""C02 — ECDSA: signatures verify, verification is the SEC 1 equation, DER is canonical."""

from __future__ import annotations

import hashlib

from hypothesis import strategies as st

from btclib.curves.curve import CURVES, Curve, is_libsecp256k1_serving, set_libsecp256k1_serving
from btclib.ecc import dsa
from btclib.exceptions import BTClibRuntimeError, BTClibTypeError, BTClibValueError
from vlib.models import ec_ref as ref
from vlib.models import ecdsa_ref as eref
from vlib.runner import HarnessError, Outcome, SubCheck, Violation

PROPERTY = "C02"
LEVEL = "exploration"
RULE = (
    "Toy curves: every (key, challenge, nonce) triple through the public signing API and the full (c,Q,r,s) verification truth table "
    "(r,s in [0,n]) against SEC 1 (vlib/models/ecdsa_ref.py); catalogued curves x hash functions by Hypothesis against RFC 6979 + SEC 1; "
    "structure-aware DER mutations against BIP66."
)
ASSUMPTIONS = ["ecdsa_ref transcribes SEC 1 4.1.3/4.1.4/4.1.6, RFC 6979 3.2/3.6 and BIP66; validated on RFC 6979 A.2.5 vectors at start"]


class backend:
    def __init__(self, serving):
        self.serving = bool(serving)

    def __enter__(self):
        self.prev = is_libsecp256k1_serving()
        set_libsecp256k1_serving(serving=self.serving)

    def __exit__(self, *a):
        set_libsecp256k1_serving(serving=self.prev)


def validate_models() -> None:
    # RFC 6979 A.2.5 (P-256, SHA-256, "sample")
    ec = CURVES["secp256r1"]
    x = 0xC9AFA9D845BA75166B5C215767B1D6934E50C3DB36E89B127B8A622B120F6721
    h = hashlib.sha256(b"sample").digest()
    c = eref.challenge(h, ec.n)
    k = eref.rfc6979(c, x, ec.n, hashlib.sha256)
    if k != 0xA6E3C57DD01ABE90086538398355DD4C3B17AA873382B0F24D6129493D8AAD60:
        raise HarnessError("rfc6979 model")
    r, s, _ = eref.sign_with_nonce(c, x, k, (ec.p, ec._a, ec._b, ec.G, ec.n), False)
    if r != 0xEFD48B2AACB6A8FD1140DD9CD45E81D69D2C877B56AAF991C34D0EA84EAF3716 or s != 0xF7CB1C942D657C41D436C7A1B6E29F65F3E900DBB9AFF4064DC4AB2F843ACDA8:
        raise HarnessError("ecdsa model")
    if eref.der_strict_decode(eref.der_encode(r, s)) != (r, s):
        raise HarnessError("der model")


# ---------------------------------------------------------------- toy exhaustive
def _toy_list(max_n, limit):
    acc = [c for c in ref.toy_curves(31) if ref.sec1_accepts(*c) and c[4] <= max_n and c[4] >= 5]
    # diversity first: cofactor>1, n>p, n<p, a==0, a==p-3, general a
    picked, seen = [], set()
    for c in acc:
        p, a, b, G, n, h, N = c
        key = (min(h, 2), n > p, a == 0, a == p - 3, n)
        if key not in seen:
            seen.add(key)
            picked.append(c)
    return picked[:limit]


def toy_units(tier):
    cs = _toy_list(19, 14) if tier == "quick" else _toy_list(31, 60)
    return [list(c[:3]) + [list(c[3])] + list(c[4:]) for c in cs]


def _hash_with_challenge(cbits: int, nlen: int, hlen: int) -> bytes:
    """msg_hash whose leftmost nlen bits are cbits (when the hash is longer than n) or equal to cbits otherwise"""
    if 8 * hlen >= nlen:
        return (cbits << (8 * hlen - nlen)).to_bytes(hlen, "big")
    return cbits.to_bytes(hlen, "big")


def toy_run_unit(unit, col):
    p, a, b, G, n, h, N = unit
    G = tuple(G)
    ec = Curve(p, a, b, G, n, h, weakness_check=False)
    curve = (p, a, b, G, n)
    sub = [None]
    R = G
    while R is not None:
        sub.append(R)
        R = ref.add(R, G, p, a)
    nlen = n.bit_length()
    hf = hashlib.sha1
    evals = nontriv = 0
    cid = {"p": p, "a": a, "b": b, "G": G, "n": n, "h": h}
    # 1. every (q, c, k) through the public API, both lower_s
    for cbits in range(2**nlen):
        mh = _hash_with_challenge(cbits, nlen, 20)
        c = eref.challenge(mh, n)
        for q in range(1, n):
            Q = sub[q]
            for k in range(1, n):
                for lower_s in (True, False):
                    want = eref.sign_with_nonce(c, q, k, curve, lower_s)
                    evals += 1
                    try:
                        sig, key_id = dsa.sign_recoverable_(mh, q, k, lower_s, ec, hf)
                        got = (sig.r, sig.s, key_id)
                    except (BTClibRuntimeError, BTClibValueError):
                        got = None
                    # (r, s) is SEC 1's; the recovery id is judged below by what it recovers, not by how it numbers the candidates
                    if (got is None) != (want is None) or (got is not None and got[:2] != want[:2]):
                        col.fail(f"toy:sign-mismatch:lower_s={lower_s}", {"unit": unit}, f"{cid} c={c} q={q} k={k} lib={got} ref={want}")
                        return
                    if want is None:
                        continue
                    r, s, kid = got
                    if lower_s and s > n // 2:
                        col.fail("toy:not-low-s", {"unit": unit}, f"{cid} {got}")
                        return
                    if cbits < n and lower_s:
                        # verification and recovery of what was produced
                        sg = dsa.Sig(r, s, ec, check_validity=False)
                        if dsa.verify_(mh, Q, sg, hf) is not True:
                            col.fail("toy:own-signature-does-not-verify", {"unit": unit}, f"{cid} c={c} q={q} k={k} sig={want}")
                            return
                        try:
                            rec = dsa.recover_pub_key_(kid, mh, sg, hf)
                        except (BTClibValueError, BTClibRuntimeError) as e:
                            rec = f"raised {type(e).__name__}: {e}"
                        if rec != Q:
                            col.fail("toy:recovery-wrong", {"unit": unit}, f"{cid} c={c} q={q} k={k} sig={want} recovered={rec} Q={Q}")
                            return
                        nontriv += 1
    # 2. truth table of verification: every (c, Q, r, s), r and s in [0, n]
    for cbits in range(n + 1):
        mh = _hash_with_challenge(cbits, nlen, 20)
        c = eref.challenge(mh, n)
        for q in range(1, n):
            Q = sub[q]
            for r in range(n + 1):
                for s in range(n + 1):
                    want = eref.verify(c, Q, r, s, curve)
                    evals += 1
                    try:
                        got = dsa.verify_(mh, Q, dsa.Sig(r, s, ec, check_validity=False), hf)
                    except Exception as e:  # noqa: BLE001
                        col.fail(f"toy:verify-raised:{type(e).__name__}", {"unit": unit}, f"{cid} c={c} Q={Q} r={r} s={s}: {e}")
                        return
                    if got is not want:
                        col.fail(f"toy:verify-verdict:lib={got}:ref={want}", {"unit": unit}, f"{cid} c={c} Q={Q} r={r} s={s}")
                        return
                    if want or (1 <= r < n and 1 <= s < n):
                        nontriv += 1
    col.bulk(evals, nontriv, {"curve": cid, "triples": f"all (q,c,k) with q,k in 1..{n-1}, c over all {nlen}-bit prefixes", "truth_table": f"c in 0..{n}, Q all, r,s in 0..{n}"}, {f"cofactor={min(h,2)}": 1, "n>p" if n > p else "n<=p": 1})


# ---------------------------------------------------------------- catalogue
HFS = ["sha1", "sha224", "sha256", "sha384", "sha512", "sha3_256", "sha3_512", "blake2b", "blake2s", "md5"]
CAT_QUICK = ["secp256k1", "secp256r1", "bpp256r1", "secp160k1", "secp521r1", "secp112r2", "secp224k1", "secp384r1"]


@st.composite
def catalogue_case(draw, names=CAT_QUICK):
    name = draw(st.sampled_from(names))
    backend_ = draw(st.booleans()) if name == "secp256k1" else False
    return {
        "curve": name,
        # the bindings serve secp256k1 with sha256 only: with the back end drawn on, the hash is sha256 two times in three
        "hf": draw(st.sampled_from(["sha256", "sha256", *HFS] if backend_ else HFS)) if not backend_ else draw(st.one_of(st.just("sha256"), st.just("sha256"), st.sampled_from(HFS))),
        "key": draw(st.one_of(st.sampled_from(["1", "2", "n-1", "n-2", "(n+1)/2"]), st.integers(1, 2**600).map(str))),
        "msg": draw(st.binary(max_size=80)).hex(),
        # a digest handed in directly (the *_ entry points take one): values at the edges of the reduction mod n
        "digest": draw(st.sampled_from([None, None, None, None, None, "0", "1", "n-1", "n", "n+1", "max"])),
        "lower_s": draw(st.booleans()),
        "backend": backend_,
        "blind_seed": draw(st.integers(0, 2**32)),
    }


def _key(spec, n):
    table = {"1": 1, "2": 2, "n-1": n - 1, "n-2": n - 2, "(n+1)/2": (n + 1) // 2}
    return table[spec] if spec in table else 1 + int(spec) % (n - 1)


def check_catalogue(case):
    ec = CURVES[case["curve"]]
    hf = getattr(hashlib, case["hf"])
    n = ec.n
    curve = (ec.p, ec._a, ec._b, ec.G, n)
    q = _key(case["key"], n)
    msg = bytes.fromhex(case["msg"])
    mh = hf(msg).digest()
    dg = case.get("digest")
    if dg is not None:
        hl = len(mh)
        v = {"0": 0, "1": 1, "n-1": n - 1, "n": n, "n+1": n + 1, "max": 2 ** (8 * hl) - 1, "2n-1": 2 * n - 1, "2n": 2 * n, "2n+1": 2 * n + 1}[dg]
        # place the value in the leftmost nlen bits of the digest (what bits2int reads), when it fits
        shift = max(0, 8 * hl - ec.nlen)
        if dg != "max" and v.bit_length() <= min(ec.nlen, 8 * hl):
            mh = (v << shift).to_bytes(hl, "big")
        elif dg == "max":
            mh = b"\xff" * hl
        else:
            dg = None  # the value does not fit the digest (a hash shorter than n, or 2n..): the case is the hashed message
    c = eref.challenge(mh, n)
    lower_s = case["lower_s"]
    Q = ref.mult(q, ec.G, ec.p, ec._a, n)
    tag = f"{case['curve']}:{case['hf']}"
    with backend(case["backend"]):
        # deterministic signature = RFC 6979 + SEC 1
        k = eref.rfc6979(c, q, n, hf)
        want = eref.sign_with_nonce(c, q, k, curve, lower_s)
        if want is None:
            return Outcome(False, ("r-or-s-zero",))
        sig = dsa.sign_(mh, q, None, lower_s, ec, hf, grind=False)
        if (sig.r, sig.s) != want[:2]:
            raise Violation(f"catalogue:rfc6979-signature-differs:bindings={case['backend']}", f"{tag} q={q} msg={msg.hex()} lib={(sig.r, sig.s)} ref={want[:2]}")
        if dg is None:
            sig_m = dsa.sign(msg, q, None, lower_s, ec, hf, grind=False)
            if sig_m != sig:
                raise Violation("catalogue:sign-vs-sign_", tag)
        if not dsa.verify_(mh, Q, sig, hf) or (dg is None and not dsa.verify(msg, Q, sig, hf)):
            raise Violation(f"catalogue:own-signature-does-not-verify:bindings={case['backend']}", tag)
        if not eref.verify(c, Q, sig.r, sig.s, curve):
            raise HarnessError("the ECDSA model's verify refuses what its own sign produced")
        # the bytes: strict DER of (r, s) on every curve (the length of the sequence passes 127 on the 512- and 521-bit ones)
        if sig.serialize() != eref.der_encode(sig.r, sig.s):
            raise Violation(f"catalogue:serialize-is-not-DER:sequence-length={'>=128' if len(eref.der_encode(sig.r, sig.s)) >= 131 else '<128'}", f"{tag} lib={sig.serialize().hex()[:40]}... ref={eref.der_encode(sig.r, sig.s).hex()[:40]}...")
        # recoverable
        sigr, kid = dsa.sign_recoverable_(mh, q, None, lower_s, ec, hf)
        if (sigr.r, sigr.s) != want[:2]:
            raise Violation(f"catalogue:recoverable-differs:bindings={case['backend']}", f"{tag} lib={(sigr.r, sigr.s, kid)} ref={want}")
        # (how the recovery id numbers the candidates is a convention; what the property asks is that the id returned recovers the signer's key: next line)
        if dsa.recover_pub_key_(kid, mh, sigr, hf) != Q:
            raise Violation(f"catalogue:recovery-wrong:bindings={case['backend']}", tag)
        if Q not in dsa.recover_pub_keys_(mh, sigr, hf):
            raise Violation(f"catalogue:recover_pub_keys-misses-signer:bindings={case['backend']}", tag)
        # grinding: low r, verifies, reproducible, = first counter with a low r
        if lower_s:
            g1 = dsa.sign_(mh, q, None, True, ec, hf, grind=True)
            g2 = dsa.sign_(mh, q, None, True, ec, hf, grind=True)
            if g1 != g2:
                raise Violation("catalogue:grind-not-reproducible", tag)
            if g1.r.bit_length() >= 8 * ec.n_size or g1.s > n // 2:
                raise Violation("catalogue:grind-not-low", f"{tag} r={g1.r:x} s={g1.s:x}")
            if not dsa.verify_(mh, Q, g1, hf):
                raise Violation("catalogue:ground-signature-does-not-verify", tag)
            counter = 0
            while True:
                extra = b"" if counter == 0 else counter.to_bytes(32, "little")
                w = eref.sign_with_nonce(c, q, eref.rfc6979(c, q, n, hf, extra), curve, True)
                if w[0].bit_length() < 8 * ec.n_size:
                    break
                counter += 1
            if (g1.r, g1.s) != w[:2]:
                raise Violation(f"catalogue:grind-differs-from-counter-search:bindings={case['backend']}", f"{tag} counter={counter}")
            signer = dsa.Signer(q, ec, hf)
            der = signer.sign_(mh)
            if der != g1.serialize():
                raise Violation("catalogue:Signer-differs-from-sign_", tag)
            signer.wipe()
    delegated = case["backend"] and case["hf"] == "sha256"
    return Outcome(True, (case["curve"], case["hf"], f"bindings={case['backend']}", f"lower_s={lower_s}", f"digest={dg}", *([f"delegated-sign={lower_s}"] if delegated else [])))


# ---------------------------------------------------------------- soundness mutations
@st.composite
def mutation_case(draw):
    base = draw(catalogue_case(["secp256k1", "secp256r1", "secp160k1", "secp112r2", "bpp256r1"]))
    base["mutation"] = draw(st.sampled_from(["none", "r+1", "r-1", "s+1", "s-1", "n-s", "swap", "other-msg", "other-key", "r+n", "r=0", "s=0", "r=n", "s=n", "s+n", "neg-key", "msg-bitflip"]))
    base["other"] = draw(st.integers(1, 2**64))
    return base


def check_mutation(case):
    ec = CURVES[case["curve"]]
    hf = getattr(hashlib, case["hf"])
    n, p = ec.n, ec.p
    curve = (p, ec._a, ec._b, ec.G, n)
    q = _key(case["key"], n)
    msg = bytes.fromhex(case["msg"])
    mh = hf(msg).digest()
    c = eref.challenge(mh, n)
    Q = ref.mult(q, ec.G, p, ec._a, n)
    k = eref.rfc6979(c, q, n, hf)
    w = eref.sign_with_nonce(c, q, k, curve, case["lower_s"])
    if w is None:
        return Outcome(False)
    r, s, _ = w
    mut = case["mutation"]
    if mut == "r+1": r += 1
    elif mut == "r-1": r -= 1
    elif mut == "s+1": s += 1
    elif mut == "s-1": s -= 1
    elif mut == "n-s": s = n - s
    elif mut == "swap": r, s = s, r
    elif mut == "other-msg":
        mh = hf(msg + b"x").digest()
    elif mut == "msg-bitflip":
        mh = bytes([mh[0] ^ 0x80]) + mh[1:]
    elif mut == "other-key":
        Q = ref.mult(1 + case["other"] % (n - 1), ec.G, p, ec._a, n)
    elif mut == "neg-key":
        Q = ref.neg(Q, p)
    elif mut == "r+n": r += n
    elif mut == "s+n": s += n
    elif mut == "r=0": r = 0
    elif mut == "s=0": s = 0
    elif mut == "r=n": r = n
    elif mut == "s=n": s = n
    c2 = eref.challenge(mh, n)
    want = eref.verify(c2, Q, r, s, curve)
    with backend(case["backend"]):
        try:
            got = dsa.verify_(mh, Q, dsa.Sig(r, s, ec, check_validity=False), hf)
        except Exception as e:  # noqa: BLE001
            raise Violation(f"mutations:verify-raised:{type(e).__name__}:{mut}", f"{case['curve']} r={r} s={s}: {e}")
    if got is not want:
        raise Violation(f"mutations:verdict:{mut}:lib={got}:ref={want}:bindings={case['backend']}", f"{case['curve']}:{case['hf']} r={r:x} s={s:x}")
    return Outcome(True, (mut, f"valid={want}", case["curve"]))


# ---------------------------------------------------------------- DER
N256 = CURVES["secp256k1"].n


def _scalar_bits():
    return st.one_of(
        st.sampled_from([1, 0x7F, 0x80, 0xFF, 0x100, 2**255 - 1, 2**255, N256 - 1, N256 // 2, N256 // 2 + 1]),
        st.integers(1, 256).flatmap(lambda b: st.integers(2 ** (b - 1), min(2**b - 1, N256 - 1))),
        st.integers(1, N256 - 1),
    )


@st.composite
def der_case(draw):
    r, s = draw(_scalar_bits()), draw(_scalar_bits())
    muts = draw(st.lists(st.sampled_from(["len0+1", "len0-1", "lenr+1", "lenr-1", "lens+1", "lens-1", "pad-r", "pad-s", "unpad-r", "unpad-s", "longform-seq", "longform-r", "tag-seq", "tag-r", "tag-s", "trail", "truncate", "zero-len-r", "zero-len-s", "neg-r", "neg-s", "byteflip", "insert"]), max_size=2))
    return {"r": r, "s": s, "muts": muts, "pos": draw(st.integers(0, 80)), "byte": draw(st.integers(0, 255)), "raw": draw(st.one_of(st.none(), st.binary(max_size=80).map(bytes.hex)))}


def _mutate_der(b: bytes, mut: str, pos: int, byte: int) -> bytes:
    b = bytearray(b)
    lr = b[3] if len(b) > 3 else 0
    if mut == "len0+1": b[1] = (b[1] + 1) & 0xFF
    elif mut == "len0-1": b[1] = (b[1] - 1) & 0xFF
    elif mut == "lenr+1": b[3] = (b[3] + 1) & 0xFF
    elif mut == "lenr-1": b[3] = (b[3] - 1) & 0xFF
    elif mut == "lens+1" and 5 + lr < len(b): b[5 + lr] = (b[5 + lr] + 1) & 0xFF
    elif mut == "lens-1" and 5 + lr < len(b): b[5 + lr] = (b[5 + lr] - 1) & 0xFF
    elif mut == "pad-r": b[4:4] = b"\x00"; b[3] += 1; b[1] += 1
    elif mut == "pad-s" and 5 + lr < len(b): b[6 + lr : 6 + lr] = b"\x00"; b[5 + lr] += 1; b[1] += 1
    elif mut == "unpad-r" and lr > 1: del b[4]; b[3] -= 1; b[1] -= 1
    elif mut == "unpad-s" and 5 + lr < len(b) and b[5 + lr] > 1: del b[6 + lr]; b[5 + lr] -= 1; b[1] -= 1
    elif mut == "longform-seq": b[1:2] = bytes([0x81, b[1]])
    elif mut == "longform-r": b[3:4] = bytes([0x81, b[3]]); b[1] += 1
    elif mut == "tag-seq": b[0] = byte
    elif mut == "tag-r": b[2] = byte
    elif mut == "tag-s" and 4 + lr < len(b): b[4 + lr] = byte
    elif mut == "trail": b += bytes([byte])
    elif mut == "truncate": del b[pos % len(b) :]
    elif mut == "zero-len-r": b[2:4 + lr] = b"\x02\x00"; b[1] = len(b) - 2
    elif mut == "zero-len-s" and 4 + lr < len(b): b[4 + lr :] = b"\x02\x00"; b[1] = len(b) - 2
    elif mut == "neg-r" and len(b) > 4: b[4] |= 0x80
    elif mut == "neg-s" and 6 + lr < len(b): b[6 + lr] |= 0x80
    elif mut == "byteflip" and b: b[pos % len(b)] ^= byte or 1
    elif mut == "insert": b[pos % (len(b) + 1) : pos % (len(b) + 1)] = bytes([byte])
    return bytes(b)


def _is_x(r):
    from vlib.models import bip340_ref as b340
    x = r
    while x < b340.p:
        y2 = (pow(x, 3, b340.p) + 7) % b340.p
        if pow(y2, (b340.p - 1) // 2, b340.p) == 1:
            return True
        x += N256
    return False


def check_der(case):
    if case["raw"] is not None and not case["muts"]:
        data = bytes.fromhex(case["raw"])
        kind = "raw"
    else:
        data = eref.der_encode(case["r"], case["s"])
        for m in case["muts"]:
            try:
                data = _mutate_der(data, m, case["pos"], case["byte"])
            except (IndexError, ValueError, ZeroDivisionError):
                pass
        kind = "+".join(case["muts"]) or "canonical"
    model = eref.der_strict_decode(data)
    # the class documents one more refusal: r, s in 1..n-1 and r congruent to an x-coordinate
    model_ok = model is not None and 0 < model[0] < N256 and 0 < model[1] < N256 and _is_x(model[0])
    try:
        sig = dsa.Sig.parse(data)
        got = (sig.r, sig.s)
    except BTClibValueError:
        got = None
    except BTClibRuntimeError:
        got = None
    if got is not None:
        back = sig.serialize()
        if back != data:
            raise Violation(f"der:accepted-non-canonical:{kind if len(kind) < 30 else 'multi'}", f"in={data.hex()} out={back.hex()}")
        if model is None or model != got:
            raise Violation("der:accepted-but-BIP66-rejects", f"in={data.hex()} lib={got} model={model}")
    elif model_ok:
        raise Violation("der:canonical-refused", f"in={data.hex()} model={model}")
    # non-strict parse must not crash and must agree on strictly valid input
    try:
        lax = dsa.Sig.parse(data, strict=False)
        if model_ok and (lax.r, lax.s) != model:
            raise Violation("der:lax-differs-on-canonical", data.hex())
    except (BTClibValueError, BTClibRuntimeError):
        if model_ok:
            raise Violation("der:lax-refuses-canonical", data.hex())
    return Outcome(True, ("accepted" if got else "refused", kind if kind in ("canonical", "raw") else "mutated"))


# ---------------------------------------------------------------- the DER writer, on every curve and every length of r and s
@st.composite
def der_writer_case(draw):
    name = draw(st.sampled_from(sorted(CURVES)))
    size = CURVES[name].n_size
    # the octet lengths of the two integers are drawn (a signature's are almost always full size): every total from a few octets up to the largest the curve
    # gives, so that the sequence length crosses 127 / 128 on the curves where it can
    lr, ls = draw(st.integers(1, size)), draw(st.integers(1, size))
    if size >= 62 and draw(st.booleans()):
        total = draw(st.sampled_from([121, 122, 123, 124, 125, 126]))  # two integers whose encodings (value + tag and length) make a body of 125 .. 130 octets
        lr = draw(st.integers(max(1, total - size - 1), min(size, total - 1)))
        ls = max(1, min(size, total - lr))
    return {"curve": name, "lr": lr, "ls": ls, "top_r": draw(st.booleans()), "top_s": draw(st.booleans()), "fill": draw(st.integers(0, 2**32))}


def check_der_writer(case):
    ec = CURVES[case["curve"]]

    def scalar(length, top, salt):
        raw = bytearray(hashlib.shake_256(f"{case['fill']}:{salt}".encode()).digest(length))
        raw[0] = (raw[0] | 0x80) if top else ((raw[0] & 0x7F) or 1)  # with the top bit set the encoding gets a 00 in front: one octet longer
        return int.from_bytes(raw, "big")

    r, s = scalar(case["lr"], case["top_r"], "r"), scalar(case["ls"], case["top_s"], "s")
    want = eref.der_encode(r, s)
    try:
        got = dsa.Sig(r, s, ec, check_validity=False).serialize(check_validity=False)
    except (BTClibValueError, BTClibTypeError):
        return Outcome(False, (case["curve"], "unchecked-sig-refused"))  # a class that validates even when told not to: nothing written, nothing to judge
    body = len(want) - (2 if len(want) < 130 else 3)
    if got != want:
        raise Violation(f"der_writer:not-DER:body={'<128' if body < 128 else '=128' if body == 128 else '>128'}", f"{case['curve']} r={r:x} s={s:x} lib={got.hex()[:24]}... ref={want.hex()[:24]}...")
    return Outcome(True, (f"body={'<=126' if body <= 126 else body if body <= 129 else '>=130'}",))


# ---------------------------------------------------------------- crack
@st.composite
def crack_case(draw):
    base = draw(catalogue_case(["secp256k1", "secp160k1", "secp256r1", "secp112r2"]))
    base["msg2"] = (bytes.fromhex(base["msg"]) + draw(st.binary(min_size=1, max_size=40))).hex()
    base["nonce"] = draw(st.integers(1, 2**600))
    return base


def check_crack(case):
    ec = CURVES[case["curve"]]
    hf = getattr(hashlib, case["hf"])
    n = ec.n
    q = _key(case["key"], n)
    k = 1 + case["nonce"] % (n - 1)
    m1, m2 = hf(bytes.fromhex(case["msg"])).digest(), hf(bytes.fromhex(case["msg2"])).digest()
    if eref.challenge(m1, n) == eref.challenge(m2, n):
        return Outcome(False, ("same-challenge",))
    with backend(case["backend"]):
        curve = (ec.p, ec._a, ec._b, ec.G, n)
        w1 = eref.sign_with_nonce(eref.challenge(m1, n), q, k, curve, False)
        w2 = eref.sign_with_nonce(eref.challenge(m2, n), q, k, curve, False)
        if w1 is None or w2 is None:
            return Outcome(False, ("r-or-s-zero",))
        s1 = dsa.sign_(m1, q, k, case["lower_s"], ec, hf, grind=False)  # (a refusal here -- "signing produced a signature that does not verify" -- is what this property is about: not caught)
        s2 = dsa.sign_(m2, q, k, case["lower_s"], ec, hf, grind=False)
        got = dsa.crack_prv_key_var_(m1, s1, m2, s2, hf)
    # with lower_s each s may have been negated on its own: when both were or neither was, the equations give back (q, +-k); when exactly one was, they
    # give the documented alias (another key under which both signatures verify), which is no failure and nothing to compare
    ok = got[0] == q and got[1] in (k, n - k)
    flipped_one = case["lower_s"] and (w1[1] > n // 2) != (w2[1] > n // 2)
    if flipped_one:
        return Outcome(False, (case["curve"], "low-s-alias" if not ok else "low-s-one-flip-recovered"))
    if not ok:
        raise Violation(f"crack:wrong-key:lower_s={case['lower_s']}", f"{case['curve']} q={q} k={k} got={got}")
    return Outcome(True, (case["curve"], f"lower_s={case['lower_s']}"))


SUBCHECKS = [
    SubCheck("toy_exhaustive", lambda c: None, "all (key, challenge, nonce) triples and the full (c,Q,r,s) truth table on toy curves; non-trivial: a produced signature verified+recovered, or a truth-table row that is accepted or has r,s in range; distinct by construction",
             units=toy_units, run_unit=toy_run_unit, exhaustive=True),
    SubCheck("catalogue", check_catalogue, "sign_/sign/sign_recoverable_/Signer vs RFC 6979 + SEC 1 model, grinding, recovery; non-trivial: every case that produced a signature", lambda: catalogue_case(), quick=700, thorough=8000),
    SubCheck("catalogue_all", check_catalogue, "same over all 27 curves", lambda: catalogue_case(sorted(CURVES)), quick=250, thorough=6000),
    SubCheck("soundness_mutations", check_mutation, "one field of a valid (msg,Q,r,s) edited; verdict must equal SEC 1 (so (r,n-s) stays valid); non-trivial: all", mutation_case, quick=1500, thorough=20000),
    SubCheck("der_writer", check_der_writer, "Sig(r, s, curve).serialize() == strict DER of (r, s) by the model, on every catalogue curve, for integers of every octet length (with and without the leading 00) -- bodies of 125..130 octets "
             "forced on the 512- and 521-bit curves, where the length of the sequence changes form; non-trivial: bytes written", der_writer_case, quick=4000, thorough=60000),
    SubCheck("der", check_der, "canonical DER of boundary-size (r,s), up to 2 stacked structural mutations, or raw bytes; accepted => re-serializes identically and BIP66 accepts; BIP66-canonical with valid r,s => accepted", der_case, quick=12000, thorough=200000),
    SubCheck("crack", check_crack, "two signatures sharing a nonce give back the key", crack_case, quick=400, thorough=4000),
]
