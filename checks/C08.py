"""C08 — the script engine gives Bitcoin Core's verdict on every script and spend."""

from __future__ import annotations

from hypothesis import strategies as st

from btclib.curves.curve import is_libsecp256k1_serving, set_libsecp256k1_serving
from btclib.exceptions import BTClibValueError
from btclib.script.engine import verify_input
from btclib.tx import TxOut
from vlib import build
from vlib.gens import scripts as gs
from vlib.models import core_script_ref as cs
from vlib.models import ec_ref, fastec, script_vectors
from vlib.runner import HarnessError, Outcome, SubCheck, Violation

PROPERTY = "C08"
LEVEL = "exploration"
RULE = (
    "Grammar-generated script programs (every opcode byte, pushes of every form and minimality, nested/unbalanced conditionals, limits) in every spend "
    "form (bare, P2SH, P2WPKH, P2WSH, P2SH-wrapped, taproot key and script path, annex, unknown witness versions) with real keys and signatures in valid and "
    "malformed variants, under generated subsets of the 21 verification flags and both backends; oracle = transcription of Core's interpreter.cpp "
    "(vlib/models/core_script_ref.py) that reproduces every script_tests.json / tx_valid.json / tx_invalid.json vector including the error code."
)
ASSUMPTIONS = [
    "core_script_ref transcribes Core's interpreter; validated at start on all 1233 script_tests.json vectors (verdict and error code) and the 214 tx_valid/tx_invalid vectors",
    "taproot/tapscript rules are covered by only 5+ vectors in those files (script_assets_test.json is not available here): every taproot-side divergence is re-derived against BIP341/342 before it is recorded",
    "flag combinations Core asserts against (WITNESS without P2SH, CLEANSTACK without P2SH+WITNESS) are not generated",
]


def validate_models() -> None:
    # fastec vs the slow affine model
    for k in (1, 2, 3, 0xDEADBEEF, fastec.N - 1, 2**255 + 12345):
        if fastec.mul(k, fastec.G) != ec_ref.mult(k, fastec.G, fastec.P, 0, fastec.N):
            raise HarnessError("fastec disagrees with ec_ref")
    n, bad = script_vectors.run_script_tests()
    if bad or n < 1200:
        raise HarnessError(f"core_script_ref disagrees with {len(bad)} of {n} script_tests.json vectors, e.g. {bad[:1]}")
    n, bad = script_vectors.run_tx_tests()
    if bad or n < 200:
        raise HarnessError(f"core_script_ref disagrees with {len(bad)} of {n} tx_valid/tx_invalid vectors")


@st.composite
def spend_case(draw, forms=None):
    return {"recipe": draw(gs.recipe(forms)), "backend": draw(st.booleans())}


def run_lib(tx, idx, spent, flags, serving):
    prev = is_libsecp256k1_serving()
    set_libsecp256k1_serving(serving=serving)
    try:
        t = build.tx(tx, check_validity=False)
        prevouts = [build.tx_out(s, check_validity=False) for s in spent]
        try:
            verify_input(prevouts, t, idx, ",".join(flags) if flags else "NONE")
            return "accept"
        except BTClibValueError:
            return "reject"
    finally:
        set_libsecp256k1_serving(serving=prev)


def _sigop_in_script_sig(script_sig_hex: str) -> bool:
    """an OP_CHECKSIG..OP_CHECKMULTISIGVERIFY at an opcode boundary of the script_sig (pushes skipped)"""
    s, i = bytes.fromhex(script_sig_hex), 0
    while i < len(s):
        op = s[i]
        i += 1
        if op <= 0x4B:
            i += op
        elif op in (0x4C, 0x4D, 0x4E):
            w = 1 << (op - 0x4C)
            i += w + int.from_bytes(s[i : i + w], "little")
        elif 0xAC <= op <= 0xAF:
            return True
    return False


def check_spend(case):
    r = case["recipe"]
    tx, idx, spent, flags, info = gs.materialize(r)
    stats = {}
    code = cs.verify_input(tx, idx, spent, flags, stats)
    got = run_lib(tx, idx, spent, flags, case["backend"])
    want = "accept" if code == "OK" else "reject"
    if got != want and want == "accept" and "CONST_SCRIPTCODE" in flags and _sigop_in_script_sig(tx["vin"][idx]["script_sig"]):
        # the one documented divergence: under CONST_SCRIPTCODE the library refuses a signature-check opcode anywhere in a script_sig, executed or
        # not (engine/flags.py), where Core only refuses one it executes; a policy flag, and the stricter reading
        return Outcome(False, (r["form"], "const-scriptcode-sigop-in-script_sig"))
    if got != want:
        fl = set(flags)
        cls = "consensus" if fl <= set(gs.CONSENSUS) else "policy"
        raise Violation(f"{r['form']}:model={code}:lib={got}:{cls}", f"flags={','.join(flags)} tx={tx} spent={spent}")
    executed = stats.get("executed", 0)
    nt = executed >= 3 or info["sigs"] > 0
    return Outcome(nt, (r["form"], f"model={code}", f"bindings={case['backend']}"))


def check_program(case):
    """One script over an initial stack: the library's verify_script must end in the model's state (error, or the same final stack)."""
    from btclib.script.engine.flags import to_script_flags
    from btclib.script.engine.script import verify_script

    script = gs.program_bytes(case["script"])
    flags = case["flags"]
    tx = {"version": case["version"], "lock_time": case["lock_time"], "vin": [{"txid": "11" * 32, "vout": 0, "script_sig": "", "sequence": case["sequence"], "witness": []}], "vout": [{"value": 1, "spk": "51"}]}
    spent = [{"value": 5, "spk": "51"}]
    mstack = [bytes.fromhex(x) for x in case["stack"]]
    stats = {}
    try:
        cs.eval_script(mstack, script, set(flags), cs.Checker(tx, 0, spent), "WITNESS_V0" if case["segwit"] else "BASE", {}, stats)
        want = ("ok", [x.hex() for x in mstack])
    except cs.ScriptErr as e:
        want = ("error", e.code)
    lstack = [bytes.fromhex(x) for x in case["stack"]]
    lib_tx, lib_flags = build.tx(tx, check_validity=False), to_script_flags(",".join(flags) if flags else "NONE")
    try:
        verify_script(script_bytes=script, stack=lstack, prevout_value=5, tx=lib_tx, i=0, flags=lib_flags, segwit=case["segwit"], final=False)
        got = ("ok", [bytes(x).hex() for x in lstack])
    except BTClibValueError:
        got = ("error", None)
    if got[0] != want[0] or (got[0] == "ok" and got[1] != want[1]):
        fam = case["family"] + (":" + case.get("limit_kind", "") if case["family"] == "limits" else "")
        ops = [it[1] for it in case["script"] if it[0] == "op"]
        raise Violation(f"program:{fam}:{ops[-1] if ops and case['family'] != 'grammar' else '-'}:model={want[0] if want[0] == 'ok' else want[1]}:lib={got[0]}", f"script={script.hex()[:200]} stack={case['stack']} flags={flags} segwit={case['segwit']} model={str(want)[:200]} lib={str(got)[:200]}")
    return Outcome(stats.get("executed", 0) >= 2, (case["family"], "ok" if want[0] == "ok" else want[1]))


SCRIPT_FORMS = ["bare", "p2sh", "p2wsh", "p2sh_p2wsh", "tapscript"]
SIG_FORMS = ["p2pk", "p2pkh", "p2wpkh", "p2sh_p2wpkh", "tr_key", "ms_bare", "ms_p2sh", "ms_p2wsh", "witness_unknown"]

SUBCHECKS = [
    SubCheck("final_stack", check_program, "one signature-free script over an initial stack (opcode families with boundary operands, lock times, conditionals on (non-)minimal truths, the 201-op / 520-byte / 1000-element / 10000-byte / 20-key limits from both sides, grammar scripts): the library's verify_script ends with Core's error or exactly Core's final stack; non-trivial: >=2 opcodes executed", gs.program_case, quick=9000, thorough=150000, max_buckets=8),
    SubCheck("programs", check_spend, "grammar-generated scripts in bare/P2SH/P2WSH/P2SH-P2WSH/tapscript form with optional signature checks; verdict vs Core model; non-trivial: model executed >=3 opcodes or reached a signature check", lambda: spend_case(SCRIPT_FORMS), quick=14000, thorough=250000, max_buckets=8),
    SubCheck("templates", check_spend, "P2PK, P2PKH, P2WPKH, P2SH-P2WPKH, taproot key path, k-of-n multisig (bare/P2SH/P2WSH), unknown witness programs; signatures valid/high-s/lax-DER/wrong key/wrong message/empty/truncated with every hash type class; keys compressed/uncompressed/hybrid/malformed; scriptSig and witness malleations", lambda: spend_case(SIG_FORMS), quick=9000, thorough=120000, max_buckets=8),
]
