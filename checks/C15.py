"""C15 — miniscript typing, compilation, read-back and satisfaction are consistent."""

from __future__ import annotations

import functools

import itertools
import json
import os

from hypothesis import strategies as st

from btclib.curves.curve import is_libsecp256k1_serving, set_libsecp256k1_serving
from btclib.descriptors import miniscript as L
from btclib.exceptions import BTClibRuntimeError, BTClibTypeError, BTClibValueError
from btclib.script.engine import verify_input
from vlib import build
from vlib.gens import miniscripts as G
from vlib.gens import scripts as gs
from vlib.models import core_script_ref as cs
from vlib.models import fastec
from vlib.models import miniscript_ref as M
from vlib.models import sighash_ref as sh
from vlib.models.tx_ref import compact_size, ser_string, sha256
from vlib.runner import VERIF, HarnessError, Outcome, SubCheck, Violation

PROPERTY = "C15"
LEVEL = "exploration"
RULE = (
    "Type-directed miniscript expressions over every fragment and wrapper (recursive trees to 40 nodes, wrapper runs to 120, n-ary shapes sized around the "
    "201-op / 100-element / 3600-byte / 1000-element limits, single-edit mutants that may break a typing requirement; P2WSH and tapscript; sugared and plain "
    "spellings; x-only and 33-byte tapscript keys) plus the exhaustive one-level catalog (every fragment over every tuple of a pool of 27 typed arguments). "
    "Oracle = vlib/models/miniscript_ref.py: BIP379's typing, translation, bound and semantic tables, validated on Core's 97 fixed vectors in both contexts. "
    "Static: parse accepts exactly the well-typed B expressions; properties, script bytes, script_size, max_ops / max_stack_items / max_exec_stack_items / "
    "max_witness_size and every component of is_sane equal the model's; from_script(script).script() == script; str() is Core's spelling and re-parses to the "
    "same node. Satisfaction: a real P2WSH / single-leaf P2TR spend with model-made signatures, generated availability of keys, preimages, nLockTime, "
    "nSequence, version; a witness returned by satisfy() must be accepted by verify_input (standard and consensus flags) and by the Core interpreter model "
    "run with its op and stack limits lowered to max_ops / max_exec_stack_items, and fit max_stack_items / max_witness_size; no witness when the spending "
    "condition is false; for sane expressions a witness whenever it is true. PSBT side: miniscript_solver == satisfy, the sizers bound the witness."
)
ASSUMPTIONS = [
    "miniscript_ref transcribes BIP379 and Core's miniscript.h (ComputeType, CalcOps, CalcStackSize incl. SatInfo, CalcWitnessSize, MaxScriptSize); it reproduces validity, script bytes, "
    "non-malleability, signature need, timelock mixing, ops, stack, exec-stack and witness size of all 97 vectors of Core's miniscript_tests.cpp fixed_tests in both contexts (checked at start)",
    "core_script_ref is Core's interpreter (validated in C08); its MAX_OPS_PER_SCRIPT / MAX_STACK_SIZE are lowered for one run to measure the executed ops and the peak stack against the bounds",
    "completeness (sane expression, condition true => satisfy answers) is BIP379's guarantee and not this property's: a refusal where the model's condition holds is tagged and makes the case trivial; "
    "the four bounds are compared with Core's as lower limits (a bound below Core's is reported, a looser one is tagged), since the property asks that witnesses stay within them",
    "duplicate keys are compared as the bytes the script holds; a repeated harness key is always written in the same spelling",
    "hash digests are distinct within an expression; preimages are 32 bytes (BIP379's size rule)",
    "the tapscript script-size bound (329482 bytes) is not approached: expressions stay below 40 kB",
]
LIBEXC = (BTClibValueError, BTClibTypeError, BTClibRuntimeError)
STANDARD = list(gs.STANDARD)
NUMS = gs.NUMS
VECTORS = os.path.join(VERIF, "vectors", "miniscript_fixed_tests.json")


class backend:
    def __init__(self, serving):
        self.serving = bool(serving)

    def __enter__(self):
        self.prev = is_libsecp256k1_serving()
        set_libsecp256k1_serving(serving=self.serving)

    def __exit__(self, *a):
        set_libsecp256k1_serving(serving=self.prev)


# ------------------------------------------------------------------------------------------------ model validation
def validate_models() -> None:
    with open(VECTORS) as f:
        vectors = json.load(f)
    if len(vectors) < 97:
        raise HarnessError("miniscript vectors missing")
    seen = {"valid": 0, "script": 0, "bounds": 0}
    for v in vectors:
        for ctx in (M.P2WSH, M.TAPSCRIPT):
            invalid = (not v["valid"]) or (v["p2wsh_invalid"] and ctx == M.P2WSH) or (v["tapscript_invalid"] and ctx == M.TAPSCRIPT)
            try:
                e = M.parse(v["miniscript"], ctx)
                info = M.analyse(e, ctx)
                vd = M.verdicts(e, ctx, info)
                ok = bool(vd["valid"] and vd.get("top_level"))
            except M.ParseError:
                ok = False
            if ok == invalid:
                raise HarnessError(f"miniscript_ref validity differs from Core on {v['miniscript'][:80]} ({ctx})")
            if not ok:
                continue
            seen["valid"] += 1
            want = v["p2wsh_script" if ctx == M.P2WSH else "tapscript_script"]
            if want is not None:
                seen["script"] += 1
                if M.serialize(info.toks).hex() != want:
                    raise HarnessError(f"miniscript_ref script differs from Core on {v['miniscript'][:80]} ({ctx})")
            if (vd["non_malleable"], vd["needs_signature"], vd["mixes_timelocks"]) != (v["non_malleable"], v["needs_signature"], v["mixed_timelocks"]):
                raise HarnessError(f"miniscript_ref m/s/k differ from Core on {v['miniscript'][:80]} ({ctx})")
            wk = "witness_size" if ctx == M.P2WSH else "tapscript_witness_size"
            for got, key in ((M.max_ops(info), "ops"), (M.max_stack_items(info), "stack_items"), (M.max_exec_stack_items(info), "exec_stack_items"), (M.max_witness_size(info), wk)):
                if v[key] is not None:
                    seen["bounds"] += 1
                    if got != v[key]:
                        raise HarnessError(f"miniscript_ref {key}={got} differs from Core's {v[key]} on {v['miniscript'][:80]} ({ctx})")
            if M.parse(M.text(e, ctx), ctx) != e or M.parse(M.text(e, ctx, 0), ctx) != e:
                raise HarnessError("miniscript_ref text does not re-parse")
    if seen["valid"] < 115 or seen["script"] < 60 or seen["bounds"] < 200:
        raise HarnessError(f"too few vectors exercised the model: {seen}")
    if M.max_script_size(M.TAPSCRIPT) != 329482:
        raise HarnessError("miniscript_ref MaxScriptSize")
    # harness keys: the incremental public keys are the private keys times G
    for i in (0, 1, 7):
        d, sec = M.key_pair(i)
        Q = fastec.mul(d, fastec.G)
        if sec != bytes([2 + (Q[1] & 1)]) + Q[0].to_bytes(32, "big"):
            raise HarnessError("harness key table")
    # lock-time rules of the model against the interpreter model's checker
    tx = {"version": 2, "lock_time": 0, "vin": [{"txid": "00" * 32, "vout": 0, "script_sig": "", "sequence": 0, "witness": []}], "vout": []}
    for version, lock, seq, n in itertools.product((1, 2, 0), (0, 100, 499_999_999, 500_000_000, 2**32 - 1), (0, 10, 0xFFFF, 0x400010, 0x80000010, 0xFFFFFFFF, 0x31000A), (1, 10, 11, 0x10000, 0x400010, 0x40000A, 100, 500_000_000, 2**31 - 1)):
        tx["version"], tx["lock_time"], tx["vin"][0]["sequence"] = version, lock, seq
        chk = cs.Checker(tx, 0, [{"value": 0, "spk": ""}])
        if chk.check_lock_time(n) != M.after_met(n, lock, seq) or chk.check_sequence(n) != M.older_met(n, seq, version):
            raise HarnessError(f"lock-time rule differs: version={version} lock={lock} seq={seq:#x} n={n}")


# ------------------------------------------------------------------------------------------------ static identities
def _frag(node) -> str:
    return node.fragment.rstrip(":")


def _pairs(node, info):
    """Library nodes next to the model's, every one of the tree (the parser removes the sugar, as the model's expressions do)."""
    stack = [(node, info)]
    while stack:
        n, i = stack.pop()
        yield n, i
        if len(n.subs) != len(i.sub):
            raise Violation(f"parse:shape:{i.e[0]}", f"library node {n.fragment} has {len(n.subs)} subexpressions, the expression {len(i.sub)}")
        stack.extend(zip(n.subs, i.sub))


def _deepest(node, info, differs):
    """The innermost node where `differs(lib, model)` while it does not for any of its subexpressions."""
    best = None
    for n, i in _pairs(node, info):
        if differs(n, i) and not any(differs(a, b) for a, b in zip(n.subs, i.sub)):
            best = (n, i)
    return best


def same_node(a, b) -> bool:
    """Miniscript.__eq__ without its recursion (the dataclass comparison nests as deep as the expression)."""
    stack = [(a, b)]
    while stack:
        x, y = stack.pop()
        if (x.fragment, x.context, x.threshold, x.data, x.keys, len(x.subs)) != (y.fragment, y.context, y.threshold, y.data, y.keys, len(y.subs)):
            return False
        stack.extend(zip(x.subs, y.subs))
    return True


def key_hashes(e, tap: bool) -> dict:
    out = {}
    for x in M.walk(e):
        if x[0] == "pk_h":
            kb = M.key_bytes(x[1], tap)
            out[M.hash_fn("hash160", kb)] = kb
    return out


def _blame_ill_typed(info) -> str:
    """Fragment of the innermost node the model gives no type while its arguments have one."""
    name = info.e[0]
    stack = [info]
    while stack:
        i = stack.pop()
        if i.t is None and all(s.t is not None for s in i.sub):
            name = i.e[0]
        stack.extend(i.sub)
    return name


def lib_parse(case, info, vd):
    """parse() of the case's text: the node, or None for an expected refusal; the typing verdict must be the model's."""
    ctx, e = case["ctx"], case["expr"]
    text = M.text(e, ctx, case.get("sugar", -1), case.get("xonly", -1))
    want = bool(vd["valid"] and vd.get("top_level"))
    try:
        node = L.parse(text, ctx)
    except BTClibValueError as ex:
        if want:
            msg = str(ex)
            what = msg.split(":")[0][:40] + (":" + msg.split(":")[1].split(" over")[0].strip()[:12] if msg.startswith("ill-typed") else "")
            raise Violation(f"parse:refuses-well-typed:{what}", f"{msg[:300]} | {text[:600]}") from ex
        return None, text
    if not want:
        why = "not-B" if vd["typed"] and vd["valid"] else "too-large" if vd["typed"] else "shape" if info.t is not None else _blame_ill_typed(info)
        raise Violation(f"parse:accepts-ill-typed:{why}", text[:900])
    return node, text


def static_identities(case, node, info, vd, text):
    ctx, e = case["ctx"], case["expr"]
    tap = ctx == M.TAPSCRIPT
    # 0. the node is the expression the text denotes, fragment by fragment
    for n, i in _pairs(node, info):
        x = i.e
        same = _frag(n) == x[0] and n.context == ctx
        if same and x[0] in ("older", "after", "thresh", "multi", "multi_a"):
            same = n.threshold == x[1]
        if same and x[0] in ("pk_k", "pk_h", "multi", "multi_a"):
            want_keys = [M.key_bytes(k, tap) for k in ([x[1]] if x[0] in ("pk_k", "pk_h") else x[2])]
            same = [k.sec()[-32:] if tap else k.sec() for k in n.keys] == want_keys
        if same and x[0] in M.HASHES:
            same = n.data == M.digest_bytes(x[0], x[1])
        if not same:
            raise Violation(f"parse:reads-another-expression:{x[0]}", f"{text[:400]} read {n.fragment} threshold={n.threshold} where the text says {str(x)[:120]}")

    # 1. the type of every node
    # (the letters BIP379 tabulates, and k; how an implementation books timelock kinds below k -- Core's g h i j -- is its own affair)
    letters = frozenset("BVKWzonduefsmk")

    def type_differs(n, i):
        return i.t is not None and frozenset(n.properties) & letters != i.t & letters

    if type_differs(node, info) or any(type_differs(n, i) for n, i in _pairs(node, info)):
        n, i = _deepest(node, info, type_differs)
        lib, ref = frozenset(n.properties) & letters, i.t & letters
        raise Violation(f"type:{i.e[0]}:+{''.join(sorted(lib - ref))}-{''.join(sorted(ref - lib))}", f"{n} library={''.join(sorted(lib))} model={''.join(sorted(ref))} over {[''.join(sorted(s.t)) for s in i.sub]}")
    # 2. the script and its size
    script = node.script()
    want = M.serialize(info.toks)
    if script != want:
        def script_differs(n, i):
            return n.is_valid and n.script() != M.script(i.e, ctx)

        hit = _deepest(node, info, script_differs)
        where = hit[1].e[0] if hit and (hit[0] is not node or not node.subs) else "in-context:" + e[0]
        raise Violation(f"script:{where}", f"{text[:300]} library={script.hex()[:400]} model={want.hex()[:400]}")
    if node.script_size != len(script):
        hit = _deepest(node, info, lambda n, i: n.script_size != i.size)
        raise Violation(f"script_size:{hit[1].e[0] if hit else e[0]}", f"{text[:300]} script_size={node.script_size} len={len(script)}")
    # 3. read-back
    hashes = key_hashes(e, tap)
    try:
        back = L.from_script(script, ctx, hashes)
    except BTClibValueError as ex:
        raise Violation(f"from_script:refuses-compiled-script:{str(ex).split(':')[0][:50]}", f"{text[:400]} script={script.hex()[:400]} {ex}") from ex
    if back.script() != script:
        def misread(n, i):
            if i.t is None or "B" not in i.t or not n.is_valid:
                return False
            own = n.script()
            try:
                return L.from_script(own, ctx, hashes).script() != own
            except BTClibValueError:
                return True

        hit = _deepest(node, info, misread)
        raise Violation(f"from_script:reads-another-script:{hit[1].e[0] if hit else e[0]}", f"{text[:400]} read back as {str(back)[:400]}")
    if L.reads_back(script, ctx, hashes) is not True:
        raise Violation("from_script:reads_back-false", text[:400])
    # 4. text: Core's spelling, and the round trip
    written = str(node)
    canonical = M.text(e, ctx, -1, case.get("xonly", -1))
    if written != canonical:
        pos = next((k for k, (a, b) in enumerate(zip(written, canonical)) if a != b), min(len(written), len(canonical)))
        hit = _deepest(node, info, lambda n, i: str(n) != M.text(i.e, ctx, -1, case.get("xonly", -1)))
        raise Violation(f"text:writer-differs:{hit[1].e[0] if hit else e[0]}", f"at {pos}: library=...{written[max(0, pos - 30):pos + 60]} model=...{canonical[max(0, pos - 30):pos + 60]}")
    again = L.parse(written, ctx)
    if not same_node(again, node):
        raise Violation(f"text:round-trip:{e[0]}", written[:600])
    # 5. bounds: the property asks that a witness stays within them, so a bound BELOW the one Core computes (which some satisfaction attains) is the fault;
    # a looser one is tagged by the caller and is no violation
    looser = []
    for name, got_of, want_of in (
        ("max_ops", lambda n: n.max_ops, M.max_ops),
        ("max_stack_items", lambda n: n.max_stack_items, M.max_stack_items),
        ("max_exec_stack_items", lambda n: n.max_exec_stack_items, M.max_exec_stack_items),
        ("max_witness_size", lambda n: n.max_witness_size, M.max_witness_size),
    ):
        def below(n, i):
            got, want = got_of(n), want_of(i)
            return got is not None and want is not None and got < want

        if below(node, info):
            # a K node leaves its key for the c: above it to consume: its own numbers are not a script's, and Core asks them of B nodes
            hit = _deepest(node, info, lambda n, i: i.t is not None and "K" not in i.t and below(n, i))
            n, i = hit if hit else (node, info)
            raise Violation(f"bound:{name}:{i.e[0]}", f"{str(n)[:300]} library={got_of(n)} model={want_of(i)}")
        if got_of(node) != want_of(info):
            looser.append(name)
    # 6. the verdicts
    lib_verdicts = {
        "top_level": node.is_valid_top_level,
        "non_malleable": node.is_non_malleable,
        "needs_signature": node.is_signature_required,
        "mixes_timelocks": node.mixes_timelocks,
        "duplicate_keys": node.has_duplicate_keys,
        "within_limits": node.is_within_resource_limits,
        "satisfiable": node.is_satisfiable,
        "sane": node.is_sane,
    }
    for name, got in lib_verdicts.items():
        if looser and name in ("within_limits", "satisfiable", "sane"):
            continue  # verdicts that follow from the bounds are Core's only where the bounds are
        if bool(got) != bool(vd[name]):
            raise Violation(f"verdict:{name}:library={bool(got)}", text[:600])
    return script, looser


def _shape_tags(e, family):
    names = {x[0] for x in M.walk(e)}
    n = sum(1 for _ in M.walk(e))
    wrappers = names & set(M.WRAPPERS)
    return names, n, bool(wrappers)


def check_static(case):
    ctx, e = case["ctx"], case["expr"]
    info = M.analyse(e, ctx)
    vd = M.verdicts(e, ctx, info)
    node, text = lib_parse(case, info, vd)
    names, n, wrapped = _shape_tags(e, case.get("family"))
    tags = [case.get("family", "?"), ctx]
    if node is None:
        why = "refused:" + ("too-large" if vd["typed"] and not vd["valid"] else "not-B" if vd["typed"] else "ill-typed")
        return Outcome(n >= 3, (*tags, why))
    _, looser = static_identities(case, node, info, vd, text)
    tags.extend("bound-looser-than-Core:" + x for x in looser)
    tags.append("sane" if vd["sane"] else "typed-insane:" + next(k for k, bad in (("limits", not vd["within_limits"]), ("malleable", not vd["non_malleable"]), ("mixes", vd["mixes_timelocks"]), ("dup-keys", vd["duplicate_keys"]), ("no-sig", not vd["needs_signature"]), ("?", True)) if bad))
    if case.get("family") == "catalog":
        return Outcome(True, tuple(tags))
    # the evidence keeps the 40 most frequent tags: the fragment frequencies (sane expressions) come first, the classes are few
    if vd["sane"]:
        tags = [tags[0], ctx, "sane", *sorted("f:" + x for x in names)]
    else:
        tags = [tags[0], ctx, "typed-insane"]
    return Outcome(n >= 3 and wrapped, tuple(tags))


# ------------------------------------------------------------------------------------------------ the one-level catalog
def _pool(ctx):
    """Typed arguments, one or two per row of the typing table's requirement column; each a function of a key allocator."""
    multi = "multi_a" if ctx == M.TAPSCRIPT else "multi"
    pk = lambda k: ["c", ["pk_k", k()]]  # noqa: E731
    return [
        ("pk", pk),
        ("pkh", lambda k: ["c", ["pk_h", k()]]),
        ("older-b", lambda k: ["older", 144]),
        ("older-t", lambda k: ["older", 0x400090]),
        ("after-h", lambda k: ["after", 1000]),
        ("after-t", lambda k: ["after", 1_600_000_000]),
        ("sha256", lambda k: ["sha256", 0]),
        ("hash160", lambda k: ["hash160", 1]),
        ("multi", lambda k: [multi, 2, [k(), k(), k()]]),
        ("0", lambda k: ["0"]),
        ("1", lambda k: ["1"]),
        ("j:pk", lambda k: ["j", pk(k)]),
        ("n:older", lambda k: ["n", ["older", 144]]),
        ("dv:older", lambda k: ["d", ["v", ["older", 144]]]),
        ("l:pk", lambda k: ["or_i", ["0"], pk(k)]),
        ("u:after", lambda k: ["or_i", ["after", 1000], ["0"]]),
        ("and_v(v:pk,older)", lambda k: ["and_v", ["v", pk(k)], ["older", 144]]),
        ("or_b(pk,s:pk)", lambda k: ["or_b", pk(k), ["s", pk(k)]]),
        ("pk_k", lambda k: ["pk_k", k()]),
        ("pk_h", lambda k: ["pk_h", k()]),
        ("v:pk", lambda k: ["v", pk(k)]),
        ("v:older", lambda k: ["v", ["older", 144]]),
        ("v:sha256", lambda k: ["v", ["sha256", 2]]),
        ("a:pk", lambda k: ["a", pk(k)]),
        ("s:pk", lambda k: ["s", pk(k)]),
        ("a:older", lambda k: ["a", ["older", 0x400090]]),
        ("a:sha256", lambda k: ["a", ["sha256", 3]]),
    ]


CATALOG_FRAGMENTS = [*G.UNARY, *M.BINARY, "andor", "and_n", "thresh1", "thresh2", "thresh3"]


def catalog_units(tier):
    units = [["coverage"]]
    for ctx in (M.P2WSH, M.TAPSCRIPT):
        n = len(_pool(ctx))
        for frag in CATALOG_FRAGMENTS:
            if G.ARITY.get(frag, 1) == 1 and not frag.startswith("thresh"):
                units.append([ctx, frag, -1])
            else:
                units.extend([ctx, frag, i] for i in range(n))
    return units


def coverage_unit(col):
    """Every fragment must be reached by the generated families in sane expressions: a zero is the harness's fault, and said so."""
    from hypothesis import HealthCheck, given, seed, settings

    seen: dict = {}

    @seed(15)
    @settings(max_examples=700, database=None, deadline=None, suppress_health_check=list(HealthCheck))
    @given(G.static_case(families=["tree", "chain", "wide"]))
    def run(case):
        vd = M.verdicts(case["expr"], case["ctx"])
        if vd.get("sane"):
            for x in M.walk(case["expr"]):
                seen[x[0]] = seen.get(x[0], 0) + 1
            txt = M.text(case["expr"], case["ctx"])
            for sugar in ("pk(", "pkh(", "and_n(", "t", "l", "u"):
                if (sugar in txt) if len(sugar) > 1 else any(sugar in run_ for run_ in _wrapper_runs(txt)):
                    seen["sugar:" + sugar] = seen.get("sugar:" + sugar, 0) + 1

    run()
    missing = [f for f in (*M.FRAGMENTS, "sugar:pk(", "sugar:pkh(", "sugar:and_n(", "sugar:t", "sugar:l", "sugar:u") if not seen.get(f)]
    if missing:
        raise HarnessError(f"the generator reaches no sane expression with: {missing}")
    col.bulk(700, 0, {"coverage": "fragments in sane generated expressions"}, {"coverage:" + k: v for k, v in seen.items() if k in ("d", "or_c", "multi_a", "hash160", "after", "thresh")})


def _wrapper_runs(txt: str):
    import re

    return re.findall(r"(?:^|[(,])([a-z]+):", txt)


def catalog_run_unit(unit, col):
    if unit == ["coverage"]:
        return coverage_unit(col)
    ctx, frag, first = unit
    pool = _pool(ctx)
    arity = {"thresh1": 1, "thresh2": 2, "thresh3": 3, "andor": 3}.get(frag, G.ARITY.get(frag, 1))
    firsts = range(len(pool)) if first < 0 else [first]
    evals = nontrivial = 0
    tags: dict = {}
    for idx in itertools.product(firsts, *([range(len(pool))] * (arity - 1))):
        thresholds = [0] if not frag.startswith("thresh") else sorted({1, arity})
        for k in thresholds:
            counter = itertools.count()
            args = [pool[i][1](lambda: next(counter)) for i in idx]
            e = G.build("thresh" if frag.startswith("thresh") else frag, args, k)
            case = {"family": "catalog", "ctx": ctx, "expr": e, "sugar": (idx[0] * 7 + idx[-1]) * 0x1F3D5B79 & (2**48 - 1), "xonly": -1 if (idx[0] + idx[-1]) % 2 else 0}
            evals += 1
            try:
                out = check_static(case)
            except Violation as v:
                col.fail(v.signature, {"unit": unit}, f"{[pool[i][0] for i in idx]} k={k}: {v.detail}")
                continue
            if out.tags and not out.tags[2].startswith("refused"):
                nontrivial += 1
            key = f"{frag}:{out.tags[2].split(':')[0]}"
            tags[key] = tags.get(key, 0) + 1
    col.bulk(evals, nontrivial, {"ctx": ctx, "fragment": frag, "first": pool[first][0] if first >= 0 else "*"}, tags)


# ------------------------------------------------------------------------------------------------ spends
def der(r: int, s: int) -> bytes:
    def enc(x):
        b = x.to_bytes((x.bit_length() + 8) // 8, "big")  # a leading zero where the top bit is set
        return b"\x02" + bytes([len(b)]) + b

    body = enc(r) + enc(s)
    return b"\x30" + bytes([len(body)]) + body


def make_spend(case, script: bytes):
    """-> (tx dict without witness, spent, witness tail, sign(key index) -> signature bytes)"""
    tap = case["ctx"] == M.TAPSCRIPT
    amount = case["amount"]
    tx = {
        "version": case["version"],
        "lock_time": case["lock_time"],
        "vin": [{"txid": sha256(b"C15 prevout").hex(), "vout": 1, "script_sig": "", "sequence": case["sequence"], "witness": []}],
        "vout": [{"value": max(0, amount - 1000), "spk": "0014" + "11" * 20}],
    }
    if tap:
        leaf = cs.tagged("TapLeaf", b"\xc0" + ser_string(script))
        q, parity = fastec.tap_tweak_pubkey(NUMS, leaf)
        spent = [{"value": amount, "spk": (b"\x51\x20" + q).hex()}]
        tail = [script, bytes([0xC0 | parity]) + NUMS]
    else:
        spent = [{"value": amount, "spk": (b"\x00\x20" + sha256(script)).hex()}]
        tail = [script]
    ht = case["hashtype"]

    def sign(k: int) -> bytes:
        d = M.key_pair(k)[0]
        if tap:
            digest = sh.taproot(tx, 0, spent, ht, scriptpath=True, leaf_hash=leaf)
            sig = fastec.schnorr_sign(digest, d)
            return sig + (bytes([ht]) if ht else b"")
        digest = sh.segwit_v0(script, tx, 0, ht, amount)
        r, s = fastec.ecdsa_sign(digest, d)
        return der(r, s) + bytes([ht])

    return tx, spent, tail, sign


def availability(case, tap: bool):
    e = case["expr"]
    signing = {M.key_bytes(k, tap) for k in case["signing"]}
    by_name: dict = {name: {} for name in M.HASHES}
    known = set()
    for x in M.walk(e):
        if x[0] in M.HASHES and x[1] in case["known"]:
            digest = M.digest_bytes(x[0], x[1])
            by_name[x[0]][digest] = M.preimage(x[1])
            known.add(digest)
    return signing, known, by_name


def signatures_for(case, sign, tap: bool) -> dict:
    out = {}
    for k in case["signing"]:
        sec = M.key_pair(k)[1]
        if tap:
            # a taproot key answers to its 32 bytes and to the 33-byte spelling the expression was written in
            written33 = not ((case.get("xonly", -1) >> (k % 48)) & 1) if case.get("xonly", -1) >= 0 else False
            # (the two spellings SpendContext documents: the 32 x-only bytes and the 33-byte even-y SEC form)
            keyed = b"\x02" + sec[1:] if case.get("sig_keyed_by") == "sec" else sec[1:]
        else:
            keyed = sec
        out[keyed] = sign(k)
    return out


def witness_size(stack) -> int:
    return sum(len(compact_size(len(x))) + len(x) for x in stack)


def judge(tx, spent, witness, flags, serving, limits=None):
    """-> (library verdict, model code). `limits` = (ops, stack) lowers the interpreter model's two limits for this run."""
    tx = json.loads(json.dumps(tx))
    tx["vin"][0]["witness"] = [x.hex() for x in witness]
    saved = (cs.MAX_OPS_PER_SCRIPT, cs.MAX_STACK_SIZE)
    try:
        if limits:
            cs.MAX_OPS_PER_SCRIPT, cs.MAX_STACK_SIZE = min(limits[0], saved[0]), min(limits[1], saved[1])
        code = cs.verify_input(tx, 0, spent, set(flags))
    finally:
        cs.MAX_OPS_PER_SCRIPT, cs.MAX_STACK_SIZE = saved
    with backend(serving):
        t = build.tx(tx, check_validity=False)
        prevouts = [build.tx_out(s, check_validity=False) for s in spent]
        try:
            verify_input(prevouts, t, 0, ",".join(flags) if flags else "NONE")
            lib = "accept"
        except BTClibValueError as ex:
            lib = f"reject: {ex}"
    return lib, code


def check_spend(case):
    ctx, e = case["ctx"], case["expr"]
    tap = ctx == M.TAPSCRIPT
    info = M.analyse(e, ctx)
    vd = M.verdicts(e, ctx, info)
    node, text = lib_parse(case, info, vd)
    if node is None:
        return Outcome(False, ("not-an-expression", ctx))
    script = node.script()
    if script != M.serialize(info.toks):
        raise Violation(f"script:{e[0]}", f"{text[:300]} library={script.hex()[:300]}")
    tx, spent, tail, sign = make_spend(case, script)
    signing, known, preimages = availability(case, tap)
    spend = L.SpendContext(
        sha256_preimages=preimages["sha256"], hash256_preimages=preimages["hash256"], ripemd160_preimages=preimages["ripemd160"], hash160_preimages=preimages["hash160"],
        locktime=case["lock_time"], sequence=case["sequence"], version=case["version"],
    )  # fmt: skip
    sigs = signatures_for(case, sign, tap)
    holds = M.holds(e, signing, known, case["lock_time"], case["sequence"], case["version"], tap)
    try:
        stack = node.satisfy(sigs, spend)
    except BTClibValueError:
        stack = None
    names, n, wrapped = _shape_tags(e, case.get("family"))
    tags = [case.get("family", "?"), f"{ctx}/bindings={case.get('backend', True)}", "sane" if vd["sane"] else "insane"]
    nontrivial = n >= 3 and wrapped
    if stack is None:
        # the property promises no satisfaction when the condition is false, and soundness of the ones produced; that one is produced whenever the condition
        # holds (BIP379's completeness for sane expressions) is not part of it: such a refusal is counted, and the case is trivial
        tags.append("refused:condition-false" if not holds else "refused:condition-true-and-sane" if vd["sane"] else "refused:condition-true-but-insane")
        return Outcome(nontrivial and not holds, tuple(tags))
    stack = [bytes(x) for x in stack]
    ops, items, peak, wit = node.max_ops, node.max_stack_items, node.max_exec_stack_items, node.max_witness_size
    if None in (ops, items, peak, wit):
        raise Violation("satisfy:witness-for-an-expression-said-unsatisfiable", text[:400])
    limits = (ops if not tap else cs.MAX_OPS_PER_SCRIPT, peak)
    lib, code = judge(tx, spent, stack + tail, STANDARD, case.get("backend", True), limits)
    if code in ("OP_COUNT", "STACK_SIZE"):
        lib2, code2 = judge(tx, spent, stack + tail, STANDARD, True)
        if code2 == "OK":
            raise Violation(f"bound:executed-{'ops' if code == 'OP_COUNT' else 'stack'}-exceed-the-prediction:{ctx}", f"{text[:500]} max_ops={ops} max_exec_stack_items={peak}")
        code = code2
    within = vd["within_limits"]
    if code != "OK":
        if holds is False or within:
            raise Violation(f"satisfy:witness-rejected:{code}:{ctx}:condition-{'holds' if holds else 'false'}", f"{text[:500]} witness={[x.hex() for x in stack][:12]} library engine: {lib[:120]}")
        tags.append("witness-beyond-the-resource-limits")
        return Outcome(nontrivial, tuple(tags))
    if not holds:
        raise HarnessError(f"the model's condition is false yet the interpreter model accepts the witness: {text[:300]} {case}")
    if lib != "accept":
        raise Violation(f"satisfy:engine-rejects-the-witness:{ctx}:bindings={case.get('backend', True)}", f"{text[:400]} {lib[:200]}")
    lib_c, code_c = judge(tx, spent, stack + tail, gs.CONSENSUS, case.get("backend", True))
    if lib_c != "accept" or code_c != "OK":
        raise Violation(f"satisfy:consensus-flags-reject:{ctx}", f"{text[:400]} {lib_c[:100]} model={code_c}")
    if len(stack) > items:
        raise Violation(f"bound:witness-elements-exceed-max_stack_items:{ctx}", f"{text[:500]} {len(stack)} > {items}")
    if witness_size(stack) > wit:
        raise Violation(f"bound:witness-bytes-exceed-max_witness_size:{ctx}", f"{text[:500]} {witness_size(stack)} > {wit}")
    tags.append("witness")
    return Outcome(nontrivial, (*tags, *sorted("f:" + x for x in names)))


@st.composite
def spend_strategy(draw, **kw):
    case = draw(G.spend_case(**kw))
    case["backend"] = draw(st.sampled_from([True, True, True, False]))
    return case


# ------------------------------------------------------------------------------------------------ PSBT side
def check_psbt(case):
    from btclib.bip32.key_origin import BIP32KeyOrigin
    from btclib.descriptors import miniscript_sizer, miniscript_solver, satisfaction_sizer
    from btclib.psbt.psbt import Psbt

    ctx, e = case["ctx"], case["expr"]
    info = M.analyse(e, ctx)
    vd = M.verdicts(e, ctx, info)
    node, text = lib_parse(case, info, vd)
    if node is None:
        return Outcome(False, ("not-an-expression",))
    script = node.script()
    tx, spent, tail, sign = make_spend(case, script)
    signing, known, preimages = availability(case, False)
    sigs = signatures_for(case, sign, False)
    spend = L.SpendContext(
        sha256_preimages=preimages["sha256"], hash256_preimages=preimages["hash256"], ripemd160_preimages=preimages["ripemd160"], hash160_preimages=preimages["hash160"],
        locktime=case["lock_time"], sequence=case["sequence"], version=case["version"],
    )  # fmt: skip
    try:
        direct = [bytes(x) for x in node.satisfy(sigs, spend)]
    except BTClibValueError:
        direct = None
    psbt = Psbt.from_tx(build.tx(tx))
    psbt_in = psbt.inputs[0]
    psbt_in.witness_utxo = build.tx_out(spent[0])
    psbt_in.witness_script = script
    psbt_in.partial_sigs = dict(sigs)
    keys = sorted(set(M.keys_of(e)))
    psbt_in.hd_key_paths = {M.key_pair(k)[1]: BIP32KeyOrigin("c15c15c1", [k]) for k in keys}
    for name in M.HASHES:
        setattr(psbt_in, f"{name}_preimages", dict(preimages[name]))
    names, n, wrapped = _shape_tags(e, case.get("family"))
    tags = [case.get("family", "?"), "sane" if vd["sane"] else "insane"]
    try:
        solved = miniscript_solver(psbt, 0)
    except BTClibValueError:
        solved = "refused"
    if solved is None:
        raise Violation("psbt:solver-does-not-recognise-the-miniscript", text[:500])
    if (solved == "refused") != (direct is None):
        raise Violation(f"psbt:solver-and-satisfy-disagree:solver={'refuses' if solved == 'refused' else 'answers'}", text[:500])
    tx_in = psbt.tx.vin[0]
    sized = miniscript_sizer(psbt_in, tx_in)
    # "None where no witness can satisfy it at all": for a sane expression that is the static answer (for a malleable one the estimate may
    # count a witness the static tables do not list, and nothing is claimed)
    if vd["sane"] and (sized is None) != (not vd["satisfiable"]):
        raise Violation(f"psbt:miniscript_sizer:{'none-for-a-satisfiable' if sized is None else 'sizes-an-unsatisfiable'}", text[:500])
    if sized is not None and sized[-1] != len(script):
        raise Violation("psbt:miniscript_sizer:script-length", text[:300])
    signer_keys = [M.key_pair(k)[1] for k in case["signing"]]
    # satisfaction_sizer reads everything satisfy reads but nLockTime, which it takes as unmet: the same answer where no after() is met
    exact = not any(x[0] == "after" and M.after_met(x[1], case["lock_time"], case["sequence"]) for x in M.walk(e))
    by_keys = satisfaction_sizer(signer_keys, tx_version=case["version"])(psbt_in, tx_in)
    any_version = satisfaction_sizer(signer_keys)(psbt_in, tx_in)

    def total(sizes):
        return sum(len(compact_size(v)) + v for v in sizes)

    if solved == "refused":
        if exact and by_keys is not None:
            raise Violation("psbt:satisfaction_sizer:sizes-what-satisfy-refuses", text[:500])
        return Outcome(n >= 3 and wrapped, (*tags, "refused"))
    script_sig, witness = solved
    got = [bytes(x) for x in witness.stack]
    if script_sig != b"" or got != [*direct, script]:
        raise Violation("psbt:solver-witness-differs-from-satisfy", f"{text[:400]} solver={[x.hex() for x in got][:10]} satisfy={[x.hex() for x in direct][:10]}")
    tx_w = json.loads(json.dumps(tx))
    tx_w["vin"][0]["witness"] = [x.hex() for x in got]
    code = cs.verify_input(tx_w, 0, spent, set(STANDARD))
    if code != "OK" and vd["within_limits"]:
        raise Violation(f"psbt:solver-witness-rejected:{code}", text[:500])
    actual = [len(x) for x in direct]
    if sized is None or total(sized[:-1]) < total(actual):
        raise Violation("psbt:miniscript_sizer:below-the-actual-witness", f"{text[:400]} sizer={sized} actual={actual}")
    if exact:
        # the filler signatures are at least as long as the real ones and the satisfier breaks ties by size: the branch may differ, the
        # total may not be smaller
        for name, answer in (("for-this-version", by_keys), ("for-any-version", any_version)):
            if answer is None:
                raise Violation(f"psbt:satisfaction_sizer:none-for-the-spend-these-keys-build:{name}", text[:500])
            if answer[-1] != len(script) or total(answer[:-1]) < total(actual):
                raise Violation(f"psbt:satisfaction_sizer:below-the-actual-witness:{name}", f"{text[:400]} sizer={answer} actual={actual}")
        tags.append("satisfaction_sizer:same-shape" if len(by_keys) - 1 == len(actual) and all(a >= b for a, b in zip(by_keys, actual)) else "satisfaction_sizer:other-branch")
    elif by_keys is not None:
        tags.append("satisfaction_sizer:after-unknown")
    tags.append("witness")
    return Outcome(n >= 3 and wrapped, tuple(tags))


# ---------------------------------------------------------------- deep nests, judged with the library's own == and hash
NEST_SHAPES = ["and_b-left", "and_b-right", "or_d-right", "and_v-right", "andor-mid", "wrappers", "thresh-first"]


@st.composite
def deep_case(draw):
    return {"shape": draw(st.sampled_from(NEST_SHAPES)), "depth": draw(st.one_of(st.sampled_from([1, 50, 150, 300, 400, 600, 900]), st.integers(1, 1000))), "seed": draw(st.integers(0, 2**20)), "other": draw(st.integers(0, 3))}


@functools.lru_cache(maxsize=8192)
def _nest_key(i: int) -> str:
    return format(fastec.mul(i + 1, fastec.G)[0], "064x")


def _deep_text(shape, depth, seed, tweak):
    """A tapscript expression nested `depth` deep (x-only keys, all distinct); `tweak` changes the innermost key."""
    key = _nest_key
    inner = f"pk({key(10**6 + 10 * (seed % 50) + tweak)})"
    s = inner
    for i in range(1, depth + 1):
        k = key(i)
        if shape == "and_b-left":
            s = f"and_b({s},s:pk({k}))"
        elif shape == "and_b-right":
            s = f"and_b(pk({k}),a:{s})"
        elif shape == "or_d-right":
            s = f"or_d(pk({k}),{s})"
        elif shape == "and_v-right":
            s = f"and_v(v:pk({k}),{s})"
        elif shape == "andor-mid":
            s = f"andor(pk({k}),{s},pk({key(i + 5000)}))"
        elif shape == "thresh-first":
            s = f"thresh(1,{s},s:pk({k}))"
        else:
            s = ("n:" if i % 2 else "j:") + ("c:pk_k(" + k + ")" if i == 1 else s) if False else s
    if shape == "wrappers":
        # a wrapper chain on a B-typed leaf: j: needs Bn, n: gives B again
        s = "".join("jn"[i % 2] for i in range(min(depth, 600)))
        s = s + ":" + inner if s else inner
    return s


def check_deep(case):
    from btclib.descriptors import miniscript as ms

    shape, depth = case["shape"], case["depth"]
    text = _deep_text(shape, depth, case["seed"], 0)
    try:
        a = ms.parse(text, "tapscript")
    except LIBEXC as e:
        return Outcome(False, (f"{shape}:refused", str(e)[:30]))
    b = ms.parse(text, "tapscript")
    # the property's "re-parses to the same expression" and "reads back as an expression that compiles to the same script", asked of the library's own equality
    if not (a == b) or a != b:
        raise Violation("deep:two-parses-of-one-text-differ", f"{shape} depth {depth}")
    if hash(a) != hash(b):
        raise Violation("deep:equal-expressions-hash-differently", f"{shape} depth {depth}")
    back = ms.parse(str(a), "tapscript")
    if back != a:
        raise Violation("deep:text-does-not-re-parse-to-the-same-expression", f"{shape} depth {depth}")
    script = a.script() if callable(getattr(a, "script")) else a.script
    read = ms.from_script(script, "tapscript")
    script2 = read.script() if callable(getattr(read, "script")) else read.script
    if script2 != script:
        raise Violation("deep:read-back-compiles-to-another-script", f"{shape} depth {depth}")
    if len(script) != a.script_size:
        raise Violation("deep:script-size", f"{len(script)} vs {a.script_size}")
    other = ms.parse(_deep_text(shape, depth, case["seed"], 1 + case["other"]), "tapscript")
    if other == a or not (other != a):
        raise Violation("deep:different-expressions-compare-equal", f"{shape} depth {depth}: the innermost key differs")
    if len({a, b, back, other}) != 2:
        raise Violation("deep:set-of-expressions", f"{shape} depth {depth}")
    return Outcome(depth >= 100, (shape, f"depth={'<100' if depth < 100 else ('<300' if depth < 300 else ('<600' if depth < 600 else '600+'))}"))



SUBCHECKS = [
    SubCheck("catalog", lambda c: None, "every fragment (and sugared form) over every tuple of a pool of 27 typed arguments, thresh with 1..3 arguments at k=1 and k=n, both contexts: parse accepts exactly what the typing table allows and every static identity holds on what it accepts; non-trivial: accepted", units=catalog_units, run_unit=catalog_run_unit, exhaustive=True),
    SubCheck("static", check_static, "generated expressions (families tree / chain / wide / mutant): acceptance, per-node type, script, size, read-back, text, bounds, sanity verdicts against the model; non-trivial: >=3 fragments including a wrapper", G.static_case, quick=6000, thorough=80000, max_buckets=8),
    SubCheck("satisfaction", check_spend, "a real spend per case with generated availability; witness judged by the engine and the Core model with limits lowered to the predicted bounds; refusal judged by the semantic model; non-trivial: >=3 fragments including a wrapper", spend_strategy, quick=2500, thorough=30000, max_buckets=8),
    SubCheck("deep_nests", check_deep, "tapscript expressions nested 1..1000 deep in 7 shapes (left/right and_b, or_d, and_v, andor, wrapper chains, thresh): two parses are == and hash alike, str() re-parses to an == expression, from_script(script) compiles to the same script, an expression differing in its innermost key is != (the library's own ==, != and hash are the judges); non-trivial: depth >= 100", deep_case, quick=300, thorough=3000),
    SubCheck("psbt_side", check_psbt, "wsh miniscript input of a PSBT: miniscript_solver against satisfy and the Core model, miniscript_sizer and satisfaction_sizer against the actual witness", lambda: spend_strategy(ctx=M.P2WSH), quick=800, thorough=10000, max_buckets=6),
    SubCheck("coverage_guided", None, "atheris / libFuzzer campaigns (btclib instrumented, in-process) from arbitrary text over miniscript.parse and from arbitrary bytes over miniscript.from_script, both contexts, seeded with valid expressions and their scripts: an accepted expression's text re-parses to an equal expression, its script has the predicted size and reads back to an expression compiling to the same script; an accepted script compiles back to the same bytes and reads_back agrees with from_script; non-trivial: inputs libFuzzer kept because they reached new coverage",
             units=lambda tier: __import__("checks.c19_fuzz", fromlist=["units"]).units(tier, "C15"), run_unit=lambda unit, col: __import__("checks.c19_fuzz", fromlist=["run_unit"]).run_unit(unit, col, "C15")),
]
