"""C19 — hostile input is refused with library exceptions only; predicates are total."""

from __future__ import annotations

import hashlib
import os
import resource
import signal
import subprocess
import sys
import tempfile
import time
import traceback
import json
from io import BytesIO

from hypothesis import strategies as st

from btclib.exceptions import BTClibRuntimeError, BTClibTypeError, BTClibValueError
from checks import c19_table as T
from vlib.gens import hostile as H
from vlib.gens import hostile_seeds as S
from vlib.models import psbt_ref, tx_ref
from vlib.runner import HarnessError, Outcome, SubCheck, Violation, _through_btclib

PROPERTY = "C19"
LEVEL = "exploration"
RULE = (
    "Valid encodings of every wire/text/JSON form (the other checks' sound generators plus a corpus of public vectors) under 0..6 STACKED boundary-biased mutations "
    "(length/count/marker bytes set to 0,1,0x4b..0x4e,0x7f,0x80,0xfc..0xff; CompactSize 0,1,0xfc,0xfd,0xffff,0x10000,2^32-1,2^32,2^64-1 minimal and non-minimal; u16/u32/u64 edges; "
    "truncate/append/delete/duplicate/splice; PSBT key-value pairs re-framed after mutating a key or value; checksums of base58check/bech32/descriptor recomputed after mutating the body) "
    "are handed to every parse/decode/from_dict entry point found by introspection (the table is checked for completeness at start). Oracle: the call returns or raises "
    "BTClibValueError/BTClibTypeError/BTClibRuntimeError; when a caller's BytesIO is parsed, the bytes up to the final position parse alone to an equal object and a valid seed leaves the position at its end; "
    "boolean predicates return a bool for every value of their declared types; objects a parser accepted go through every consumer within the same contract."
)
ASSUMPTIONS = [
    "The contract is the one written in tests/fuzz_test.py (parsers: return, or BTClibValueError/BTClibTypeError/BTClibRuntimeError and their subclasses) and CONTRIBUTING.md 'Every public function validates its inputs' / "
    "tests/bool_contract_test.py (is_* and verify* answer a bool for every value of the declared types): only declared types are generated (Octets/String/BinaryData include str, bytearray and memoryview)",
    "Refusals the library documents are inside the contract of these bool-returning functions: the check_* prefix (CONTRIBUTING.md: 'answers a bool and refuses what cannot be an answer': taproot.check_output_pubkey, "
    "engine.script.check_pub_key) and musig2.partial_sig_verify(_) (docstring, after BIP327: a pubnonce or pubkey that is not a point is refused); a foreign exception from them is still a violation",
    "script.parse, taproot.parse, BasicBlockFilter.parse and PsbtView document that they take the whole of the octets (no length of their own), and dsa.Sig.parse(strict=True) that a stream is held to the bytes rule "
    "(no trailing byte, after Core's IsValidSignatureEncoding): the stream-position rule is not asked of them",
    "btclib.fetch (network transports) and btclib.hwi (external signer processes) are outside the table: they parse what a backend they start answers, not caller-supplied encodings",
    "JSON values are those json.loads itself reads under the interpreter's default settings (nesting up to 900); every library call runs under the default recursion budget (1000 frames below the call), so a RecursionError is "
    "judged as a caller with default settings would meet it",
    "An object out of from_dict(check_validity=False) may hold fields of any JSON type: only its validating consumers (assert_valid(), and serialize/to_dict/... with check_validity=True) are asked to stay in the contract on it; objects out of wire/text parsers "
    "and out of from_dict(check_validity=True) go through every consumer",
    "A call that uses more processor time than the watchdog (30 s of the process's own CPU time, so that the verdict does not move with the load of the machine; five times that on the wall clock, for a call that blocks instead of "
    "computing; inputs are at most 2^17 bytes/characters) is inconclusive unless it exceeds 60 s of CPU time in three fresh processes; calls slower than 5 s are tagged",
    "Each worker runs under RLIMIT_AS = 4 GiB so that an allocation sized by a hostile count surfaces as MemoryError instead of taking the machine down",
]
CONTRACT = (BTClibValueError, BTClibTypeError, BTClibRuntimeError)

_LIMITED = [False]


def _limit_memory_once() -> None:
    """an allocation on an attacker's count must fail in the worker, not in the machine (set at the first guarded call, so that merely importing this module changes nothing)"""
    if _LIMITED[0]:
        return
    _LIMITED[0] = True
    try:
        soft, hard = resource.getrlimit(resource.RLIMIT_AS)
        want = int(os.environ.get("C19_AS_GB", "4")) << 30
        if soft == resource.RLIM_INFINITY or soft > want:
            resource.setrlimit(resource.RLIMIT_AS, (want, hard))
    except (ValueError, OSError):  # pragma: no cover
        pass


WATCHDOG = float(os.environ.get("C19_WATCHDOG", "30"))
CONFIRM = bool(os.environ.get("C19_CONFIRM_HANG"))
VERIF = os.path.dirname(os.path.dirname(os.path.abspath(__file__)))


# Working aid (not used by the committed runs): C19_SKIP="sig1,sig2" turns the named root causes into tags so that the search goes on
# past a confirmed finding. With the variable unset every finding is reported.
SKIP = {x for x in os.environ.get("C19_SKIP", "").split(",") if x}


def skipped(sig: str) -> bool:
    return bool(SKIP) and (sig in SKIP or any(sig.startswith(x[:-1]) for x in SKIP if x.endswith("*")))


def skippable(subname: str, fn):
    if not SKIP:
        return fn

    def wrapped(case):
        try:
            return fn(case)
        except Violation as v:
            if v.signature in SKIP or any(v.signature.startswith(x[:-1]) for x in SKIP if x.endswith("*")):
                return Outcome(False, ("skipped:" + v.signature,))
            raise
        except HarnessError:
            raise
        except Exception as e:  # noqa: BLE001
            frame = _through_btclib(e.__traceback__)
            sig = f"{subname}:crash:{type(e).__name__}@{frame}"
            if frame is not None and (sig in SKIP or any(sig.startswith(x[:-1]) for x in SKIP if x.endswith("*"))):
                return Outcome(False, ("skipped:" + sig,))
            raise

    return wrapped


# ------------------------------------------------------------------------------------------------ the guarded call
class _Timeout(BaseException):
    pass


def _on_alarm(signum, frame):
    raise _Timeout()


def site_of(e: BaseException) -> str:
    """innermost btclib source line a refusal was raised from"""
    tb = e.__traceback__
    last = "?"
    while tb is not None:
        fn = tb.tb_frame.f_code.co_filename.replace("\\", "/")
        if "/btclib/" in fn and "/verif/" not in fn:
            last = f"{fn.split('/btclib/', 1)[1]}:{tb.tb_lineno}"
        tb = tb.tb_next
    return last


class Result:
    __slots__ = ("ok", "value", "site", "exc", "elapsed", "timeout")

    def __init__(self):
        self.ok = False
        self.value = None
        self.site = ""
        self.exc = ""
        self.elapsed = 0.0
        self.timeout = False


def guarded(label: str, fn, *args, **kw) -> Result:
    """Call into the library: a return or a contract refusal comes back as a Result; RecursionError is a violation named after the
    entry point; anything else propagates to the runner, which buckets it by (exception type, innermost btclib frame)."""
    _limit_memory_once()
    r = Result()
    limit = 60.0 if CONFIRM else WATCHDOG
    # the interpreter's DEFAULT recursion budget (1000 frames) from here down, whatever the harness raised it to for itself:
    # a RecursionError is judged as a caller with default settings would meet it
    rec_old = sys.getrecursionlimit()
    depth, f = 0, sys._getframe()
    while f is not None:
        depth, f = depth + 1, f.f_back
    sys.setrecursionlimit(depth + 1000)
    old = signal.signal(signal.SIGALRM, _on_alarm)
    old_prof = signal.signal(signal.SIGPROF, _on_alarm)
    signal.setitimer(signal.ITIMER_PROF, limit)  # processor time of this process: the verdict must not depend on what else the machine runs
    signal.setitimer(signal.ITIMER_REAL, 5 * limit)  # and a wall-clock bound for a call that blocks rather than computes
    t0 = time.perf_counter()
    try:
        r.value = fn(*args, **kw)
        r.ok = True
    except CONTRACT as e:
        r.site = site_of(e)
        r.exc = type(e).__name__
    except RecursionError as e:
        signal.setitimer(signal.ITIMER_PROF, 0)
        signal.setitimer(signal.ITIMER_REAL, 0)
        sys.setrecursionlimit(rec_old)
        raise Violation(f"RecursionError@{label}", f"input nested deeper than the interpreter's default stack is answered with RecursionError (deepest library line {site_of(e)}), not a library refusal") from None
    except _Timeout:
        r.timeout = True
    except (Violation, HarnessError):
        raise
    except Exception as e:  # noqa: BLE001
        # outside the contract: one signature per (exception type, innermost library frame), whichever sub-check met it
        signal.setitimer(signal.ITIMER_PROF, 0)
        signal.setitimer(signal.ITIMER_REAL, 0)
        frame = _through_btclib(e.__traceback__)
        if frame is None:
            raise
        tb = "".join(traceback.format_exception(type(e), e, e.__traceback__))[-1800:]
        raise Violation(f"crash:{type(e).__name__}@{frame}", f"{label}: {tb}") from e
    finally:
        signal.setitimer(signal.ITIMER_PROF, 0)
        signal.setitimer(signal.ITIMER_REAL, 0)
        signal.signal(signal.SIGALRM, old)
        signal.signal(signal.SIGPROF, old_prof)
        sys.setrecursionlimit(rec_old)
        r.elapsed = time.perf_counter() - t0
    return r


_HANGS: set = set()


def confirm_hang(subname: str, label: str, case) -> None:
    """A watchdog expiry is inconclusive; it becomes a violation only when the same case exceeds 60 s of CPU time in three fresh processes.
    Once an entry point is confirmed to hang, later expiries on it (the shrinker's attempts) are reported at once."""
    if CONFIRM or label in _HANGS:
        raise Violation(f"hang>60s@{label}", "exceeded 60 s in a fresh process")
    with tempfile.NamedTemporaryFile("w", suffix=".json", delete=False) as f:
        json.dump({"property": PROPERTY, "subcheck": subname, "case": case}, f)
        path = f.name
    try:
        for _ in range(3):
            env = dict(os.environ, C19_CONFIRM_HANG="1")
            try:
                p = subprocess.run([sys.executable, os.path.join(VERIF, "run_check.py"), PROPERTY, "--replay", path], capture_output=True, text=True, env=env, cwd=VERIF, timeout=1200)
            except subprocess.TimeoutExpired:
                return  # the machine is too loaded to tell: inconclusive, never a violation
            if p.returncode != 1 or f"hang>60s@{label}" not in p.stdout:
                return
    finally:
        os.unlink(path)
    _HANGS.add(label)
    raise Violation(f"hang>60s@{label}", "exceeded 60 s in three fresh processes")


def speed_tag(r: Result) -> tuple:
    return ("slow>5s",) if r.elapsed > 5 else ()


# ------------------------------------------------------------------------------------------------ baselines (non-trivial rule)
_BASELINE: dict[str, frozenset] = {}


def _uniform(k: int, n: int) -> bytes:
    return S.expand(0xC19 + k, n)


def baseline_sites(key: str, call) -> frozenset:
    """refusal sites of the empty input and of 24 uniformly random inputs: what a structure-blind fuzzer reaches"""
    if key not in _BASELINE:
        sites = set()
        for k in range(25):
            data = b"" if k == 0 else _uniform(k, (1, 4, 9, 33, 64, 80, 100, 300)[k % 8])
            try:
                call(data)
            except CONTRACT as e:
                sites.add(site_of(e))
            except Exception:  # noqa: BLE001  (a crash on blind input is found by the search itself, not by the baseline)
                pass
        _BASELINE[key] = frozenset(sites)
    return _BASELINE[key]


# ------------------------------------------------------------------------------------------------ 1. binary parsers
BIN_KINDS = sorted(k for k in S.BIN if T.bin_eps_for(k))
HEAVY = {"p2p:BlockPayload"}  # real blocks (up to 1 MB): bounded separately
BIN_KIND_POOL = [k for k in BIN_KINDS if k not in HEAVY and k.startswith("p2p:")] + 3 * [k for k in BIN_KINDS if not k.startswith("p2p:")] + 4 * ["psbt", "psbt_in", "psbt_out", "tx", "block"]


def _round():
    """one attempt on the seed: [entry point, flags, tail, kv, *mutations], all small ints (cheap to draw, JSON, shrinkable).
    flags packs check_validity (bit 0), the argument form (3 bits), the extra-argument variant (7 bits);
    kv is 0 (none) or a packed PSBT key-value edit: op (3 bits), map (6), pair (6), type (8)."""
    return st.tuples(st.integers(0, 999), st.integers(0, 2047), st.integers(0, 0xFFFFFF), st.one_of(st.just(0), st.just(0), st.integers(1, 2**23 - 1)),
                     st.lists(H.byte_mut(), min_size=0, max_size=6)).map(lambda t: [t[0], t[1], t[2], t[3], *t[4]])


FORMS = ("bytes", "bytes", "stream", "stream", "stream", "hex", "bytearray", "memoryview")
KV_OPS = ("value", "value", "value", "key", "type", "dup", "del", "add")


def unpack_round(r: list) -> dict:
    flags, tail, kv = r[1], r[2], r[3]
    out = {"ep": r[0], "cv": bool(flags & 1), "form": FORMS[(flags >> 1) & 7], "variant": flags >> 4, "tail": tail.to_bytes(3, "big")[: tail % 5 if tail else 3], "muts": r[4:], "kv": None}
    count = H.COUNTS[(tail >> 12) % len(H.COUNTS)]
    if kv:
        # a kv edit spends the first (up to two) mutations of the round inside the key or value
        out["kv"] = {"op": KV_OPS[kv & 7], "map": (kv >> 3) & 63, "pair": (kv >> 9) & 63, "t": (kv >> 15) & 0xFF, "muts": (r[4:6] or [0])[:count]}
        out["muts"] = r[6 : 6 + max(count - 2, 0)]
    else:
        out["muts"] = r[4 : 4 + count]
    return out


@st.composite
def bytes_case(draw, kinds=None):
    kind = draw(st.sampled_from(kinds or BIN_KIND_POOL))
    return {"kind": kind, "seed": draw(S.BIN[kind][0]()), "other": draw(st.integers(0, len(S.SPLICE_POOL))), "cross": draw(st.integers(0, 14)) == 0,
            "rounds": draw(st.lists(_round(), min_size=1, max_size=12))}


KNOWN_PSBT_TYPES = (0x00, 0x01, 0x02, 0x03, 0x04, 0x05, 0x06, 0x07, 0x08, 0x09, 0x0A, 0x0B, 0x0C, 0x0D, 0x0E, 0x0F, 0x10, 0x11, 0x12, 0x13, 0x14, 0x15, 0x16, 0x17, 0x18, 0x19, 0x1A, 0x1B, 0x1C, 0x1D, 0x1E, 0x1F, 0xFB, 0xFC)


def _apply_kv(seed: bytes, kind: str, kv: dict, other: bytes) -> bytes:
    """mutate inside one key or value of a PSBT map and re-frame it with correct lengths (reaches the field parsers)"""
    whole = kind == "psbt"
    try:
        maps = psbt_ref.split(seed if whole else psbt_ref.MAGIC + seed)
    except (tx_ref.ParseError, IndexError):
        return seed
    if not maps:
        return seed
    m = [list(x) for x in maps]
    mi = kv["map"] % len(m)
    cur = m[mi]
    op = kv["op"]
    if op == "add" or not cur:
        t = KNOWN_PSBT_TYPES[kv["t"] % len(KNOWN_PSBT_TYPES)]
        cur.append((bytes([t]), H.apply_bytes(other[:40], kv["muts"], other)))
    else:
        j = kv["pair"] % len(cur)
        k, v = cur[j]
        if op == "value":
            cur[j] = (k, H.apply_bytes(v, kv["muts"], other))
        elif op == "key":
            cur[j] = (k[:1] + H.apply_bytes(k[1:], kv["muts"], other), v)
        elif op == "type":
            cur[j] = (bytes([KNOWN_PSBT_TYPES[kv["t"] % len(KNOWN_PSBT_TYPES)]]) + k[1:], v)
        elif op == "dup":
            cur.append((k, v))
        elif op == "del":
            del cur[j]
    out = psbt_ref.join(m)
    return out if whole else out[5:]


def _form(data: bytes, form: str, param: str, tail: bytes):
    if param == "bytes" or form == "bytes":
        return data
    if form == "stream":
        return BytesIO(data + tail) if param == "BinaryData" else data
    if form == "hex":
        return data.hex()
    if form == "bytearray":
        return bytearray(data)
    return memoryview(data)


def _variant(ep, rnd, case):
    v = ep.variants[rnd["variant"] % len(ep.variants)]
    if v == "seed":
        if ep.key.startswith("psbt.psbt_"):
            return S.psbt_version_of(case["seed"]) if case["kind"] in ("psbt_in", "psbt_out", "psbt_map") else 0
        if "Borromean" in ep.key:
            return tuple(case["seed"][0]) if case["kind"] == "borromean" else (1,)
        if "from_script" in ep.key:
            return (S.CORPUS["miniscripts"][case["seed"]][1], S.ms_key_hashes(case["seed"])) if case["kind"] == "ms_script" else ("P2WSH", None)
    return v


def _same(a, b) -> bool:
    try:
        if a == b:
            return True
    except CONTRACT:
        pass
    for attr in ("serialize",):
        if hasattr(a, attr) and hasattr(b, attr):
            try:
                return a.serialize(check_validity=False) == b.serialize(check_validity=False)
            except TypeError:
                return a.serialize() == b.serialize()
    return False


def check_bytes(case, subname="parsers_bytes"):
    kind = case["kind"]
    seed = S.BIN[kind][1](case["seed"])
    other = S.SPLICE_POOL[case["other"]] if case["other"] < len(S.SPLICE_POOL) else seed
    natural = T.bin_eps_for(kind)
    pool = T.BIN_EPS if case["cross"] else natural
    tags = [kind.split(":")[0]]
    nontrivial = False
    for packed in case["rounds"]:
        rnd = unpack_round(packed)
        ep = pool[rnd["ep"] % len(pool)]
        data = seed
        if rnd["kv"] is not None and kind in ("psbt", "psbt_in", "psbt_out", "psbt_map"):
            data = _apply_kv(data, kind, rnd["kv"], other)
        data = H.apply_bytes(data, rnd["muts"], other)
        pristine = data == seed and kind == ep.kinds[0]
        x = _variant(ep, rnd, case)
        cv = rnd["cv"] if ep.has_cv else True
        tail = rnd["tail"]
        arg = _form(data, rnd["form"], ep.param, tail)
        label = ep.key
        r = guarded(label, ep.call, arg, cv, x)
        if r.timeout:
            confirm_hang(subname, label, case)
            tags.append("inconclusive-timeout")
            continue
        tags.extend(speed_tag(r))
        if not isinstance(arg, (bytes, BytesIO)):
            # the same octets in another declared spelling (hex str, bytearray, memoryview): the same answer
            rb = guarded(label, ep.call, data, cv, x)
            if not rb.timeout and (rb.ok != r.ok or (r.ok and not _same(r.value, rb.value))):
                raise Violation(f"spelling-changes-the-answer:{type(arg).__name__}@{label}", f"as bytes: {'returned' if rb.ok else rb.exc + ' at ' + rb.site}; as {type(arg).__name__}: "
                                f"{'returned' if r.ok else r.exc + ' at ' + r.site}; data={data.hex()[:400]}")
            tags.append("spelling-checked")
        if r.ok:
            nontrivial = True
            tags.append("accepted")
            if isinstance(arg, BytesIO) and not ep.reads_all:
                p = arg.tell()
                full = data + tail
                if p > len(full):
                    raise Violation(f"stream-position-beyond-end@{label}", f"position {p} of {len(full)}")
                r2 = guarded(label, ep.call, full[:p], cv, x)
                if r2.timeout:
                    continue
                if not r2.ok:
                    raise Violation(f"stream-consumed-is-not-an-encoding@{label}", f"parse(BytesIO) returned at position {p} of {len(full)}, but the {p} bytes consumed are refused on their own ({r2.exc} at {r2.site}): "
                                    f"the parser read less or more than its own encoding. data={full.hex()[:600]}")
                if not _same(r.value, r2.value):
                    raise Violation(f"stream-consumed-parses-differently@{label}", f"position {p} of {len(full)}: data={full.hex()[:600]}")
                if pristine and p != len(seed) and rnd["variant"] % len(ep.variants) == 0:
                    raise Violation(f"stream-position-after-valid-seed@{label}", f"position {p}, encoding is {len(seed)} bytes, {len(tail)} bytes follow")
                tags.append("stream-checked")
        else:
            if isinstance(arg, BytesIO) and pristine and not ep.reads_all:
                # a caller's stream holding a valid encoding followed by other bytes: what the bytes alone are answered, the stream is
                rb = guarded(label, ep.call, data, cv, x)
                if rb.ok:
                    raise Violation(f"stream-with-trailing-bytes-refused@{label}", f"the encoding alone is accepted, BytesIO(encoding + {len(tail)} more bytes) is refused: {r.exc} at {r.site}")
            base = baseline_sites(f"{label}|{x!r}|{cv}", lambda d: ep.call(d, cv, x))
            if r.site not in base:
                nontrivial = True
                tags.append("refused-deep")
            else:
                tags.append("refused-first-field")
    return Outcome(nontrivial, tuple(tags))


# ------------------------------------------------------------------------------------------------ 1b. exhaustive single edits of short encodings
SINGLE_BYTES = (0x00, 0x01, 0x4C, 0x4E, 0x7F, 0x80, 0xFC, 0xFD, 0xFE, 0xFF)
SINGLE_CS = (0xFD, 0xFFFF, 0x10000, 2**32 - 1, 2**32, 2**64 - 1)


def single_units(tier: str) -> list:
    return [e.key for e in T.BIN_EPS if e.kinds[0] not in HEAVY]


def run_single_unit(key, col) -> None:
    """One entry point, two short valid encodings (the shortest of eight seeded draws, at most 160 bytes), and EVERY single edit of them:
    truncation at every offset; every byte set to each of ten boundary values; a CompactSize of each of six boundary values (minimal
    spelling, and the 9-byte non-minimal spelling of the byte that was there) written over every offset. check_validity on and off."""
    from hypothesis import HealthCheck, Phase, given, seed, settings

    ep = T.BIN_BY_KEY[key]
    kind = ep.kinds[0]
    drawn = []
    settings(max_examples=8, database=None, deadline=None, suppress_health_check=list(HealthCheck), phases=[Phase.generate])(seed(7)(given(S.BIN[kind][0]())(lambda c: drawn.append(c))))()
    seeds = sorted({S.BIN[kind][1](c): c for c in drawn}.items(), key=lambda kv: (len(kv[0]) == 0, len(kv[0])))
    seeds = [(b, c) for b, c in seeds if len(b) <= 160][:2] or [(seeds[0][0][:160], seeds[0][1])]
    if kind == "ms_script":
        # a script grammar has one decoder arm per leading op code: one short corpus script for each distinct first two bytes, not just the two shortest
        # (a seeded change hid in the arm that reads a hash fragment, reachable only from a script that starts with one)
        by_head = {}
        for i in range(len(S.CORPUS["miniscripts"])):
            raw = S.BIN[kind][1](i)
            if len(raw) <= 120:
                by_head.setdefault(raw[:2], (raw, i))
        seeds = list({b: (b, c) for b, c in [*seeds, *sorted(by_head.values(), key=lambda bc: len(bc[0]))[:24]]}.values())
    calls, distinct, tags = 0, set(), {}
    for raw, c in seeds:
        x = ep.variants[0]
        if x == "seed":
            x = _variant(ep, {"variant": 0}, {"kind": kind, "seed": c})
        edits = [raw[:i] for i in range(len(raw))]
        edits += [raw[i:] for i in range(1, len(raw))]  # cut from the front
        edits += [raw[:i] + raw[i + 1:] for i in range(1, len(raw))]  # one byte deleted
        for i in range(len(raw)):
            edits += [raw[:i] + bytes([b]) + raw[i + 1:] for b in SINGLE_BYTES if b != raw[i]]
            edits += [raw[:i] + H.compact_size(v) + raw[i + 1:] for v in SINGLE_CS]
            edits.append(raw[:i] + H.compact_size(raw[i], 9) + raw[i + 1:])
        for data in edits:
            for cv in ((True, False) if ep.has_cv else (True,)):
                try:
                    res = guarded(key, ep.call, data, cv, x)
                except Violation as v:
                    if not skipped(v.signature):
                        raise
                    tags["skipped:" + v.signature] = 1
                    continue
                calls += 1
                if res.timeout:
                    confirm_hang("single_edits", key, {"unit": key})
                    continue
                if res.ok or res.site not in baseline_sites(f"{key}|{x!r}|{cv}", lambda d: ep.call(d, cv, x)):
                    distinct.add((data, cv))
                tags["accepted" if res.ok else "refused"] = tags.get("accepted" if res.ok else "refused", 0) + 1
    col.bulk(calls, len(distinct), sample={"entry_point": key, "seed_hex": seeds[0][0].hex()[:120], "edits": calls}, tags=tags)


# ------------------------------------------------------------------------------------------------ 2. text parsers
import base64  # noqa: E402

# which text entry points read which seed kind (bombs ride with the grammar they nest)
TEXT_KIND_EXTRA = {"descriptor": ("bomb_desc",), "miniscript": ("bomb_ms",), "der_path": ("bomb_path",), "origin": ("bomb_path",), "uri": ("bomb_uri",), "bip39": ("bomb_words",), "electrum": ("bomb_words",),
                   "slip39": ("bomb_words",), "index_str": ("bomb_path",)}


def text_eps_for(kind: str) -> list:
    out = []
    for e in T.TEXT_EPS:
        kinds = set(e.kinds)
        for k in e.kinds:
            kinds.update(TEXT_KIND_EXTRA.get(k, ()))
        if kind in kinds:
            out.append(e)
    return out


TEXT_KINDS = sorted(k for k in S.TXT if text_eps_for(k))
# octets entry points take a hex str too: these are driven with text-mutated hex of their valid encodings
HEXABLE = [e for e in T.BIN_EPS if e.param != "bytes"]
SPLICE_TEXT = [S.CORPUS["descriptors"][5], S.CORPUS["descriptors"][-1], S.CORPUS["miniscripts"][20][0], S.CORPUS["addresses"][0], S.CORPUS["addresses"][-1], S.CORPUS["xkeys"][0], S.CORPUS["wifs"][0],
               S.CORPUS["bip39"][0][1], S.CORPUS["bip39"][20][1], S.CORPUS["electrum"][0], S.CORPUS["slip39"][0][0], S.URIS[3], "m/44h/0h/0h/0/5", "deadbeef/0h/1", S.CORPUS["psbt_b64"][3], S.CORPUS["tx_hex"][3],
               "0123456789abcdef" * 4, "()[]{}<>,;/'h*#@:"]
STR_FORMS = ("str", "str", "str", "bytes", "bytearray", "str", "str", "memoryview")


def _text_round():
    """[entry point, flags, frame, n_inner, *mutations]: flags = check_validity (1 bit), argument form (3), variant (7);
    the first n_inner mutations act on the bytes inside a checksummed/armoured frame, the rest on the text"""
    return st.tuples(st.integers(0, 999), st.integers(0, 2047), st.integers(0, 7), st.integers(0, 2), st.lists(H.text_mut(), min_size=0, max_size=6)).map(lambda t: [t[0], t[1], t[2], t[3], *t[4]])


@st.composite
def text_case(draw):
    mode = draw(st.integers(0, 19))
    if mode == 0:
        return {"raw": draw(H.raw_text()), "rounds": draw(st.lists(_text_round(), min_size=1, max_size=6))}
    if mode <= 3:
        kind = draw(st.sampled_from(sorted(k for k in S.BIN if any(k in e.kinds for e in HEXABLE) and k not in HEAVY)))
        return {"hexkind": kind, "seed": draw(S.BIN[kind][0]()), "other": draw(st.integers(0, len(SPLICE_TEXT) - 1)), "rounds": draw(st.lists(_text_round(), min_size=1, max_size=8))}
    kind = draw(st.sampled_from(TEXT_KINDS))
    return {"kind": kind, "seed": draw(S.TXT[kind][0]()), "other": draw(st.integers(0, len(SPLICE_TEXT) - 1)), "cross": draw(st.integers(0, 14)) == 0,
            "rounds": draw(st.lists(_text_round(), min_size=1, max_size=8))}


def text_count(flags: int) -> int:
    return H.COUNTS[((flags >> 4) * 7 + (flags & 15)) % len(H.COUNTS)]


def _reframe(ep, text: str, frame_sel: int, inner: list, seedcase) -> str | None:
    """mutate what a checksum / an armour protects and put the frame back"""
    if not ep.frames:
        return None
    frame = ep.frames[frame_sel % len(ep.frames)]
    if frame == "b58check":
        return S.reframe_b58check(text, inner, S.SPLICE_POOL[0])
    if frame == "bech32":
        return S.reframe_bech32(text, inner, frame_sel >= 4)
    if frame == "desc":
        return None  # handled after the text mutations (the checksum is of the mutated body)
    if frame == "bip39":
        return S.reframe_bip39(seedcase, inner) if isinstance(seedcase, int) else None
    how, binkind = frame.split(":")
    try:
        if how == "b64":
            prefix = text[:3] if binkind == "bip322" else ""
            raw = base64.b64decode(text[len(prefix):], validate=True)
            return prefix + base64.b64encode(H.apply_bytes(raw, inner, S.SPLICE_POOL[1])).decode()
        raw = bytes.fromhex(text)
        return H.apply_bytes(raw, inner, S.SPLICE_POOL[1]).hex()
    except ValueError:
        return None


def _as_form(text: str, form: str, str_only: bool):
    if form == "str" or str_only:
        return text
    raw = text.encode("utf-8", "surrogatepass")
    return raw if form == "bytes" else bytearray(raw) if form == "bytearray" else memoryview(raw)


def check_text(case, subname="parsers_text"):
    tags = []
    nontrivial = False
    if "raw" in case:
        seed, pool, natural, other, kind = case["raw"], T.TEXT_EPS + HEXABLE, [], "", "raw"
    elif "hexkind" in case:
        kind = case["hexkind"]
        seed = S.BIN[kind][1](case["seed"]).hex()
        natural = [e for e in HEXABLE if kind in e.kinds]
        pool, other = natural, SPLICE_TEXT[case["other"]]
        kind = "hex:" + kind.split(":")[0]
    else:
        kind = case["kind"]
        seed = S.TXT[kind][1](case["seed"])
        natural = text_eps_for(kind)
        pool = T.TEXT_EPS if case["cross"] else natural
        other = SPLICE_TEXT[case["other"]]
    tags.append(kind)
    for r in case["rounds"]:
        ep = pool[r[0] % len(pool)]
        flags, frame_sel, n_inner, muts = r[1], r[2], r[3], r[4:]
        cv, form, variant = bool(flags & 1), STR_FORMS[(flags >> 1) & 7], flags >> 4
        muts = muts[: text_count(flags)]
        text = seed
        is_bin = isinstance(ep, T.BinEP)
        if not is_bin and n_inner and muts:
            framed = _reframe(ep, text, frame_sel, muts[:n_inner], case.get("seed") if kind in ("bip39", "bip39_short") else None)
            if framed is not None:
                # what the frame protects was mutated: the text around it mostly stays as it is, so that the decoder gets inside
                text, muts = framed, muts[n_inner:] if frame_sel % 3 == 0 else []
                tags.append("reframed")
        text = H.apply_text(text, muts, other)
        if not is_bin and "desc" in ep.frames and frame_sel % 2 == 0 and "#" not in text:
            chk = S.desc_checksum(text)
            if chk:
                text = text + "#" + chk
                tags.append("desc-checksummed")
        x = ep.variants[variant % len(ep.variants)]
        if x == "seed":
            x = 0 if "psbt" in ep.key else ("P2WSH", None) if "from_script" in ep.key else (1,)
        if kind == "slip39_group" and not is_bin and "mnemonics" in ep.key:
            arg = text.split("\n")
        elif is_bin:
            arg = text
        else:
            arg = _as_form(text, form, ep.str_only)
        label = ep.key
        r_ = guarded(label, ep.call, arg, cv if ep.has_cv else True, x)
        if r_.timeout:
            confirm_hang(subname, label, case)
            tags.append("inconclusive-timeout")
            continue
        tags.extend(speed_tag(r_))
        if len(text) >= 3000:
            tags.append("long>=3000")
        if r_.ok:
            nontrivial = True
            tags.append("accepted")
        else:
            base = baseline_sites(f"T|{label}|{x!r}", lambda d, ep=ep, x=x: ep.call(d.hex() if len(d) % 3 else d.decode("latin-1"), True, x))
            if r_.site not in base:
                nontrivial = True
                tags.append("refused-deep")
            else:
                tags.append("refused-first-field")
    return Outcome(nontrivial, tuple(tags))


SINGLE_CHARS = ("\x00", " ", "\n", "\x80", "\xdf", "\u0130", "\u0660", "\uff11", "\u3000", "\ud800", "\U0001f600", "(", ")", "[", "]", "{", "}", "<", ",", ";", "/", "'", "h", "*", "#", ":", "=", "%", "0", "9", "a", "g", "A", "l", "1", "-")


def single_text_units(tier: str) -> list:
    return [e.key for e in T.TEXT_EPS]


def run_single_text_unit(key, col) -> None:
    """One text entry point, two short valid strings of its first seed kind (the shortest of eight seeded draws, at most 150 characters), and EVERY single
    edit: truncation and deletion at every offset, every character replaced by each of 36 (separators of every grammar, NUL, non-ASCII digits and
    spaces, a length-changing case mapping, a lone surrogate, an astral character)."""
    from hypothesis import HealthCheck, Phase, given, seed, settings

    ep = T.TEXT_BY_KEY[key]
    kind = ep.kinds[0]
    drawn = []
    settings(max_examples=8, database=None, deadline=None, suppress_health_check=list(HealthCheck), phases=[Phase.generate])(seed(7)(given(S.TXT[kind][0]())(lambda c: drawn.append(c))))()
    texts = sorted({S.TXT[kind][1](c) for c in drawn}, key=lambda t: (len(t) == 0, len(t)))
    texts = [t for t in texts if len(t) <= 150][:2] or [texts[0][:150]]
    calls, distinct, tags = 0, set(), {}
    x = ep.variants[0]
    if x == "seed":
        x = 0
    for raw in texts:
        edits = [raw[:i] for i in range(len(raw))] + [raw[:i] + raw[i + 1:] for i in range(len(raw))]
        for i in range(len(raw)):
            edits += [raw[:i] + ch + raw[i + 1:] for ch in SINGLE_CHARS if ch != raw[i]]
        for text in edits:
            arg = text.split("\n") if kind == "slip39_group" and "mnemonics" in key else text
            try:
                res = guarded(key, ep.call, arg, True, x)
            except Violation as v:
                if not skipped(v.signature):
                    raise
                tags["skipped:" + v.signature] = 1
                continue
            calls += 1
            if res.timeout:
                confirm_hang("single_text_edits", key, {"unit": key})
                continue
            if res.ok or res.site not in baseline_sites(f"T|{key}|{x!r}", lambda d: ep.call(d.hex() if len(d) % 3 else d.decode("latin-1"), True, x)):
                distinct.add(text)
            tags["accepted" if res.ok else "refused"] = tags.get("accepted" if res.ok else "refused", 0) + 1
    col.bulk(calls, len(distinct), sample={"entry_point": key, "seed_text": texts[0][:120], "edits": calls}, tags=tags)


BOMB_SHAPES = {"bomb_desc": S.BOMBS_DESC, "bomb_ms": S.BOMBS_MS, "bomb_path": S.BOMBS_PATH, "bomb_uri": S.BOMBS_URI, "bomb_words": S.BOMBS_WORDS}


def bomb_units(tier: str) -> list:
    return [[kind, shape, tier] for kind, shapes in BOMB_SHAPES.items() for shape in range(len(shapes))]


def run_bomb_unit(unit, col) -> None:
    """one nesting/repetition shape of one grammar, at every size (10 .. 10^4, capped at 2^17 characters), unmutated, through every entry point that reads the grammar"""
    kind, shape = unit[:2]
    tier = unit[2] if len(unit) > 2 else "quick"  # the tier travels with the unit: the workers exist before the units are listed
    n_calls = n_deep = 0
    tags: dict = {}
    for n in (1000, 10000) if tier == "quick" else S.BOMB_N:
        text = S.TXT[kind][1]([shape, n])
        for ep in text_eps_for(kind):
            for x in ep.variants[: 1 if tier == "quick" else 2]:
                arg = text.split("\n") if "mnemonics" in ep.key else text
                try:
                    res = guarded(ep.key, ep.call, arg, True, x)
                except Violation as v:
                    if not skipped(v.signature):
                        raise
                    tags["skipped:" + v.signature] = 1
                    continue
                n_calls += 1
                if res.timeout:
                    confirm_hang("nesting_bombs", ep.key, {"unit": unit})
                    tags["inconclusive-timeout"] = tags.get("inconclusive-timeout", 0) + 1
                    continue
                if res.elapsed > 5:
                    tags[f"slow>5s: {ep.key} on {kind}[{shape}] n={n} ({len(text)} chars): {res.elapsed:.0f}s"] = 1
                n_deep += 1 if res.ok or n >= 400 else 0
                tags["accepted" if res.ok else "refused"] = tags.get("accepted" if res.ok else "refused", 0) + 1
    col.bulk(n_calls, n_deep, sample={"grammar": kind, "shape": shape, "example": S.TXT[kind][1]([shape, 10])[:200]}, tags=tags)


# ------------------------------------------------------------------------------------------------ 3. JSON (from_dict and the decode_* helpers)
from vlib import build as B  # noqa: E402
from vlib.gens import common as g  # noqa: E402
from vlib.gens import p2p as gp2p  # noqa: E402
from vlib.gens import psbts as gpsbt  # noqa: E402

NETWORK_NAMES = ("mainnet", "testnet", "regtest", "signet", "testnet4")


def _jrt(d):
    return json.loads(json.dumps(d))


def _psbt_obj(c):
    from btclib.psbt import Psbt

    if "corpus" in c:
        return Psbt.b64decode(S.CORPUS["psbt_b64"][c["corpus"]])
    return gpsbt.build_psbt(c["gen"])


def _psbt_part(c, which: str, field=None):
    """the to_dict() of one input/output of a psbt seed (the richest one), or one field of it"""
    p = _psbt_obj(c["psbt"])
    parts = p.inputs if which == "in" else p.outputs
    if not parts:
        return {} if field is None else None
    dicts = [x.to_dict(check_validity=False) for x in parts]
    if field is None:
        return dicts[c["map"] % len(dicts)]
    best = max(dicts, key=lambda d: len(json.dumps(d.get(field))))
    return best.get(field)


def _block_tree(c):
    from btclib.block import Block

    return Block.parse(S.BIN["block"][1](c), check_validity=False).to_dict(check_validity=False)


def _header_tree(c):
    """a generated header's to_dict(); where that refuses (bits that encode no target have no difficulty to print) the same header with block 1's bits"""
    try:
        return gp2p.build_header(c).to_dict()
    except CONTRACT:
        return gp2p.build_header(dict(c, bits="1d00ffff")).to_dict()


def _network_tree(i):
    from btclib.network import network_from_name

    try:
        return network_from_name(NETWORK_NAMES[i]).to_dict()
    except CONTRACT:
        return network_from_name("mainnet").to_dict()


_PM = S.BIN["psbt_in"][0]  # {"psbt": ..., "map": n}
JSON_SEEDS: dict = {
    "btclib.tx.tx.Tx.from_dict": (lambda: g.valid_tx_case(max_in=3, max_out=3), lambda c: B.tx(c).to_dict()),
    "btclib.tx.tx_in.TxIn.from_dict": (lambda: g.valid_tx_case(max_in=1, max_out=1), lambda c: B.tx(c).vin[0].to_dict()),
    "btclib.tx.tx_out.TxOut.from_dict": (lambda: g.valid_tx_case(max_in=1, max_out=1), lambda c: B.tx(c).vout[0].to_dict()),
    "btclib.tx.out_point.OutPoint.from_dict": (lambda: g.valid_tx_case(max_in=1, max_out=1), lambda c: B.tx(c).vin[0].prev_out.to_dict()),
    "btclib.script.witness.Witness.from_dict": (lambda: g.valid_tx_case(max_in=1, max_out=1), lambda c: B.tx(c).vin[0].script_witness.to_dict()),
    "btclib.block.block_header.BlockHeader.from_dict": (gp2p.header_case, lambda c: _header_tree(c)),
    "btclib.block.block.Block.from_dict": (S.BIN["block"][0], _block_tree),
    "btclib.psbt.psbt.Psbt.from_dict": (S.BIN["psbt"][0], lambda c: _psbt_obj(c).to_dict()),
    "btclib.psbt.psbt_in.PsbtIn.from_dict": (_PM, lambda c: _psbt_part(c, "in")),
    "btclib.psbt.psbt_out.PsbtOut.from_dict": (_PM, lambda c: _psbt_part(c, "out")),
    "btclib.bip32.key_origin.BIP32KeyOrigin.from_dict": (S.BIN["key_origin"][0], lambda c: {"master_fingerprint": c["fp"], "path": "m" + "".join(f"/{i & 0x7FFFFFFF}{'h' if i >> 31 else ''}" for i in c["path"])}),
    "btclib.network.Network.from_dict": (lambda: st.integers(0, len(NETWORK_NAMES) - 1), _network_tree),
    "btclib.bip32.key_origin.decode_from_bip32_derivs": (_PM, lambda c: _psbt_part(c, "in", "bip32_derivs") or [{"pub_key": "02" + "11" * 32, "master_fingerprint": "deadbeef", "path": "m/0h/1"}]),
    "btclib.bip32.key_origin.decode_hd_key_paths": (_PM, lambda c: {d["pub_key"]: {"master_fingerprint": d["master_fingerprint"], "path": d["path"]} for d in (_psbt_part(c, "in", "bip32_derivs") or [])}),
    "btclib.psbt.psbt_utils.taproot_bip32_from_dict": (_PM, lambda c: _psbt_part(c, "in", "taproot_hd_key_paths") or [{"pub_key": "11" * 32, "leaf_hashes": ["22" * 32], "master_fingerprint": "deadbeef", "path": "m/86h/0"}]),
    "btclib.psbt.psbt_utils.decode_dict_bytes_bytes": (_PM, lambda c: _psbt_part(c, "in", "hash256_preimages") or {"aa": "bb", "": "00"}),
    "btclib.psbt.psbt_utils.decode_leaf_scripts": (_PM, lambda c: _psbt_part(c, "in", "taproot_leaf_scripts") or {"c0" + "11" * 32: ["51", 192]}),
    "btclib.psbt.psbt_utils.decode_taproot_tree": (_PM, lambda c: _psbt_part(c, "out", "taproot_tree") or [[0, 192, "51"]]),
    "btclib.psbt.psbt_utils.decode_taproot_bip32": (_PM, lambda c: {d["pub_key"]: [d["leaf_hashes"], {"master_fingerprint": d["master_fingerprint"], "path": d["path"]}] for d in (_psbt_part(c, "in", "taproot_hd_key_paths") or [])}),
    "btclib.psbt.psbt_utils.decode_musig2_participant_pub_keys": (_PM, lambda c: _psbt_part(c, "in", "musig2_participant_pub_keys") or {"02" + "11" * 32: ["03" + "22" * 32]}),
    "btclib.script.script.script_from_dict": (S.BIN["script"][0], lambda c: (lambda raw: {"hex": raw.hex(), "asm": ""})(S.BIN["script"][1](c))),
}
JSON_NAMES = sorted(JSON_SEEDS)
JSON_POOL = JSON_NAMES + 3 * [n for n in JSON_NAMES if "Psbt" in n or ".Tx." in n or "Block." in n]


def _objectify(name: str, tree):
    """the two helpers whose declared values are BIP32KeyOrigin objects get them built (unchecked) where the JSON still allows it"""
    from btclib.bip32 import BIP32KeyOrigin

    def origin(v):
        try:
            return BIP32KeyOrigin.from_dict(v, check_validity=False)
        except CONTRACT:
            return v
        except Exception:  # noqa: BLE001  (the from_dict sub-check owns that finding)
            return v

    if name.endswith("decode_hd_key_paths") and isinstance(tree, dict):
        return {k: origin(v) for k, v in tree.items()}
    if name.endswith("decode_taproot_bip32") and isinstance(tree, dict):
        return {k: ((v[0], origin(v[1])) if isinstance(v, list) and len(v) == 2 else v) for k, v in tree.items()}
    return tree


@st.composite
def json_case(draw):
    name = draw(st.sampled_from(JSON_POOL))
    return {"ep": name, "seed": draw(JSON_SEEDS[name][0]()), "rounds": draw(st.lists(st.tuples(st.booleans(), H.json_muts(1, 4)).map(lambda t: [int(t[0]), *t[1]]), min_size=1, max_size=10))}


JSON_BLIND = (None, 0, "", "x", [], {}, {"a": 1}, [1], 1.5, True)


def check_json(case, subname="from_dict"):
    name = case["ep"]
    fn = T.JSON_EPS[name]
    short = name.replace("btclib.", "")
    try:
        tree = _jrt(JSON_SEEDS[name][1](case["seed"]))
    except CONTRACT:
        # a valid object whose to_dict() refuses (e.g. a header whose bits encode no target has no difficulty to print): not this check's question
        return Outcome(False, ("seed-to_dict-refused",))
    tags = [short.split(".")[-2] if "from_dict" in short else short.split(".")[-1]]
    nontrivial = False
    # the unmutated tree is the library's own to_dict(): it must be read back (C05 decides equality; here only the contract)
    for r in case["rounds"]:
        cv, muts = bool(r[0]), r[1:]
        mutated = H.apply_json(tree, muts)
        arg = _objectify(name, mutated)
        res = guarded(short, fn, arg, check_validity=cv)
        if res.timeout:
            confirm_hang(subname, short, case)
            tags.append("inconclusive-timeout")
            continue
        tags.extend(speed_tag(res))
        if res.ok:
            nontrivial = True
            tags.append("accepted")
        else:
            key = f"J|{short}"
            if key not in _BASELINE:
                sites = set()
                for blind in JSON_BLIND:
                    try:
                        fn(blind, check_validity=True)
                    except CONTRACT as e:
                        sites.add(site_of(e))
                    except Exception:  # noqa: BLE001
                        pass
                _BASELINE[key] = frozenset(sites)
            if res.site not in _BASELINE[key]:
                nontrivial = True
                tags.append("refused-deep")
            else:
                tags.append("refused-first-field")
    return Outcome(nontrivial, tuple(tags))


# ------------------------------------------------------------------------------------------------ 4. predicates
from checks import c19_predicates as CP  # noqa: E402


def check_predicate(case, subname="predicates"):
    from btclib.curves.curve import is_libsecp256k1_serving, set_libsecp256k1_serving

    fx = CP.fixtures()
    name = case["pred"]
    get_fn, get_args, cats = CP._table()[name]
    fn, args = get_fn(fx), list(get_args(fx))
    try:
        for pos, spec in case["subs"]:
            args[pos] = CP.build_value(spec, args[pos])
    except CONTRACT:
        # an object built with check_validity=False that its class refuses all the same: there is no value to hand to the predicate
        return Outcome(False, (name, "value-not-constructible"))
    before = is_libsecp256k1_serving()
    set_libsecp256k1_serving(serving=bool(case["backend"]))
    try:
        res = guarded(name, fn, *args)
    finally:
        set_libsecp256k1_serving(serving=before)
    if res.timeout:
        confirm_hang(subname, name, case)
        return Outcome(False, (name, "inconclusive-timeout"))
    where = "+".join(str(p) for p, _ in case["subs"])
    if not res.ok and name in CP.MAY_REFUSE:
        return Outcome(True, (name, "refused-as-documented", f"positions={len(case['subs'])}"))
    if not res.ok:
        kinds = ",".join(f"{cats[p]}<-{s[0]}" for p, s in case["subs"])
        raise Violation(f"predicate-raises:{name}:{res.exc}", f"a bool predicate refused (at {res.site}) values of its declared types ({kinds}) instead of answering False: args={[repr(a)[:120] for a in args]}")
    if not isinstance(res.value, bool):
        raise Violation(f"predicate-not-bool:{name}", f"returned {type(res.value).__name__}: {res.value!r}"[:300])
    return Outcome(True, (name, "True" if res.value else "False", f"positions={len(case['subs'])}", *speed_tag(res)))


def spelling_units(tier: str) -> list:
    fx = CP.fixtures()
    units = []
    for name in CP.TABLE_NAMES:
        _, get_args, cats = CP._table()[name]
        for pos, (cat, v) in enumerate(zip(cats, get_args(fx))):
            if cat in ("bytes", "context") or not isinstance(v, (bytes, str)):
                continue  # "context" is declared a plain str (a name, not a String): bytes there are an undeclared type
            forms = ("bytearray", "memoryview", "hex", "HEX", "hex ") if isinstance(v, bytes) else ("bytes", "bytearray", "memoryview")
            units += [[name, pos, form, backend] for form in forms for backend in (0, 1)]
    return units


def run_spelling_unit(unit, col) -> None:
    """the call that answers True, with ONE argument respelled in another form its declared type admits: it still answers True"""
    from btclib.curves.curve import is_libsecp256k1_serving, set_libsecp256k1_serving

    name, pos, form, backend = unit
    fx = CP.fixtures()
    get_fn, get_args, cats = CP._table()[name]
    args = list(get_args(fx))
    v = args[pos]
    args[pos] = CP._form(v, form) if isinstance(v, bytes) else {"bytes": v.encode(), "bytearray": bytearray(v.encode()), "memoryview": memoryview(v.encode())}[form]
    before = is_libsecp256k1_serving()
    set_libsecp256k1_serving(serving=bool(backend))
    try:
        res = guarded(name, get_fn(fx), *args)  # a foreign exception becomes a violation named after the innermost library frame
    except Violation as v:
        if not skipped(v.signature):
            raise
        col.bulk(1, 0, tags={"skipped:" + v.signature: 1})
        return
    finally:
        set_libsecp256k1_serving(serving=before)
    if not res.ok:
        raise Violation(f"valid-argument-refused-in-declared-spelling:{name}:{res.exc}", f"position {pos} ({cats[pos]}) given as {form}: {res.exc} at {res.site}")
    if res.value is not True:
        raise Violation(f"valid-argument-answers-differently-in-declared-spelling:{name}", f"position {pos} ({cats[pos]}) given as {form}: {res.value!r} instead of True")
    col.bulk(1, 1, sample={"predicate": name, "position": pos, "form": form, "backend": backend}, tags={f"form={form}": 1})


# ------------------------------------------------------------------------------------------------ 5. consumers of accepted objects
import datetime  # noqa: E402
import inspect  # noqa: E402

PREV_SPKS = ("76a914" + "11" * 20 + "88ac", "0014" + "33" * 20, "5120" + "55" * 32, "a914" + "22" * 20 + "87", "0020" + "44" * 32, "", "6a", "51", "5121" + "0279be667ef9dcbbac55a06295ce870b07029bfcdb2dce28d959f2815b16f81798" + "51ae",
             "21" + "0279be667ef9dcbbac55a06295ce870b07029bfcdb2dce28d959f2815b16f81798" + "ac", "5120" + "79be667ef9dcbbac55a06295ce870b07029bfcdb2dce28d959f2815b16f81798", "51024e73", "6001ff", "ac")
HASH_TYPES = (0, 1, 2, 3, 0x81, 0x82, 0x83, 4, 0x80, 0xFF, 0x100, -1, 2**32)
# witness elements a peer chooses (what tests/fuzz_test.py's WITNESS_STACKS draws, with the bytes BIP341/342 give a meaning to): empty, annex-tagged, control-block- and signature-sized
WITNESS_ITEMS = ("", "50", "5000", "00", "51", "c0" + "79be667ef9dcbbac55a06295ce870b07029bfcdb2dce28d959f2815b16f81798", "c1" + "11" * 64, "c0" + "11" * 31, "ab" * 64, "ab" * 65, "20" + "aa" * 32 + "ac", "ff" * 33)
SKIP_METHODS = {"parse", "from_dict", "from_tx", "b64decode", "b58decode", "from_address", "from_description", "from_block", "sort_inputs", "sort_outputs", "from_descriptor", "from_account", "from_accounts"}
CONSUMER_KINDS = ["tx", "tx", "tx", "block", "header", "psbt", "psbt", "psbt", "psbt_in", "psbt_out", "witness", "txin", "txout", "outpoint", "xkey", "der_sig", "ssa_sig", "bms_sig", "gcs_filter", "key_origin", "envelope", "ms_script"] + \
    [k for k in BIN_KINDS if k.startswith("p2p:") and k not in HEAVY]
CONSUMER_TEXT_KINDS = ["descriptor", "descriptor", "miniscript", "miniscript", "address", "uri", "xkey", "origin", "psbt_b64", "bip322_sig"]
CONSUMER_JSON = [n for n in JSON_NAMES if "from_dict" in n and "script_from_dict" not in n]


@st.composite
def consumer_case(draw):
    src = draw(st.integers(0, 9))
    extra = {"prev": draw(st.lists(st.integers(0, len(PREV_SPKS) - 1), min_size=0, max_size=4)), "amt": draw(st.sampled_from([0, 1, 546, 10**8, 21 * 10**14, 2**63 - 1])), "ht": draw(st.integers(0, len(HASH_TYPES) - 1)),
             "flags": draw(st.one_of(st.just(None), st.integers(0, 2**21 - 1))), "idx": draw(st.sampled_from([0, 0, 1, 2, 5, 2**31 - 1, 2**31, -1])),
             "wit": draw(st.one_of(st.just(None), st.lists(st.sampled_from(WITNESS_ITEMS), max_size=5)))}
    if src <= 5:
        c = draw(bytes_case(CONSUMER_KINDS))
        c["rounds"] = [r[:4] + r[4:7] for r in c["rounds"][:4]]  # few, shallow mutations: what a parser ACCEPTS is what feeds the consumers
        c["cross"] = False
        return {"bin": c, **extra}
    if src <= 7:
        kind = draw(st.sampled_from(CONSUMER_TEXT_KINDS))
        return {"txt": {"kind": kind, "seed": draw(S.TXT[kind][0]()), "other": draw(st.integers(0, len(SPLICE_TEXT) - 1)), "cross": False, "rounds": draw(st.lists(_text_round(), min_size=1, max_size=3))}, **extra}
    name = draw(st.sampled_from(CONSUMER_JSON))
    return {"json": {"ep": name, "seed": draw(JSON_SEEDS[name][0]()), "rounds": [[int(draw(st.booleans())), *draw(H.json_muts(0, 2))]]}, **extra}


def _touch(obj, label: str, tags: list, checked_only: bool = False) -> None:
    """every public property and every method callable without arguments, twice (check_validity on and off where it exists).
    checked_only: the object came out of from_dict(check_validity=False) and may hold fields of any JSON type; asking it to skip its
    checks a second time is the caller's own doing, so only the calls that validate (check_validity=True) are made on it."""
    cls = type(obj)
    for name in dir(cls):
        if name.startswith("_") or name in SKIP_METHODS:
            continue
        attr = inspect.getattr_static(cls, name, None)
        if isinstance(attr, property):
            if checked_only:
                continue
            r = guarded(f"{label}.{name}", getattr, obj, name)
            tags.append("consumed" if r.ok else "consumer-refused")
            continue
        if isinstance(attr, (classmethod, staticmethod)) or not callable(attr):
            continue
        try:
            sig = inspect.signature(getattr(obj, name))
        except (TypeError, ValueError):
            continue
        required = [p for p in sig.parameters.values() if p.default is p.empty and p.kind in (p.POSITIONAL_ONLY, p.POSITIONAL_OR_KEYWORD, p.KEYWORD_ONLY)]
        if name == "serialize" and len(required) == 1 and required[0].name == "include_witness":
            variants = [((True,), {"check_validity": False}), ((False,), {"check_validity": True})]
        elif required:
            continue
        elif "check_validity" in sig.parameters:
            variants = [((), {"check_validity": False}), ((), {"check_validity": True})]
        else:
            variants = [((), {})] if not checked_only or name == "assert_valid" else []
        if checked_only:
            variants = [v for v in variants if v[1].get("check_validity", True)]
        for a, kw in variants:
            r = guarded(f"{label}.{name}", getattr(obj, name), *a, **kw)
            tags.append("consumed" if r.ok else "consumer-refused")
    if not checked_only:
        for fn in (repr, str):
            guarded(f"{label}.{fn.__name__}", fn, obj)
        guarded(f"{label}.__eq__", lambda o: o == o, obj)


def _prevouts(extra, n: int):
    from btclib.script.script_pub_key import ScriptPubKey
    from btclib.tx import TxOut

    prev = extra["prev"] or [0]
    try:
        return [TxOut(extra["amt"] if k == 0 else 1000 + k, ScriptPubKey(bytes.fromhex(PREV_SPKS[prev[k % len(prev)]]), check_validity=False), check_validity=False) for k in range(n)]
    except CONTRACT:
        return None  # the classes refuse the drawn amount or script even unchecked: nothing to spend from


def _parse_quietly(label, fn, *args, **kw):
    """the parse that feeds the consumers: a parser's own crash is the parser sub-checks' finding, not this one's"""
    try:
        return guarded(label, fn, *args, **kw)
    except Violation as v:
        if not v.signature.startswith(("crash:", "RecursionError@")):
            raise
        r = Result()
        r.exc = "crash"
        return r


def _consume(obj, extra, tags: list, checked_only: bool = False) -> None:
    from btclib.block import Block, BlockHeader
    from btclib.block.block_filter import BasicBlockFilter
    from btclib.descriptors.descriptors import Descriptor
    from btclib.descriptors.miniscript import Miniscript
    from btclib.psbt import Psbt
    from btclib.script import sig_hash
    from btclib.script.engine import verify_input, verify_transaction
    from btclib.script.engine.flags import ScriptFlag
    from btclib.script.script_pub_key import ScriptPubKey
    from btclib.tx import Tx, TxOut

    label = type(obj).__name__
    if isinstance(obj, (list, tuple, dict, bytes, int, str)) or obj is None:
        return
    _touch(obj, label, tags, checked_only)
    if checked_only:
        return
    ht = HASH_TYPES[extra["ht"]]
    flags = None if extra["flags"] is None else ScriptFlag(extra["flags"])
    if isinstance(obj, Tx):
        n = len(obj.vin)
        if extra.get("wit") is not None and n:
            # the one field of a spend the consensus code indexes into before it has validated anything: the witness, replaced by a drawn stack
            from btclib.script.witness import Witness

            try:
                obj.vin[min(max(extra["idx"], 0), n - 1)].script_witness = Witness([bytes.fromhex(w) for w in extra["wit"]], check_validity=False)
            except CONTRACT:
                pass  # the class refuses the drawn stack even unchecked: the spend keeps the witness it was parsed with
        for count, taproot in ((n, False), (n, True), (max(n - 1, 0), False)):
            prevouts = _prevouts(dict(extra, prev=[2, 10]) if taproot else extra, count)
            if prevouts is None:
                continue
            for i in sorted({0, n - 1, extra["idx"]} if n else {0}):
                guarded("sig_hash.from_tx", sig_hash.from_tx, prevouts, obj, i, ht)
                guarded("engine.verify_input", verify_input, prevouts, obj, i, flags)
            guarded("engine.verify_transaction", verify_transaction, prevouts, obj, flags)
        for cv in (False, True):
            r = guarded("Psbt.from_tx", Psbt.from_tx, obj, check_validity=cv)
            if r.ok:
                _touch(r.value, "Psbt(from_tx)", tags)
        for out in obj.vout[:3]:
            _touch(out.script_pub_key, "ScriptPubKey", tags)
        tags.append("tx-consumers")
    elif isinstance(obj, Block):
        from btclib.block.block import merkle_root_and_mutated_from_transactions
        from btclib.block.block_context import BlockContext

        guarded("Block.assert_valid(regtest)", obj.assert_valid, bytes.fromhex("207fffff"))
        guarded("Block.assert_valid_coinbase_height", obj.assert_valid_coinbase_height, extra["idx"])
        guarded("merkle_root_and_mutated_from_transactions", merkle_root_and_mutated_from_transactions, obj.transactions)
        spent = sum(len(t.vin) for t in obj.transactions[1:]) if obj.transactions else 0
        for count in {spent, spent + 1}:
            r = guarded("BasicBlockFilter.from_block", BasicBlockFilter.from_block, obj, [bytes.fromhex(PREV_SPKS[k % len(PREV_SPKS)]) for k in range(count)], check_validity=False)
            if r.ok:
                _touch(r.value, "BasicBlockFilter", tags)
        r = guarded("BlockContext", BlockContext, extra["idx"], datetime.datetime(2030, 1, 1, tzinfo=datetime.timezone.utc))
        if r.ok:
            guarded("Block.assert_valid_contextual", obj.assert_valid_contextual, r.value)
        tags.append("block-consumers")
    elif isinstance(obj, BlockHeader):
        guarded("BlockHeader.assert_valid_pow", obj.assert_valid_pow, bytes.fromhex("207fffff"))
        guarded("BlockHeader.assert_valid_time", obj.assert_valid_time, datetime.datetime(2030, 1, 1, tzinfo=datetime.timezone.utc))
    elif isinstance(obj, Psbt):
        from btclib import psbt as psbt_mod

        for name in ("finalize", "extract_tx", "prevouts", "assert_signed"):
            guarded(f"psbt.{name}", getattr(psbt_mod, name), obj)
        guarded("psbt.combine", psbt_mod.combine, [obj, obj])
        guarded("psbt.assert_signatures_only", psbt_mod.assert_signatures_only, obj, obj)
        guarded("psbt.new_signers", psbt_mod.new_signers, obj, obj)
        for i in sorted({0, len(obj.inputs) - 1, extra["idx"]}):
            guarded("psbt.ecdsa_sig_hash", psbt_mod.ecdsa_sig_hash, obj, i, hash_type=ht)
            guarded("psbt.taproot_sig_hash", psbt_mod.taproot_sig_hash, obj, i, hash_type=ht)
        for part in list(obj.inputs[:2]) + list(obj.outputs[:2]):
            _touch(part, type(part).__name__, tags)
        r = guarded("Psbt.tx", getattr, obj, "tx")
        if r.ok and isinstance(r.value, Tx) and len(r.value.vin) <= 4:
            if _prevouts(extra, len(r.value.vin)) is not None:
                guarded("engine.verify_transaction(psbt.tx)", verify_transaction, _prevouts(extra, len(r.value.vin)), r.value, flags)
        tags.append("psbt-consumers")
    elif isinstance(obj, Descriptor):
        for i in sorted({0, extra["idx"]}):
            for name in ("script_pub_key", "script_pub_keys", "address", "addresses", "redeem_script"):
                guarded(f"Descriptor.{name}", getattr(obj, name), i)
        guarded("Descriptor.index_of", obj.index_of, bytes.fromhex(PREV_SPKS[1]), 3)
        tags.append("descriptor-consumers")
    elif isinstance(obj, Miniscript):
        guarded("Miniscript.script", obj.script, extra["idx"])
        guarded("Miniscript.satisfy", obj.satisfy, {})
        tags.append("miniscript-consumers")
    elif isinstance(obj, ScriptPubKey):
        guarded("TxOut(spk)", TxOut, extra["amt"], obj)
    elif isinstance(obj, BasicBlockFilter):
        guarded("BasicBlockFilter.match", obj.match, bytes.fromhex(PREV_SPKS[1]))
        guarded("BasicBlockFilter.header", obj.header, bytes(32))
    elif hasattr(obj, "to_message"):
        guarded(f"{label}.to_message", obj.to_message, b"\xf9\xbe\xb4\xd9")


def check_consumers(case, subname="consumers"):
    tags: list = []
    objs = []
    if "bin" in case:
        c = case["bin"]
        kind = c["kind"]
        seed = S.BIN[kind][1](c["seed"])
        other = S.SPLICE_POOL[c["other"]] if c["other"] < len(S.SPLICE_POOL) else seed
        eps = [e for e in T.bin_eps_for(kind) if e.kinds[0] == kind]
        for packed in c["rounds"]:
            rnd = unpack_round(packed)
            ep = eps[rnd["ep"] % len(eps)]
            data = seed
            if rnd["kv"] is not None and kind in ("psbt", "psbt_in", "psbt_out"):
                data = _apply_kv(data, kind, rnd["kv"], other)
            data = H.apply_bytes(data, rnd["muts"], other)
            r = _parse_quietly(ep.key, ep.call, data, rnd["cv"] if ep.has_cv else True, _variant(ep, rnd, c))
            if r.ok:
                objs.append(r.value)
        tags.append(kind.split(":")[0])
    elif "txt" in case:
        c = case["txt"]
        kind = c["kind"]
        seed = S.TXT[kind][1](c["seed"])
        eps = text_eps_for(kind)
        for r_ in c["rounds"]:
            ep = eps[r_[0] % len(eps)]
            text = H.apply_text(seed, r_[4:][: text_count(r_[1])], SPLICE_TEXT[c["other"]])
            x = ep.variants[(r_[1] >> 4) % len(ep.variants)]
            r = _parse_quietly(ep.key, ep.call, text, bool(r_[1] & 1) if ep.has_cv else True, x)
            if r.ok:
                objs.append(r.value)
        tags.append(kind)
    else:
        c = case["json"]
        name = c["ep"]
        try:
            tree = _jrt(JSON_SEEDS[name][1](c["seed"]))
        except CONTRACT:
            return Outcome(False, ("seed-to_dict-refused",))
        cv = bool(c["rounds"][0][0])
        r = _parse_quietly(name, T.JSON_EPS[name], H.apply_json(tree, c["rounds"][0][1:]), check_validity=cv)
        if r.ok:
            objs.append(r.value)
        tags.append("json:" + name.split(".")[-2])
        for obj in objs:
            _consume(obj, case, tags, checked_only=not cv)
        return Outcome(bool(objs), tuple(tags) + ((f"objects={min(len(objs), 3)}", f"json-cv={cv}")))
    for obj in objs:
        _consume(obj, case, tags)
    return Outcome(bool(objs), tuple(tags) + ((f"objects={min(len(objs), 3)}",)))


# ------------------------------------------------------------------------------------------------ 6. the entry-point census (exhaustive over the table)
def ep_units(tier: str) -> list:
    return [["bin", e.key] for e in T.BIN_EPS if e.kinds[0] not in HEAVY] + [["txt", e.key] for e in T.TEXT_EPS] + [["json", n] for n in JSON_NAMES]


def run_ep_unit(unit, col) -> None:
    """One entry point, a fixed-size campaign of its own (Hypothesis, seeded from VERIF_SEED and the entry point's name): how often its mutated
    inputs are accepted and how many distinct refusal lines they reach. A crash here is counted, not reported: the search sub-checks own the findings."""
    from hypothesis import HealthCheck, Phase, given, seed, settings

    from vlib.runner import derive_seed

    fam, key = unit
    n = 12 if fam == "json" or "psbt" in key.lower() else 20
    stats = {"calls": 0, "acc": 0, "deep": 0, "crash": 0, "sites": set(), "distinct": set()}

    if fam == "bin":
        ep = T.BIN_BY_KEY[key]
        kind = ep.kinds[0]
        strat = bytes_case([kind])

        def one(case):
            seed_b = S.BIN[kind][1](case["seed"])
            other = S.SPLICE_POOL[case["other"]] if case["other"] < len(S.SPLICE_POOL) else seed_b
            for packed in case["rounds"]:
                rnd = unpack_round(packed)
                data = seed_b
                if rnd["kv"] is not None and kind in ("psbt", "psbt_in", "psbt_out", "psbt_map"):
                    data = _apply_kv(data, kind, rnd["kv"], other)
                data = H.apply_bytes(data, rnd["muts"] or [packed[1] * 7919 + 1], other)  # the census always mutates
                x = _variant(ep, rnd, case)
                cv = rnd["cv"] if ep.has_cv else True
                _tally(stats, ep.key, lambda: ep.call(data, cv, x), f"{ep.key}|{x!r}|{cv}", lambda d: ep.call(d, cv, x), (data, repr(x), cv))
    elif fam == "txt":
        ep = T.TEXT_BY_KEY[key]
        kinds = [k for k in TEXT_KINDS if ep in text_eps_for(k)]
        strat = st.sampled_from(kinds).flatmap(lambda k: st.fixed_dictionaries({"kind": st.just(k), "seed": S.TXT[k][0](), "other": st.integers(0, len(SPLICE_TEXT) - 1), "rounds": st.lists(_text_round(), min_size=1, max_size=8)}))

        def one(case):
            seed_t = S.TXT[case["kind"]][1](case["seed"])
            for r in case["rounds"]:
                muts = (r[4:] or [r[1] * 7919 + 1])[: text_count(r[1])]
                text = seed_t
                if r[3] and ep.frames:
                    framed = _reframe(ep, text, r[2], muts[: r[3]], case["seed"] if case["kind"] in ("bip39", "bip39_short") else None)
                    if framed is not None:
                        text, muts = framed, muts[r[3]:] if r[2] % 3 == 0 else []
                text = H.apply_text(text, muts, SPLICE_TEXT[case["other"]])
                if "desc" in ep.frames and r[2] % 2 == 0 and "#" not in text and S.desc_checksum(text):
                    text = text + "#" + S.desc_checksum(text)
                x = ep.variants[(r[1] >> 4) % len(ep.variants)]
                arg = text.split("\n") if case["kind"] == "slip39_group" and "mnemonics" in ep.key else text
                _tally(stats, ep.key, lambda: ep.call(arg, bool(r[1] & 1) if ep.has_cv else True, x), f"T|{ep.key}|{x!r}", lambda d: ep.call(d.hex() if len(d) % 3 else d.decode("latin-1"), True, x),
                       (text, repr(x), bool(r[1] & 1)))
    else:
        fn = T.JSON_EPS[key]
        strat = st.fixed_dictionaries({"seed": JSON_SEEDS[key][0](), "rounds": st.lists(st.tuples(st.booleans(), H.json_muts(1, 3)).map(lambda t: [int(t[0]), *t[1]]), min_size=1, max_size=8)})

        def one(case):
            try:
                tree = _jrt(JSON_SEEDS[key][1](case["seed"]))
            except CONTRACT:
                return
            for r in case["rounds"]:
                arg = _objectify(key, H.apply_json(tree, r[1:]))
                _tally(stats, key, lambda: fn(arg, check_validity=bool(r[0])), None, None, (case["seed"] if isinstance(case["seed"], (int, str)) else canon_(case["seed"]), tuple(r)))

    test = settings(max_examples=n, database=None, deadline=None, suppress_health_check=list(HealthCheck), phases=[Phase.generate])(
        seed(derive_seed(int(os.environ.get("VERIF_SEED", "1") or "1"), "census", key))(given(strat)(one)))
    test()
    calls = max(stats["calls"], 1)
    rate = stats["acc"] / calls
    bucket = "acc<1%" if rate < 0.01 else "acc>99%" if rate > 0.99 else "acc 1-10%" if rate < 0.1 else "acc 10-50%" if rate < 0.5 else "acc 50-99%"
    tags = {f"{fam}: {bucket}": 1, f"{fam}: refusal-lines " + ("1" if len(stats["sites"]) <= 1 else "2-4" if len(stats["sites"]) <= 4 else "5-9" if len(stats["sites"]) <= 9 else ">=10"): 1}
    if rate < 0.01 or rate > 0.99:
        tags[f"GENERATOR-FLAG {bucket} ({stats['acc']}/{calls}): {key}"] = 1
    if stats["crash"]:
        tags[f"{fam}: entry points with a crash in the census"] = 1
    col.bulk(stats["calls"], len(stats["distinct"]), sample={"entry_point": key, "calls": stats["calls"], "accepted": stats["acc"], "refusal_lines": sorted(stats["sites"])[:12]}, tags=tags)


def canon_(x) -> str:
    return json.dumps(x, sort_keys=True, default=str)


def _tally(stats, label, thunk, base_key, base_call, ident) -> None:
    """ident: what makes the call distinct (input, variant, check_validity); non-trivial calls are counted once per ident"""
    stats["calls"] += 1
    try:
        res = guarded(label, thunk)
    except Violation:
        stats["crash"] += 1
        return
    except Exception:  # noqa: BLE001
        stats["crash"] += 1
        return
    if res.ok:
        stats["acc"] += 1
        stats["distinct"].add(hashlib.sha256(repr(ident).encode("utf-8", "surrogatepass")).digest()[:10])
    elif not res.timeout:
        stats["sites"].add(res.site)
        if base_key is not None and res.site not in baseline_sites(base_key, base_call):
            stats["deep"] += 1
            stats["distinct"].add(hashlib.sha256(repr(ident).encode("utf-8", "surrogatepass")).digest()[:10])


def not_driven_units(tier: str) -> list:
    return sorted(T.NOT_DRIVEN)


def seed_units(tier: str) -> list:
    return [k for k in BIN_KINDS if k not in HEAVY and k not in ("var_bytes", "gcs_filter")]


UNCHECKED_ONLY = {"tx", "txin", "txout", "witness", "script", "point", "point_x", "point_any", "xkey", "der_sig", "ssa_sig", "bms_sig", "envelope", "borromean", "var_int", "bits", "leaf_script", "taproot_tree", "psbt",
                  "psbt_in", "psbt_out", "header", "outpoint", "block", "p2p:TxPayload", "p2p:PrefilledTransaction", "p2p:BlockTxn", "p2p:CmpctBlock", "p2p:BlockPayload"}


def run_seed_unit(kind, col) -> None:
    """generator soundness: four unmutated seeds of the kind are accepted by every parser the kind is the natural input of
    (with check_validity=True, or -- for the kinds that deliberately include encodings only an unchecked parse takes -- with it off)"""
    from hypothesis import HealthCheck, Phase, given, seed, settings

    eps = [e for e in T.bin_eps_for(kind) if e.kinds[0] == kind]
    n = [0]
    distinct = set()
    refusals: dict = {}

    def one(c):
        data = S.BIN[kind][1](c)
        distinct.add(data)
        for ep in eps:
            x = ep.variants[0]
            if x == "seed":
                x = _variant(ep, {"variant": 0}, {"kind": kind, "seed": c})
            res = guarded(ep.key, ep.call, data, True, x)
            if not res.ok and kind in UNCHECKED_ONLY and ep.has_cv:
                res = guarded(ep.key, ep.call, data, False, x)
            n[0] += 1
            if not res.ok:
                # a refusal with a library exception is inside C19's contract (whether the encoding deserved it is C05's question): it is counted, so that a
                # generator that stopped reaching the parsers shows in the evidence, and it is not a violation of this property
                refusals[f"GENERATOR-FLAG seed of kind {kind} refused by {ep.key}: {res.exc} at {res.site}"] = 1

    settings(max_examples=4, database=None, deadline=None, suppress_health_check=list(HealthCheck), phases=[Phase.generate])(seed(19)(given(S.BIN[kind][0]())(one)))()
    col.bulk(n[0], 0 if refusals else len(distinct) * len(eps), sample={"kind": kind, "entry_points": [e.key for e in eps]}, tags=refusals)


# ------------------------------------------------------------------------------------------------ model validation
def validate_models() -> None:
    """The table is complete; the re-framers (descriptor checksum, bech32(m), base58check, BIP39) reproduce public vectors;
    every predicate fixture answers True. (Seed validity is the seed_soundness sub-check.)"""
    T.assert_table_complete()
    # 1. checksum / armour models against public vectors
    with open(os.path.join(VERIF, "vectors", "descriptors", "descriptor_checksums.json")) as f:
        for v in json.load(f):
            if S.desc_checksum(v["desc"]) != v["checksum"]:
                raise HarnessError(f"descriptor checksum model: {v['desc']}")
    n_b32 = 0
    for a in S.CORPUS["addresses"] + S.CORPUS["sp_addresses"]:
        parts = S.bech32_split(a)
        if parts is not None:
            n_b32 += 1
            if S.bech32_join(*parts) != a.lower() or parts[2] not in (1, 0x2BC830A3):
                raise HarnessError(f"bech32 model: {a}")
    if n_b32 < 20:
        raise HarnessError("bech32 model: too few vectors")
    for lang, m in S.CORPUS["bip39"]:
        ent = S.bip39_entropy(m, lang)
        if ent is None or S.bip39_encode(ent, lang).split() != m.split():
            raise HarnessError(f"bip39 model: {lang}")
    for x in S.CORPUS["xkeys"] + S.CORPUS["wifs"]:
        if S.reframe_b58check(x, [], b"") != x:
            raise HarnessError(f"base58check model: {x}")
    # 3. predicates: every fixture answers True
    fx = CP.fixtures()
    for name, (get_fn, get_args, cats) in CP._table().items():
        if get_fn(fx)(*get_args(fx)) is not True or len(cats) != len(get_args(fx)):
            raise HarnessError(f"predicate fixture does not answer True: {name}")


SUBCHECKS = [
    SubCheck("seed_soundness", None, "generator soundness, not a verdict on the library: every binary seed kind, unmutated, goes to the parsers it is the natural input of; a foreign exception is a violation as everywhere, a refusal is flagged in the tags (GENERATOR-FLAG) and makes the unit trivial", units=seed_units, run_unit=run_seed_unit, exhaustive=True),
    SubCheck("parsers_bytes", skippable("parsers_bytes", check_bytes), "every binary parse/decode entry point x valid encodings under stacked mutations (bytes, BytesIO+tail, hex str, bytearray, memoryview; check_validity on/off; every extra-argument variant): "
             "returns or refuses within the contract; BytesIO position exact. Non-trivial: accepted, or refused at a source line a structure-blind input (empty / uniform random) does not reach",
             bytes_case, quick=6000, thorough=80000, max_buckets=4),
    SubCheck("parsers_bytes_blocks", skippable("parsers_bytes_blocks", lambda case: check_bytes(case, "parsers_bytes_blocks")), "the same as parsers_bytes over BlockPayload.parse with real mainnet blocks (up to 1 MB, 1866 transactions) as seeds: bounded separately for its cost",
             lambda: bytes_case(["p2p:BlockPayload"]), quick=32, thorough=400, max_buckets=3, shards=4),
    SubCheck("single_edits", None, "exhaustive: every binary entry point x two short valid encodings (<= 160 bytes) x EVERY single edit: truncation at every offset from either end, deletion of every byte, every byte set to each of 0x00 0x01 0x4c 0x4e 0x7f 0x80 0xfc "
             "0xfd 0xfe 0xff, a CompactSize of 0xfd, 0xffff, 0x10000, 2^32-1, 2^32, 2^64-1 and the non-minimal 9-byte spelling written over every offset; check_validity on and off. Non-trivial: distinct inputs accepted or refused "
             "beyond the first field", units=single_units, run_unit=run_single_unit, exhaustive=True),
    SubCheck("parsers_text", skippable("parsers_text", check_text), "every text decoder (addresses, WIF, extended keys, descriptors, miniscript, mnemonics of three schemes, derivation paths, key origins, BIP21 URIs, base64 armours) and every octets "
             "parser through its hex-string form x valid strings under stacked text mutations (separators, control/format characters, lone surrogates, length-changing case mappings, non-ASCII digits, edge numbers, word edits, "
             "bracket edits, 50..10^4-fold repetitions), nesting bombs of every grammar up to 10^4 deep, and re-framed payloads (base58check / bech32(m) / descriptor checksum / base64 recomputed after mutating what they protect); "
             "str, bytes, bytearray, memoryview where String is declared. Non-trivial as for parsers_bytes", text_case, quick=6000, thorough=80000, max_buckets=4),
    SubCheck("single_text_edits", None, "exhaustive: every text entry point x two short valid strings (<= 150 characters) x EVERY single edit: truncation and deletion at every offset, every character replaced by each of 36 "
             "(grammar separators, NUL, newline, non-ASCII digits and spaces, U+0130, a lone surrogate, an astral character). Non-trivial: distinct inputs accepted or refused beyond the first field",
             units=single_text_units, run_unit=run_single_text_unit, exhaustive=True),
    SubCheck("nesting_bombs", None, "exhaustive: every nesting / repetition shape of every text grammar (24 descriptor, 17 miniscript, 7 path / key-origin, 8 URI, 5 word-list shapes) at n = 1000, 10^4 "
             "(thorough: 10, 100, 400, 1000, 3000, 10^4; n lowered until the text fits 2^17 characters), unmutated, through every entry point that reads the grammar: returns or refuses within the contract under the "
             "interpreter's default recursion budget; calls slower than 5 s are tagged; non-trivial: accepted, or n >= 400", units=bomb_units, run_unit=run_bomb_unit, exhaustive=True),
    SubCheck("from_dict", skippable("from_dict", check_json), "every from_dict and decode_* JSON entry point x the library's own to_dict() of generated valid objects (Tx, TxIn, TxOut, OutPoint, Witness, BlockHeader, Block, "
             "Psbt v0/v2 with every field, PsbtIn, PsbtOut, BIP32KeyOrigin, Network, and the PSBT sub-structures) under 1..4 stacked tree mutations at drawn paths: wrong type (None, bool, ints incl. 2^70 and 10^400, floats, "
             "str, list, dict, lists/dicts nested 50 and 900 deep (json.loads reads ~990 levels under default settings), 3000-element lists), missing key, extra key, string edits (odd length, non-hex, non-ASCII digits, 40x longer), integer edges, list edits, sibling swaps; "
             "check_validity on/off. Non-trivial: accepted, or refused at a line no blind value (None, 0, '', [], {} ...) reaches", json_case, quick=4000, thorough=50000, max_buckets=3),
    SubCheck("predicates", skippable("predicates", check_predicate), "every boolean verifier (the table of tests/bool_contract_test.py plus musig2.partial_sig_verify(_), borromean.verify, merkle_proof.verify with a real branch, "
             "BasicBlockFilter.match/match_any, taproot.check_output_pubkey, miniscript.reads_back, the nine script_pub_key.is_* classifiers, b32.is_segwit_prefixed, is_negative_bits, engine dsa_verify/ssa_verify/check_pub_key, "
             "is_on_curve) from a call that answers True, with one, two or all arguments replaced by generated values of the DECLARED type (bytes of every length, hex/non-hex/non-ASCII str, bytearray, memoryview; SEC keys "
             "valid, x>=p, off-curve, hybrid, the other root; xpub strings/objects under mutation; points with edge coordinates; Sig objects built unchecked with edge r/s; DER/base64 under structural mutation; ints in and out "
             "of range; sequences of mismatched lengths), on both backends: the call returns a bool", CP.predicate_case, quick=5000, thorough=60000, max_buckets=4),
    SubCheck("coverage_guided", None, "atheris / libFuzzer campaigns (btclib instrumented, in-process) over 10 targets - transaction, block and header, psbt, p2p message, script / tapscript / witness / script_pub_key, keys and signatures, "
             "descriptor text, miniscript text, miniscript scripts, address / key / URI text codecs - each seeded with a few valid encodings, libFuzzer seed derived from VERIF_SEED; the oracle is inside the target: every parser returns or raises a "
             "BTClib exception, the bytes a stream parser consumed parse alone, and the accepted object goes through its writers and consumers inside the same contract (the round-trip identities of the same targets are asserted by the campaigns of "
             "C05, C06, C14 and C15, not here); non-trivial: inputs libFuzzer kept because they reached new coverage",
             units=lambda tier: __import__("checks.c19_fuzz", fromlist=["units"]).units(tier, "C19"), run_unit=lambda unit, col: __import__("checks.c19_fuzz", fromlist=["run_unit"]).run_unit(unit, col, "C19")),
    SubCheck("predicate_spellings", None, "exhaustive: every predicate's True-answering call x every bytes/str argument respelled in each other form its declared type admits (bytearray, memoryview, hex str lower/upper/"
             "space-padded; ascii bytes/bytearray/memoryview for String) x both backends: the answer stays True", units=spelling_units, run_unit=run_spelling_unit, exhaustive=True),
    SubCheck("consumers", skippable("consumers", check_consumers), "objects that a parser ACCEPTED from (lightly) mutated bytes / text / JSON, check_validity on and off, are handed to every consumer: every public property and "
             "argument-less method of the object (twice where check_validity exists), repr/str/==; Tx: sig_hash.from_tx and engine.verify_input over first/last/out-of-range inputs with generated prevouts of 14 script types "
             "(right and short lists) and 13 hash types, verify_transaction with drawn flags, Psbt.from_tx; Block: assert_valid(regtest) and each assert_valid_*, BasicBlockFilter.from_block, contextual checks; Psbt: finalize, "
             "extract_tx, combine, prevouts, assert_signed, new_signers, ecdsa/taproot sig hashes, its tx through the engine; Descriptor: scripts/addresses at drawn indexes; Miniscript: script, satisfy; filters: match; p2p "
             "payloads: to_message. Each call returns or refuses within the contract. Non-trivial: at least one object was accepted", consumer_case, quick=3000, thorough=40000, max_buckets=4),
    SubCheck("entry_points", None, "exhaustive over the entry-point table (one unit per driven parse/decode/from_dict callable): a fixed campaign of 12-20 seeded cases x up to 12 mutation rounds each, reporting the acceptance rate "
             "bucket and the number of distinct refusal lines reached; an entry point whose mutated inputs are accepted <1% or >99% is flagged for generator work (GENERATOR-FLAG tags)", units=ep_units, run_unit=run_ep_unit, exhaustive=True),
    SubCheck("not_driven", None, "the introspected entry points that no adapter drives, with the reason (a tag each)", units=not_driven_units,
             run_unit=lambda unit, col: col.bulk(1, 0, sample={"entry_point": unit, "reason": T.NOT_DRIVEN[unit]}, tags={f"not driven: {unit.replace('btclib.', '')}: {T.NOT_DRIVEN[unit]}": 1}), exhaustive=True),
]

# Hypothesis runs gc.collect() at the start of every test function; in a forked worker that walk touches every object the parent
# imported and copy-on-write faults the whole heap (tens of seconds of system time per call on a busy machine). Everything imported
# so far is permanent: freeze it out of the collector's sight before the runner forks its pool.
import gc  # noqa: E402

gc.collect()
gc.freeze()
