"""C19 predicates: every boolean verifier with a call that answers True, and generators of values of each DECLARED type.

The contract (CONTRIBUTING.md "A function that answers a bool is total over the types it declares, and only those";
tests/bool_contract_test.py): a wrong VALUE of a declared type is answered False; only a type the signature does not
declare is refused (BTClibTypeError). Nothing of an undeclared type is generated here, so the oracle is: the call returns a bool.

Declared types (btclib/alias.py and the modules' own aliases):
  Octets / String = bytes | str | bytearray | memoryview        (a str that is no hex is a wrong VALUE of Octets)
  PubKey = Octets | BIP32KeyData | Point | PreparedPoint        (an xpub string is a String form of BIP32KeyData)
  BIP340PubKey = int | Octets | BIP32KeyData | Point ...
  Sig | Octets, Sig | String; int; bool; Sequence[...] of those; Point = tuple[int, int]
"""

from __future__ import annotations

from hypothesis import strategies as st

from btclib import b32, b58, bip322
from btclib.bip32.bip32 import BIP32KeyData
from btclib.block import block_filter, merkle_proof, proof_of_work
from btclib.curves import secp256k1
from btclib.curves.curve import mult
from btclib.descriptors import miniscript
from btclib.ecc import bms, borromean, dleq, dsa, musig2, pedersen, ssa
from btclib.hashes import reduce_to_hlen
from btclib.script import script_pub_key as spk
from btclib.script import taproot
from btclib.script.engine import script as engine_script
from btclib.script.engine import tapscript as engine_tapscript
from btclib.script.engine.flags import ScriptFlag
from btclib.to_pub_key import pub_keyinfo_from_prv_key
from vlib.gens import hostile as H
from vlib.gens import hostile_seeds as S

P = 0xFFFFFFFFFFFFFFFFFFFFFFFFFFFFFFFFFFFFFFFFFFFFFFFFFFFFFFFEFFFFFC2F
N = S.N
_FX: dict = {}


def fixtures() -> dict:
    """One valid call per predicate (made with the library: a seed, not an oracle). Cached per process."""
    if _FX:
        return _FX
    q = 12
    pub = pub_keyinfo_from_prv_key(q)[0]
    x_only = pub[1:]
    msg = b"Satoshi Nakamoto"
    mh = reduce_to_hlen(msg)
    addr = b58.p2pkh(pub)
    wif = "L3VFeEujGtevx9w18HD1fhRbCH67Az2dpCymeRE1SoPK6XQtaN2k"
    waddr = b32.p2wpkh(wif)
    dsig, ssig, bsig = dsa.sign(msg, q), ssa.sign(msg, q), bms.sign(msg, q)
    b3 = bip322.sign(msg, wif, waddr)
    dleq_b = pub_keyinfo_from_prv_key(2)[0]
    dleq_c = pub_keyinfo_from_prv_key(2 * q)[0]
    proof = dleq.generate_proof(q, dleq_b)
    commitment = pedersen.commit(1, 2)
    txid = bytes.fromhex("01" * 32)
    # a 3-leaf merkle branch for index 1, by the independent model
    from vlib.models import block_ref

    leaves = [S.expand(900 + i, 32) for i in range(3)]
    root, _ = block_ref.merkle_root_mutated(leaves)
    branch = [b[::-1] for b in block_ref.merkle_branch(leaves, 1)]  # the library takes display (reversed) order throughout
    root = root[::-1]
    leaves = [x[::-1] for x in leaves]
    # borromean: two rings
    keys = [[3, 5], [7, 11, 13]]
    bor_rings = [[mult(k) for k in ring] for ring in keys]
    bor = borromean.sign(msg, [17, 19], [1, 2], [5, 13], bor_rings)
    # musig2: two signers
    sks = [21, 34]
    pks = [musig2.individual_pub_key(k) for k in sks]
    nonces = [musig2.nonce_gen_(S.expand(77 + i, 32), sks[i], pks[i], None, mh, None) for i in range(2)]
    agg = musig2.nonce_agg([n[1] for n in nonces])
    ctx = musig2.SessionContext(agg, pks, [], [], mh)
    psig0 = musig2.sign(bytearray(nonces[0][0]), sks[0], ctx)
    # taproot control block: one leaf
    from vlib.models import bip341_ref, fastec

    leaf_script = bytes.fromhex("20" + "aa" * 32 + "ac")
    internal = S.pub_key_bytes(99, 2)
    lh = bip341_ref.leaf_hash(0xC0, leaf_script)
    out32, parity = fastec.tap_tweak_pubkey(internal, lh)
    control = bytes([0xC0 | parity]) + internal
    # block filter with three elements
    bh = S.expand(5, 32)
    elements = [b"\x51", bytes.fromhex("0014" + "11" * 20), S.expand(6, 25)]
    filt = block_filter.BasicBlockFilter.parse(block_ref.gcs_filter(bh[::-1], set(elements)), bh)
    ms_script = S._ms_script_bytes(30)
    ms_ctx = S.CORPUS["miniscripts"][30][1]
    _FX.update(dict(q=q, pub=pub, x_only=x_only, msg=msg, mh=mh, addr=addr, waddr=waddr, dsig=dsig, ssig=ssig, bsig=bsig, b3=b3, dleq_b=dleq_b, dleq_c=dleq_c, proof=proof, commitment=commitment,
                    txid=txid, leaves=leaves, root=root, branch=branch, bor=bor, bor_rings=bor_rings, pks=pks, pub_nonces=[n[1] for n in nonces], psig0=psig0, ctx=ctx, leaf_script=leaf_script,
                    out32=out32, control=control, filt=filt, elements=elements, ms_script=ms_script, ms_ctx=ms_ctx))
    return _FX


# ------------------------------------------------------------------------------------------------ the table
# name -> (callable(fx) -> function, callable(fx) -> list of valid args, list of declared-type categories per position)
def _table():
    return {
        "dsa.verify": (lambda f: dsa.verify, lambda f: [f["msg"], f["pub"], f["dsig"]], ["octets", "pubkey", "dsasig"]),
        "dsa.verify_": (lambda f: dsa.verify_, lambda f: [f["mh"], f["pub"], f["dsig"]], ["octets", "pubkey", "dsasig"]),
        "ssa.verify": (lambda f: ssa.verify, lambda f: [f["msg"], f["x_only"], f["ssig"]], ["octets", "bip340key", "ssasig"]),
        "ssa.verify_": (lambda f: ssa.verify_, lambda f: [f["mh"], f["x_only"], f["ssig"]], ["octets", "bip340key", "ssasig"]),
        "ssa.batch_verify": (lambda f: ssa.batch_verify, lambda f: [[f["msg"]] * 2, [f["x_only"]] * 2, [f["ssig"]] * 2], ["list:octets", "list:bip340key", "list:ssasigobj"]),
        "ssa.batch_verify_": (lambda f: ssa.batch_verify_, lambda f: [[f["mh"]] * 2, [f["x_only"]] * 2, [f["ssig"]] * 2], ["list:octets", "list:bip340key", "list:ssasigobj"]),
        "bms.verify": (lambda f: bms.verify, lambda f: [f["msg"], f["addr"], f["bsig"]], ["octets", "address", "bmssig"]),
        "bip322.verify": (lambda f: bip322.verify, lambda f: [f["msg"], f["waddr"], f["b3"]], ["octets", "address", "bip322sig"]),
        "pedersen.verify": (lambda f: pedersen.verify, lambda f: [1, 2, f["commitment"]], ["int", "int", "point"]),
        "merkle_proof.verify": (lambda f: merkle_proof.verify, lambda f: [f["leaves"][1], f["branch"], 1, f["root"]], ["octets", "list:octets", "int", "octets"]),
        "dleq.verify_proof": (lambda f: dleq.verify_proof, lambda f: [f["pub"], f["dleq_b"], f["dleq_c"], f["proof"]], ["pubkey", "pubkey", "pubkey", "octets"]),
        "borromean.verify": (lambda f: borromean.verify, lambda f: [f["msg"], f["bor"], f["bor_rings"]], ["octets", "borsig", "rings"]),
        "musig2.partial_sig_verify": (lambda f: musig2.partial_sig_verify, lambda f: [f["psig0"], f["pub_nonces"], f["pks"], [], [], f["mh"], 0],
                                      ["octets", "list:octets", "list:octets", "list:octets", "list:bool", "octets", "int"]),
        "musig2.partial_sig_verify_": (lambda f: lambda a, b, c: musig2.partial_sig_verify_(a, b, c, f["ctx"]), lambda f: [f["psig0"], f["pub_nonces"][0], f["pks"][0]], ["octets", "octets", "octets"]),
        "engine.script.dsa_verify": (lambda f: engine_script.dsa_verify, lambda f: [f["mh"], f["pub"], f["dsig"].serialize()], ["bytes", "bytes", "bytes"]),
        "engine.tapscript.ssa_verify": (lambda f: engine_tapscript.ssa_verify, lambda f: [f["mh"], f["x_only"], f["ssig"].serialize()], ["bytes", "bytes", "bytes"]),
        "engine.script.check_pub_key": (lambda f: engine_script.check_pub_key, lambda f: [f["pub"], False, ScriptFlag(0)], ["bytes", "bool", "flags"]),
        "taproot.check_output_pubkey": (lambda f: taproot.check_output_pubkey, lambda f: [f["out32"], f["leaf_script"], f["control"]], ["octets", "octets", "octets"]),
        "b32.is_segwit_prefixed": (lambda f: b32.is_segwit_prefixed, lambda f: [f["waddr"]], ["address"]),
        "proof_of_work.is_negative_bits": (lambda f: proof_of_work.is_negative_bits, lambda f: [bytes.fromhex("04923456")], ["octets"]),
        "BasicBlockFilter.match": (lambda f: f["filt"].match, lambda f: [f["elements"][0]], ["octets"]),
        "BasicBlockFilter.match_any": (lambda f: f["filt"].match_any, lambda f: [f["elements"][:2]], ["list:octets"]),
        "miniscript.reads_back": (lambda f: miniscript.reads_back, lambda f: [f["ms_script"], f["ms_ctx"]], ["script", "context"]),
        "secp256k1.is_on_curve": (lambda f: secp256k1.is_on_curve, lambda f: [secp256k1.G], ["point"]),
        **{f"script_pub_key.{n}": (lambda f, n=n: getattr(spk, n), lambda f, n=n: [bytes.fromhex(_SPK_OF[n])], ["script"]) for n in _SPK_OF},
    }


_SPK_OF = {
    "is_p2pk": "21" + "0279be667ef9dcbbac55a06295ce870b07029bfcdb2dce28d959f2815b16f81798" + "ac",
    "is_p2pkh": "76a914" + "11" * 20 + "88ac",
    "is_p2sh": "a914" + "22" * 20 + "87",
    "is_p2ms": "5221" + "0279be667ef9dcbbac55a06295ce870b07029bfcdb2dce28d959f2815b16f81798" + "21" + "02c6047f9441ed7d6d3045406e95c07cd85c778e4b8cef3ca7abac09b95c709ee5" + "52ae",
    "is_nulldata": "6a0b68656c6c6f20776f726c64",
    "is_segwit": "0014" + "33" * 20,
    "is_p2wpkh": "0014" + "33" * 20,
    "is_p2wsh": "0020" + "44" * 32,
    "is_p2tr": "5120" + "55" * 32,
}
TABLE_NAMES = sorted(_table())
# Predicates documented to refuse "what cannot be an answer" (CONTRIBUTING.md on the `check_*` prefix; musig2.partial_sig_verify_'s docstring,
# after BIP327: a pubnonce or pubkey that is not a point is refused): a BTClib* refusal is inside their contract, a foreign exception is not.
MAY_REFUSE = {"taproot.check_output_pubkey", "engine.script.check_pub_key", "musig2.partial_sig_verify", "musig2.partial_sig_verify_"}
# Three more bool functions refuse a malformed value with a BTClibValueError, and the repository's own suite pins that
# (tests/input_validation_test.py expects the refusal of is_negative_bits and reads_back, tests/curves/curve_test.py that of is_on_curve with
# y = p): they are none of the verifier families C19 names (signature, proof, address, merkle branch, filter), so a library refusal is inside
# their contract here as well; a foreign exception from them is still a violation.
MAY_REFUSE |= {"proof_of_work.is_negative_bits", "miniscript.reads_back", "secp256k1.is_on_curve"}

# ------------------------------------------------------------------------------------------------ value specs (JSON) of each declared type
INT_EDGES = (0, 1, -1, 2, N - 1, N, N + 1, P - 1, P, P + 1, 2**255, 2**256 - 1, 2**256, 2**257, -(2**256), 2**31, 2**32, 2**63, 2**64, 10**80)


def _octets_spec():
    return st.one_of(
        st.tuples(st.just("mut"), st.sampled_from(("bytes", "hex", "bytearray", "memoryview", "HEX", "hex ")), H.byte_muts(0, 4)).map(list),
        st.tuples(st.just("raw"), st.sampled_from(("bytes", "hex", "bytearray", "memoryview")), H.raw_bytes().map(bytes.hex)).map(list),
        st.tuples(st.just("text"), H.raw_text(40)).map(list),
        st.tuples(st.just("text"), st.sampled_from(("", " ", "zz", "0", "0x00", "00 ", "not hex at all", "\ud800", "\uff10\uff10", "0" * 63, "f" * 64, "g" * 64, "00" * 10000))).map(list),
    )


def _int_spec():
    return st.tuples(st.just("int"), st.one_of(st.sampled_from(INT_EDGES), st.integers(-(2**260), 2**260))).map(list)


def _point_spec():
    coord = st.one_of(st.sampled_from(INT_EDGES), st.integers(0, P - 1))
    return st.one_of(st.tuples(st.just("point"), coord, coord).map(list), st.tuples(st.just("onpoint"), st.integers(1, N - 1), st.integers(0, 3)).map(list))


def _key_spec(xkey_obj: bool = True):
    """valid-looking-but-wrong keys of every declared form (a BIP32KeyData object is a PubKey but not a BIP340PubKey)"""
    return st.one_of(
        st.tuples(st.just("sec"), st.integers(0, 7), st.integers(1, 2**64), st.sampled_from(("bytes", "hex", "bytearray", "memoryview"))).map(list),
        st.tuples(st.just("xkey"), st.integers(0, 33), st.sampled_from(("str", "obj", "bytes", "mut") if xkey_obj else ("str", "bytes", "mut")), H.byte_muts(0, 2)).map(list),
        _point_spec(),
        _octets_spec(),
    )


def _sig_spec(kind):
    scalars = st.one_of(st.sampled_from(INT_EDGES), st.integers(0, 2**256))
    return st.one_of(
        st.tuples(st.just("sigobj"), st.just(kind), scalars, scalars).map(list),
        st.tuples(st.just("sigobj"), st.just(kind), scalars, scalars).map(list),
        _octets_spec(),
    )


def _address_spec():
    return st.one_of(
        st.tuples(st.just("tmut"), st.sampled_from(("str", "bytes")), H.text_muts(0, 3)).map(list),
        st.tuples(st.just("corpus"), st.sampled_from(("addresses", "wifs", "xkeys", "sp_addresses")), st.integers(0, 99), st.sampled_from(("str", "bytes")), H.text_muts(0, 2)).map(list),
        st.tuples(st.just("text"), H.raw_text(40)).map(list),
    )


def spec_strategy(cat: str):
    if cat.startswith("list:"):
        inner = spec_strategy(cat[5:])
        return st.one_of(st.tuples(st.just("list"), st.lists(inner, max_size=4)).map(list), st.tuples(st.just("listmut"), st.integers(0, 5), inner).map(list))
    if cat in ("octets", "script"):
        return _octets_spec()
    if cat == "bytes":
        return st.one_of(st.tuples(st.just("mut"), st.just("bytes"), H.byte_muts(0, 4)).map(list), st.tuples(st.just("raw"), st.just("bytes"), H.raw_bytes().map(bytes.hex)).map(list))
    if cat in ("pubkey", "bip340key"):
        return st.one_of(_key_spec(xkey_obj=False), _int_spec()) if cat == "bip340key" else _key_spec()
    if cat == "dsasig":
        return _sig_spec("dsa")
    if cat in ("ssasig", "ssasigobj"):
        return _sig_spec("ssa") if cat == "ssasig" else st.tuples(st.just("sigobj"), st.just("ssa"), st.one_of(st.sampled_from(INT_EDGES), st.integers(0, 2**256)), st.one_of(st.sampled_from(INT_EDGES), st.integers(0, 2**256))).map(list)
    if cat == "bmssig":
        return st.one_of(st.tuples(st.just("bmsobj"), st.integers(0, 255), st.sampled_from(INT_EDGES), st.sampled_from(INT_EDGES)).map(list), st.tuples(st.just("b64mut"), H.byte_muts(0, 3), H.text_muts(0, 2)).map(list), _address_spec())
    if cat == "bip322sig":
        return st.one_of(st.tuples(st.just("b322"), st.integers(0, 7), H.byte_muts(0, 3), H.text_muts(0, 2)).map(list), st.tuples(st.just("b64mut"), H.byte_muts(0, 3), H.text_muts(0, 2)).map(list), _address_spec())
    if cat == "address":
        return _address_spec()
    if cat == "int":
        return _int_spec()
    if cat == "bool":
        return st.tuples(st.just("bool"), st.booleans()).map(list)
    if cat == "flags":
        return st.tuples(st.just("flags"), st.integers(0, 2**21 - 1)).map(list)
    if cat == "point":
        return _point_spec()
    if cat == "context":
        return st.tuples(st.just("text"), st.sampled_from(("P2WSH", "tapscript", "TAPSCRIPT", "", "p2wsh", "P2SH", "x", "\x00", "P2WSH "))).map(list)
    if cat == "borsig":
        return st.one_of(st.tuples(st.just("borobj"), st.lists(st.lists(st.sampled_from(INT_EDGES), max_size=3), max_size=3), st.integers(0, 40)).map(list), _octets_spec())
    if cat == "rings":
        return st.tuples(st.just("rings"), st.lists(st.lists(_point_spec(), max_size=3), max_size=3)).map(list)
    raise KeyError(cat)


def _form(b: bytes, form: str):
    if form == "bytes":
        return b
    if form == "hex":
        return b.hex()
    if form == "HEX":
        return b.hex().upper()
    if form == "hex ":
        return " " + b.hex() + "\n"
    if form == "bytearray":
        return bytearray(b)
    return memoryview(b)


def _as_bytes(valid) -> bytes:
    if isinstance(valid, (bytes, bytearray, memoryview)):
        return bytes(valid)
    if isinstance(valid, str):
        try:
            return bytes.fromhex(valid)
        except ValueError:
            return valid.encode()
    if hasattr(valid, "serialize"):
        return valid.serialize()
    if isinstance(valid, tuple) and len(valid) == 2 and all(isinstance(c, int) for c in valid):
        return bytes([2 + (valid[1] & 1)]) + valid[0].to_bytes(32, "big")
    return b""


def build_value(spec, valid):
    """the Python value of a spec; `valid` is the value the position holds in the call that answers True"""
    t = spec[0]
    if t == "mut":
        return _form(H.apply_bytes(_as_bytes(valid), spec[2], S.SPLICE_POOL[3]), spec[1])
    if t == "raw":
        return _form(bytes.fromhex(spec[2]), spec[1])
    if t == "text":
        return spec[1]
    if t == "int":
        return spec[1]
    if t == "bool":
        return spec[1]
    if t == "flags":
        return ScriptFlag(spec[1])
    if t == "point":
        return (spec[1], spec[2])
    if t == "onpoint":
        x, y = S._pub(spec[1])
        return [(x, y), (x, P - y), (x, (y + 1) % P), (P + x, y)][spec[2]]
    if t == "sec":
        style, secret = spec[1], spec[2]
        x, y = S._pub(secret)
        xb, yb = x.to_bytes(32, "big"), y.to_bytes(32, "big")
        raw = [
            bytes([2 + (y & 1)]) + xb, b"\x04" + xb + yb, xb, bytes([6 + (y & 1)]) + xb + yb,  # valid compressed / uncompressed / x-only / hybrid
            bytes([3 - (y & 1)]) + xb,  # the other root: a valid key that is not this one
            b"\x02" + P.to_bytes(32, "big"),  # x >= p
            b"\x02" + (5).to_bytes(32, "big"),  # x = 5 is not on secp256k1
            b"\x04" + xb + ((y + 1) % P).to_bytes(32, "big"),  # not on the curve
        ][style]
        return _form(raw, spec[3])
    if t == "xkey":
        text = S.CORPUS["xkeys"][spec[1] % len(S.CORPUS["xkeys"])]
        how = spec[2]
        if how == "str":
            return text
        if how == "bytes":
            return text.encode()
        raw = S.base58_ref.check_decode(text)
        if how == "mut":
            return S.base58_ref.check_encode(H.apply_bytes(raw, spec[3], S.SPLICE_POOL[2]))
        raw = H.apply_bytes(raw, spec[3], S.SPLICE_POOL[2])
        if len(raw) != 78:
            raw = (raw + bytes(78))[:78]
        return BIP32KeyData(raw[:4], raw[4], raw[5:9], int.from_bytes(raw[9:13], "big"), raw[13:45], raw[45:], check_validity=False)
    if t == "sigobj":
        cls = dsa.Sig if spec[1] == "dsa" else ssa.Sig
        return cls(spec[2], spec[3], check_validity=False)
    if t == "bmsobj":
        return bms.Sig(spec[1], dsa.Sig(spec[2], spec[3], check_validity=False), check_validity=False)
    if t == "b64mut":
        import base64

        raw = _as_bytes(valid) if not isinstance(valid, str) else b""
        if hasattr(valid, "b64encode"):
            text = valid.b64encode()
            prefix = text[:3] if isinstance(valid, bip322.Sig) else ""
            raw = base64.b64decode(text[len(prefix):])
        else:
            prefix = ""
        return H.apply_text(prefix + base64.b64encode(H.apply_bytes(raw, spec[1], S.SPLICE_POOL[4])).decode(), spec[2], "bc1q")
    if t == "b322":
        import base64

        text = S._bip322_sigs()[spec[1] % len(S._bip322_sigs())]
        raw = base64.b64decode(text[3:])
        return H.apply_text(text[:3] + base64.b64encode(H.apply_bytes(raw, spec[2], S.SPLICE_POOL[4])).decode(), spec[3], "smp")
    if t == "tmut":
        base = valid if isinstance(valid, str) else valid.b64encode() if hasattr(valid, "b64encode") else bytes(valid).decode("latin-1") if isinstance(valid, (bytes, bytearray, memoryview)) else ""
        text = H.apply_text(base, spec[2], "bc1qw508d6qejxtdg4y5r3zarvary0c5xw7kv8f3t4")
        return text if spec[1] == "str" else text.encode("utf-8", "surrogatepass")
    if t == "corpus":
        pool = S.CORPUS[spec[1]]
        text = H.apply_text(pool[spec[2] % len(pool)], spec[4], "1BvBMSEYstWetqTFn5Au4m4GFg7xJaNVN2")
        return text if spec[3] == "str" else text.encode("utf-8", "surrogatepass")
    if t == "list":
        items = valid if isinstance(valid, (list, tuple)) else []
        return [build_value(s, items[i % len(items)] if items else b"") for i, s in enumerate(spec[1])]
    if t == "listmut":
        items = list(valid) if isinstance(valid, (list, tuple)) else []
        how = spec[1]
        if how == 0:
            return items[:-1]
        if how == 1:
            return items + items[:1]
        if how == 2 and items:
            return [build_value(spec[2], items[0])] + items[1:]
        if how == 3 and items:
            return items[:-1] + [build_value(spec[2], items[-1])]
        if how == 4:
            return tuple(items[::-1])
        return [build_value(spec[2], items[0] if items else b"")] * 3
    if t == "borobj":
        rings = [[v for v in ring] for ring in spec[1]]
        return borromean.BorromeanSig(S.expand(spec[2], 32 if spec[2] % 5 else spec[2]), rings, secp256k1, check_validity=False)
    if t == "rings":
        return [[build_value(k, b"") for k in ring] for ring in spec[1]]
    raise KeyError(t)


@st.composite
def predicate_case(draw):
    name = draw(st.sampled_from(TABLE_NAMES))
    cats = _table()[name][2]
    k = draw(st.integers(0, 9))
    positions = list(range(len(cats))) if k == 0 else sorted(set(draw(st.lists(st.integers(0, len(cats) - 1), min_size=1, max_size=2))))
    return {"pred": name, "subs": [[p, draw(spec_strategy(cats[p]))] for p in positions], "backend": draw(st.booleans())}
