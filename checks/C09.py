"""C09 — signature hashes equal the legacy, BIP143 and BIP341 definitions."""

from __future__ import annotations

import json
import os

from hypothesis import strategies as st

from btclib.exceptions import BTClibTypeError, BTClibValueError
from btclib.script import sig_hash
from vlib import build
from vlib.gens import common as g
from vlib.models import sighash_ref as ref
from vlib.models import tx_ref
from vlib.runner import VERIF, HarnessError, Outcome, SubCheck, Violation

PROPERTY = "C09"
LEVEL = "exploration"
RULE = (
    "Hypothesis-generated transactions/script codes/hash types; oracle = independent transcription of "
    "Core's SignatureHash / BIP143 / BIP341 (vlib/models/sighash_ref.py), validated at start on Core's sighash.json."
)
ASSUMPTIONS = [
    "sighash_ref transcribes Core/BIP143/BIP341 correctly (validated on the 500 Core legacy vectors, BIP143 and BIP341 examples)",
    "for a script code ending in a push that cannot be read (no consensus path observes its digest: such a script never verifies) the definitions part ways -- FindAndDelete keeps the tail verbatim, Core's "
    "SerializeScriptCode since 0.14 stops after the push's length bytes: either digest, or a refusal, is accepted there (about 4% of the script codes)",
    "a hash type with bit 31 set has an int32 and a uint32 spelling: the library is asked under both, must answer under at least one, and whatever it answers is the model's digest; "
    "an amount outside 0..21e14 may be refused (BIP143 is silent on the sign of the 8 bytes), and what is answered for it is the model's digest",
    "the model's legacy path is validated on Core's 500 sighash.json vectors, its BIP143 path on one BIP143 example (P2WPKH, ALL) and its BIP341 path on two of the BIP's key-path vectors: the other branches (ANYONECANPAY, NONE, annex, script path) "
    "are an independent transcription checked against the library only",
]


def validate_models() -> None:
    path = os.path.join(VERIF, "vectors/sig_hash_legacy_test_vectors.json")
    d = json.load(open(path))[1:]
    for raw, script, idx, ht, res in d:
        tx = tx_ref.parse(bytes.fromhex(raw))
        if tx_ref.serialize(tx).hex() != raw:
            raise HarnessError("tx_ref round trip")
        if ref.legacy(bytes.fromhex(script), tx, idx, ht)[::-1].hex() != res:
            raise HarnessError("sighash_ref.legacy disagrees with Core vector")
    # BIP143 native P2WPKH example
    raw = "0100000002fff7f7881a8099afa6940d42d1e7f6362bec38171ea3edf433541db4e4ad969f0000000000eeffffffef51e1b804cc89d182d279655c3aa89e815b1b309fe287d9b2b55d57b90ec68a0100000000ffffffff02202cb206000000001976a9148280b37df378db99f66f85c95a783a76ac7a6d5988ac9093510d000000001976a9143bde42dbee7e4dbe6a21b2d50ce2f0167faa815988ac11000000"
    tx = tx_ref.parse(bytes.fromhex(raw))
    sc = bytes.fromhex("76a9141d0f172a0ecb48aee1be1f2687d2963ae33f71a188ac")
    if ref.segwit_v0(sc, tx, 1, 1, 600000000).hex() != "c37af31116d1b27caf68aae9e3ac82f1477929014d5b917657d0eb49478cb670":
        raise HarnessError("sighash_ref.segwit_v0 disagrees with BIP143 example")
    # BIP341 wallet-test-vectors keyPathSpending input 0 (sigHash for hashType 3)
    raw = "02000000097de20cbff686da83a54981d2b9bab3586f4ca7e48f57f5b55963115f3b334e9c010000000000000000d7b7cab57b1393ace2d064f4d4a2cb8af6def61273e127517d44759b6dafdd990000000000fffffffff8e1f583384333689228c5d28eac13366be082dc57441760d957275419a418420000000000fffffffff0689180aa63b30cb162a73c6d2a38b7eeda2a83ece74310fda0843ad604853b0100000000feffffffaa5202bdf6d8ccd2ee0f0202afbbb7461d9264a25e5bfd3c5a52ee1239e0ba6c0000000000feffffff956149bdc66faa968eb2be2d2faa29718acbfe3941215893a2a3446d32acd050000000000000000000e664b9773b88c09c32cb70a2a3e4da0ced63b7ba3b22f848531bbb1d5d5f4c94010000000000000000e9aa6b8e6c9de67619e6a3924ae25696bb7b694bb677a632a74ef7eadfd4eabf0000000000ffffffffa778eb6a263dc090464cd125c466b5a99667720b1c110468831d058aa1b82af10100000000ffffffff0200ca9a3b000000001976a91406afd46bcdfd22ef94ac122aa11f241244a37ecc88ac807840cb0000000020ac9a87f5594be208f8532db38cff670c450ed2fea8fcdefcc9a663f78bab962b0065cd1d"
    tx = tx_ref.parse(bytes.fromhex(raw))
    spent = [
        ("512053a1f6e454df1aa2776a2814a721372d6258050de330b3c6d10ee8f4e0dda343", 420000000),
        ("5120147c9c57132f6e7ecddba9800bb0c4449251c92a1e60371ee77557b6620f3ea3", 462000000),
        ("76a914751e76e8199196d454941c45d1b3a323f1433bd688ac", 294000000),
        ("5120e4d810fd50586274face62b8a807eb9719cef49c04177cc6b76a9a4251d5450e", 504000000),
        ("512091b64d5324723a985170e4dc5a0f84c041804f2cd12660fa5dec09fc21783605", 630000000),
        ("00147dd65592d0ab2fe0d0257d571abf032cd9db93dc", 378000000),
        ("512075169f4001aa68f15bbed28b218df1d0a62cbbcf1188c6665110c293c907b831", 672000000),
        ("5120712447206d7a5238acc7ff53fbe94a3b64539ad291c7cdbc490b7577e4b17df5", 546000000),
        ("512077e30a5522dd9f894c3f8b8bd4c4b2cf82ca7da8a3ea6a239655c39c050ab220", 588000000),
    ]
    sp = [{"spk": s, "value": v} for s, v in spent]
    if ref.taproot(tx, 0, sp, 3).hex() != "2514a6272f85cfa0f45eb907fcb0d121b808ed37c6ea160a5a9046ed5526d555":
        raise HarnessError("sighash_ref.taproot disagrees with BIP341 vector (input 0)")
    if ref.taproot(tx, 4, sp, 0).hex() != "4f900a0bae3f1446fd48490c2958b5a023228f01661cda3496a11da502a7f7ef":
        raise HarnessError("sighash_ref.taproot disagrees with BIP341 vector (input 4)")


def hash_type32():
    return st.one_of(
        st.sampled_from([1, 2, 3, 0x81, 0x82, 0x83, 0, 4, 0x1F, 0x21, 0x41, 0xE3, 0x84, 0x80, 2**31, 2**32 - 1, 0x101, 0x102, 0x103]),
        st.integers(0, 2**32 - 1),
        st.integers(-(2**31), -1),
    )


def _lib(f, *a, **k):
    """('ok', bytes) or ('refused',)"""
    try:
        return ("ok", f(*a, **k))
    except (BTClibValueError, BTClibTypeError):
        return ("refused",)


def _separators(sc: bytes) -> int:
    """OP_CODESEPARATORs at opcode boundaries (a 0xab inside a push is data)"""
    return sum(1 for op, _, _ in ref.script_ops(sc) if op == 0xAB)


def _tags(tx, ht, sc=b""):
    t = [f"base{ht & 0x1F if ht & 0x1F in (1, 2, 3) else 'other'}", "acp" if ht & 0x80 else "noacp"]
    if _separators(sc):
        t.append("codesep")
    if ref.is_truncated(sc):
        t.append("truncated-script-code")
    return tuple(t)


def _spellings(ht: int) -> list[int]:
    """the int32 and the uint32 spelling of a 32-bit hash type word (one and the same below 2^31)"""
    w = ht & 0xFFFFFFFF
    return [w] if w < 2**31 else [w, w - 2**32]


def _judge(call, accepted: list, amount_in_range: bool = True):
    """Ask the library under every spelling of the hash type. Whatever digest it answers is one of `accepted`; it answers under at least one
    spelling (Core's nHashType is an int32, its test vectors write it signed, a caller reading four bytes off the wire has it unsigned: a
    library may take both or either); an amount outside the money range may be refused. -> None or (what, detail)"""
    outcomes = [(ht, _lib(call, ht)) for ht in call.spellings]
    for ht, got in outcomes:
        if got[0] == "ok" and got[1] not in accepted:
            return "digest", f"hash_type={ht}: lib={got[1].hex()} ref={[a.hex() for a in accepted]}"
    if all(got[0] == "refused" for _, got in outcomes) and call.must_answer and amount_in_range:
        return "refused", f"hash_type spellings {call.spellings} all refused; ref={[a.hex() for a in accepted]}"
    return None


class _Call:
    def __init__(self, fn, spellings, must_answer=True):
        self.fn, self.spellings, self.must_answer = fn, spellings, must_answer

    def __call__(self, ht):
        return self.fn(ht)


# ---------- legacy ----------
@st.composite
def legacy_case(draw):
    tx = draw(g.tx_case(witness=False))
    return {
        "tx": tx,
        "idx": draw(st.integers(0, len(tx["vin"]) - 1)),
        "script_code": draw(g.script_code()),
        "hash_type": draw(hash_type32()),
    }


def check_legacy(case):
    txd, idx, ht = case["tx"], case["idx"], case["hash_type"]
    sc = bytes.fromhex(case["script_code"])
    tx = build.tx(txd, False)
    truncated = ref.is_truncated(sc)
    # a script code ending in a push that cannot be read never verifies, and the definitions of its digest differ (FindAndDelete keeps the tail, Core's
    # serializer since 0.14 stops after the push's length bytes): either digest, or a refusal, is right there
    accepted = [ref.legacy(sc, txd, idx, ht)] + ([ref.legacy(sc, txd, idx, ht, tail="core")] if truncated else [])
    bad = _judge(_Call(lambda h: sig_hash.legacy(sc, tx, idx, h), _spellings(ht), must_answer=not truncated), accepted)
    if bad:
        base = ht & 0x1F
        raise Violation(
            f"legacy:mismatch:{bad[0]}:base={base if base in (1,2,3) else 'other'}:acp={bool(ht & 0x80)}:single_oob={base == 3 and idx >= len(txd['vout'])}:truncated={truncated}",
            bad[1],
        )
    nt = len(txd["vin"]) >= 2 or (ht & 0x1F) != 1 or bool(ht & 0x80) or _separators(sc) > 0
    return Outcome(nt, _tags(txd, ht, sc))


# ---------- segwit v0 ----------
@st.composite
def segwit_case(draw):
    tx = draw(g.tx_case())
    return {
        "tx": tx,
        "idx": draw(st.integers(0, len(tx["vin"]) - 1)),
        "script_code": draw(g.script_code()),
        "hash_type": draw(hash_type32()),
        "amount": draw(st.one_of(g.amount(), st.sampled_from([2**63 - 1, -1, -(2**63)]))),
        "precomputed": draw(st.booleans()),
    }


def check_segwit(case):
    txd, idx, ht = case["tx"], case["idx"], case["hash_type"]
    sc = bytes.fromhex(case["script_code"])
    tx = build.tx(txd, False)
    want = ref.segwit_v0(sc, txd, idx, ht, case["amount"])
    pre = None
    if case["precomputed"]:
        pre = sig_hash.PrecomputedTxData(tx, [build.tx_out({"value": 0, "spk": ""}, check_validity=False) for _ in txd["vin"]])
    in_range = 0 <= case["amount"] <= 21 * 10**14  # BIP143 hashes the 8 bytes of the amount and says nothing of its sign: outside the money range a refusal is as good
    bad = _judge(_Call(lambda h: sig_hash.segwit_v0(sc, tx, idx, h, case["amount"], pre), _spellings(ht)), [want], in_range)
    if bad:
        raise Violation(
            f"segwit_v0:mismatch:{bad[0]}:base={ht & 0x1F if ht & 0x1F in (1,2,3) else 'other'}:acp={bool(ht & 0x80)}:pre={case['precomputed']}:amount-in-range={in_range}",
            bad[1],
        )
    nt = len(txd["vin"]) >= 2 or (ht & 0x1F) != 1 or bool(ht & 0x80)
    return Outcome(nt, _tags(txd, ht, sc) + (("pre",) if pre else ()))


# ---------- taproot ----------
@st.composite
def taproot_case(draw):
    tx = draw(g.tx_case())
    n = len(tx["vin"])
    spent = [{"value": draw(g.amount()), "spk": draw(st.one_of(g.hexbytes(0, 40), st.just("5120" + "11" * 32)))} for _ in range(n)]
    scriptpath = draw(st.booleans())
    return {
        "tx": tx,
        "idx": draw(st.integers(0, n - 1)),
        "spent": spent,
        "hash_type": draw(st.one_of(st.sampled_from(list(ref.TAPROOT_VALID)), st.sampled_from(list(ref.TAPROOT_VALID)), st.sampled_from(list(ref.TAPROOT_VALID)), st.sampled_from([4, 0x80, 0x84, 0x41, 0xFF, 0x100, 0x101, -1]))),
        "annex": draw(st.one_of(st.none(), st.binary(min_size=0, max_size=20).map(lambda b: (b"\x50" + b).hex()))),
        "scriptpath": scriptpath,
        "leaf_hash": draw(g.hex32()) if scriptpath else "",
        "codesep_pos": draw(st.one_of(st.just(0xFFFFFFFF), st.integers(0, 300), g.u32())) if scriptpath else 0xFFFFFFFF,
        "precomputed": draw(st.booleans()),
    }


def check_taproot(case):
    txd, idx, ht = case["tx"], case["idx"], case["hash_type"]
    tx = build.tx(txd, False)
    spent = [build.tx_out(s, check_validity=False) for s in case["spent"]]
    annex = None if case["annex"] is None else bytes.fromhex(case["annex"])
    ext = b""
    if case["scriptpath"]:
        ext = bytes.fromhex(case["leaf_hash"]) + b"\x00" + case["codesep_pos"].to_bytes(4, "little")
    want = ref.taproot(
        txd, idx, case["spent"], ht, annex=annex, scriptpath=case["scriptpath"],
        leaf_hash=bytes.fromhex(case["leaf_hash"]), codeseparator_pos=case["codesep_pos"],
    )
    pre = sig_hash.PrecomputedTxData(tx, spent) if case["precomputed"] else None
    got = _lib(sig_hash.taproot, tx, idx, spent, ht, int(case["scriptpath"]), annex or b"", ext, pre)
    exp = ("refused",) if want is None else ("ok", want)
    if got != exp:
        raise Violation(
            f"taproot:mismatch:ht={ht if ht in ref.TAPROOT_VALID else 'undefined'}:annex={annex is not None}:script={case['scriptpath']}:pre={case['precomputed']}",
            f"lib={got} ref={exp}",
        )
    return Outcome(want is not None and (len(txd["vin"]) >= 2 or ht not in (0, 1)), (f"ht{ht:#x}" if want else "refused", "annex" if annex else "noannex", "script" if case["scriptpath"] else "key"))


# ---------- dispatch: from_tx ----------
KINDS = ["p2pk", "p2pkh", "bare", "p2sh", "p2wpkh", "p2wsh", "p2sh_p2wpkh", "p2sh_p2wsh", "p2tr_key", "p2tr_script"]


def _h160(b):
    import hashlib
    return hashlib.new("ripemd160", hashlib.sha256(b).digest()).digest()


def _sha(b):
    import hashlib
    return hashlib.sha256(b).digest()


@st.composite
def dispatch_case(draw):
    tx = draw(g.tx_case(max_in=4, witness=False))
    n = len(tx["vin"])
    idx = draw(st.integers(0, n - 1))
    kind = draw(st.sampled_from(KINDS))
    script = draw(g.script_code(truncated_ok=False))  # inner script (redeem / witness / leaf / bare)
    spent = [{"value": draw(g.amount()), "spk": draw(g.hexbytes(0, 30))} for _ in range(n)]
    # other inputs must have valid prevouts for taproot commitments: anything goes
    # which separator the script code starts after: reduced at check time to 0 .. (separators in the script) + 1, so that most choices name one that exists
    codesep_index = 0
    if kind in ("bare", "p2sh", "p2wsh", "p2sh_p2wsh") and draw(st.booleans()):
        codesep_index = draw(st.integers(1, 12))
    ht_legacy = draw(hash_type32())
    ht_tap = draw(st.sampled_from(list(ref.TAPROOT_VALID)))
    return {
        "tx": tx, "idx": idx, "kind": kind, "script": script, "spent": spent,
        "key": draw(g.hexbytes(33, 33)), "codesep_index": codesep_index,
        "hash_type": ht_tap if kind.startswith("p2tr") else ht_legacy,
        "annex": draw(st.one_of(st.none(), st.just("50aa"))),
        "leaf_version": draw(st.sampled_from([0xC0, 0xC1, 0xC2, 0x66])),
        "control_tail": draw(g.hexbytes(32, 64)),
        "precomputed": draw(st.booleans()),
    }


def _nth_codesep_tail(script: bytes, k: int):
    if k == 0:
        return script
    found = 0
    for op, start, stop in ref.script_ops(script):
        if op == 0xAB:
            found += 1
            if found == k:
                return script[stop:]
    return None


def check_dispatch(case):
    txd = json.loads(json.dumps(case["tx"]))
    idx, kind, ht = case["idx"], case["kind"], case["hash_type"]
    script = bytes.fromhex(case["script"])
    key = bytes.fromhex(case["key"])
    spent = json.loads(json.dumps(case["spent"]))
    amount = spent[idx]["value"]
    i = txd["vin"][idx]
    k = case["codesep_index"] % (_separators(script) + 2) if case["codesep_index"] else 0
    want = None  # None = refusal expected
    if kind == "p2pk":
        spk = g.push(key) + b"\xac"
        want = ref.legacy(spk, txd, idx, ht)
    elif kind == "p2pkh":
        spk = b"\x76\xa9\x14" + _h160(key) + b"\x88\xac"
        want = ref.legacy(spk, txd, idx, ht)
    elif kind == "bare":
        spk = script
        if spk[:1] in (b"\x00", b"\x51") and len(spk) in (22, 34) or (len(spk) == 23 and spk[:2] == b"\xa9\x14" and spk[-1:] == b"\x87"):
            return Outcome(False, ("skipped-lookalike",))
        # a generated bare script that happens to be a witness program / p2sh is another kind
        if 4 <= len(spk) <= 42 and spk[0] in (0, *range(0x51, 0x61)) and spk[1] == len(spk) - 2:
            return Outcome(False, ("skipped-lookalike",))
        tail = _nth_codesep_tail(spk, k)
        want = None if tail is None else ref.legacy(tail, txd, idx, ht)
    elif kind == "p2sh":
        spk = b"\xa9\x14" + _h160(script) + b"\x87"
        i["script_sig"] = (g.push(b"\x01\x02") + g.push(script)).hex()
        if 4 <= len(script) <= 42 and script[0] in (0, *range(0x51, 0x61)) and script[1] == len(script) - 2:
            return Outcome(False, ("skipped-lookalike",))
        if not script:
            return Outcome(False, ("skipped-empty-redeem",))
        tail = _nth_codesep_tail(script, k)
        want = None if tail is None else ref.legacy(tail, txd, idx, ht)
    elif kind in ("p2wpkh", "p2sh_p2wpkh"):
        prog = b"\x00\x14" + _h160(key)
        spk = prog
        if kind == "p2sh_p2wpkh":
            spk = b"\xa9\x14" + _h160(prog) + b"\x87"
            i["script_sig"] = g.push(prog).hex()
        if kind == "p2wpkh":
            i["script_sig"] = ""  # a native witness program is spent with an empty script_sig
        i["witness"] = ["3044", key.hex()]
        sc = b"\x76\xa9\x14" + _h160(key) + b"\x88\xac"
        want = ref.segwit_v0(sc, txd, idx, ht, amount)
    elif kind in ("p2wsh", "p2sh_p2wsh"):
        prog = b"\x00\x20" + _sha(script)
        spk = prog
        if kind == "p2sh_p2wsh":
            spk = b"\xa9\x14" + _h160(prog) + b"\x87"
            i["script_sig"] = g.push(prog).hex()
        if kind == "p2wsh":
            i["script_sig"] = ""
        i["witness"] = ["01", script.hex()]
        tail = _nth_codesep_tail(script, k)
        want = None if tail is None else ref.segwit_v0(tail, txd, idx, ht, amount)
    elif kind == "p2tr_key":
        spk = b"\x51\x20" + key[1:]
        i["script_sig"] = ""
        i["witness"] = ["aa" * 64] + ([case["annex"]] if case["annex"] else [])
        spent[idx]["spk"] = spk.hex()
        want = ref.taproot(txd, idx, spent, ht, annex=bytes.fromhex(case["annex"]) if case["annex"] else None)
    else:  # p2tr_script
        spk = b"\x51\x20" + key[1:]
        control = bytes([case["leaf_version"] | 1]) + bytes.fromhex(case["control_tail"])
        i["script_sig"] = ""
        i["witness"] = ["01", script.hex(), control.hex()] + ([case["annex"]] if case["annex"] else [])
        spent[idx]["spk"] = spk.hex()
        want = ref.taproot(
            txd, idx, spent, ht, annex=bytes.fromhex(case["annex"]) if case["annex"] else None, scriptpath=True,
            leaf_hash=ref.tapleaf_hash(case["leaf_version"] & 0xFE, script),
        )
    spent[idx]["spk"] = spk.hex()
    tx = build.tx(txd, False)
    prevouts = [build.tx_out(s, check_validity=False) for s in spent]
    pre = sig_hash.PrecomputedTxData(tx, prevouts) if case["precomputed"] else None
    if want is None:
        got = _lib(sig_hash.from_tx, prevouts, tx, idx, ht, pre, codesep_index=k)
        if got != ("refused",):
            raise Violation(f"dispatch:mismatch:kind={kind}:codesep={k > 0}:pre={case['precomputed']}", f"lib={got} ref=refused (the script has {_separators(script)} separators, asked for number {k})")
        return Outcome(False, (kind, "codesep-refused"))
    spell = [ht] if kind.startswith("p2tr") else _spellings(ht)
    bad = _judge(_Call(lambda h: sig_hash.from_tx(prevouts, tx, idx, h, pre, codesep_index=k), spell), [want])
    if bad:
        raise Violation(f"dispatch:mismatch:{bad[0]}:kind={kind}:codesep={k > 0}:pre={case['precomputed']}", bad[1])
    return Outcome(True, (kind, "codesep-ok" if k else "nocodesep"))


from checks import c09_psbt  # noqa: E402

SUBCHECKS = [
    SubCheck("legacy", check_legacy, "non-trivial: >=2 inputs, or non-ALL/ANYONECANPAY hash type, or a code separator in the script code", legacy_case, quick=10000, thorough=120000),
    SubCheck("segwit_v0", check_segwit, "non-trivial: >=2 inputs or non-ALL hash type", segwit_case, quick=9000, thorough=100000),
    SubCheck("taproot", check_taproot, "non-trivial: digest produced (hash type defined, SINGLE in range) for >=2 inputs or a non-default type", taproot_case, quick=9000, thorough=100000),
    SubCheck("psbt_paths", c09_psbt.check_psbt_sighash, "the digest through a PSBT (psbt.ecdsa_sig_hash / psbt.taproot_sig_hash) and through a streamed view of its bytes (PsbtView, inside a longer stream) == the model's for the transaction the "
             "PSBT describes: 1..3 inputs of the ten prevout kinds with their utxos (non-witness, witness or both), redeem / witness / leaf scripts, PSBT v0 and v2, built or re-parsed, the hash type in the input's field, passed by the caller or defaulted; "
             "non-trivial: both paths answered", c09_psbt.psbt_sighash_case, quick=3000, thorough=40000),
    SubCheck("dispatch", check_dispatch, "non-trivial: from_tx produced a digest for the generated prevout kind", dispatch_case, quick=9000, thorough=100000),
]
