"""C20 — nonces sign once, wiped signers stay dead, answers do not depend on history."""

from __future__ import annotations

import hashlib
import os

from hypothesis import strategies as st

import btclib
from btclib.bip32 import bip32
from btclib.bip32.bip32 import BIP32KeyData, derive, rootxprv_from_seed, xpub_from_xprv
from btclib.curves import curve as curve_mod
from btclib.curves import curve_group
from btclib.curves.curve import CURVES, double_mult_var, is_libsecp256k1_serving, mult, multi_mult_var, secp256k1, set_libsecp256k1_serving
from btclib.descriptors.descriptors import add_checksum
from btclib.descriptors.descriptors import parse as parse_descriptor
from btclib.ecc import dsa, musig2, ssa
from btclib.alias import INF
from btclib.exceptions import BTClibRuntimeError, BTClibTypeError, BTClibValueError
from btclib.hashes import reduce_to_hlen
from btclib.mnemonic import mnemonic as mnemonic_mod
from btclib.psbt import psbt as psbt_mod
from btclib.psbt.psbt import Psbt
from btclib.psbt_signer import SoftwareSigner
from btclib.wallet.descriptor_wallet import DescriptorWallet
from btclib.wallet.key_wallet import BIP32KeyWallet, KeyWallet
from btclib.wallet.script_wallet import KeyGroup, ScriptWallet
from vlib import determinism, worlds
from vlib.models import bip327_ref as m327
from vlib.models import ec_ref, fastec
from vlib.runner import HarnessError, Outcome, SubCheck, Violation
from vlib.sched import Scheduler

PROPERTY = "C20"
LEVEL = "exploration"
RULE = (
    "Generated call histories (op lists) on MuSig2 secret nonces, dsa/ssa Signer and SoftwareSigner objects and every ranged wallet kind, each against a small reference model "
    "checked after every step; pure calls evaluated after generated cache-filling / cache-clearing / backend-toggling prefixes; and 2..4 threads of pure calls interleaved by a "
    "harness-owned scheduler whose schedule is part of the case, compared with the same calls made sequentially."
)
ASSUMPTIONS = [
    "vlib/models/bip327_ref.py (BIP327 reference, validated on the BIP's vectors under C16) gives the partial signature a fresh nonce must produce",
    "concurrent mutation of ONE wallet / signer / secnonce object is outside the property (objects owned by one caller; nothing documents them thread-safe): threads share only caches, sessions, word lists and the backend flag",
    "the scheduler interleaves at line / opcode granularity inside the watched functions only; the C parts (lru_cache bookkeeping, bindings) are atomic under the GIL",
    "a wallet's address at a position is taken from a fresh wallet object of the same recipe (that it is the right address is C14's business)",
]
LIBEXC = (BTClibValueError, BTClibTypeError, BTClibRuntimeError)
N = fastec.N
ROOT = os.path.dirname(btclib.__file__)


def h(*parts) -> bytes:
    return hashlib.sha256(":".join(map(str, parts)).encode()).digest()


def scalar(*parts) -> int:
    return int.from_bytes(h(*parts), "big") % (N - 1) + 1


class backend:
    def __init__(self, serving):
        self.serving = bool(serving)

    def __enter__(self):
        self.prev = is_libsecp256k1_serving()
        set_libsecp256k1_serving(serving=self.serving)

    def __exit__(self, *a):
        set_libsecp256k1_serving(serving=self.prev)


# ---------------------------------------------------------------- 1. nonce_once
NONCE_OPS = ["gen", "sign", "sign", "sign", "sign-view", "sign-wrong-key", "sign-bad-session", "verify", "agg", "toggle", "copy-sign"]


@st.composite
def nonce_case(draw):
    n_signers = draw(st.integers(2, 3))
    n_sessions = draw(st.integers(1, 3))
    sessions = []
    for _ in range(n_sessions):
        sessions.append(
            {
                "msg": draw(st.binary(max_size=40)).hex(),
                "tweaks": draw(st.lists(st.tuples(st.integers(1, 2**64), st.booleans()).map(list), max_size=2)),
                "sort": draw(st.booleans()),
            }
        )
    ops = draw(
        st.lists(
            st.fixed_dictionaries({"op": st.sampled_from(NONCE_OPS), "signer": st.integers(0, n_signers - 1), "session": st.integers(0, n_sessions - 1), "nonce": st.integers(0, 5), "x": st.integers(0, 3)}),
            min_size=3,
            max_size=14,
        )
    )
    return {"seed": draw(st.integers(0, 2**32)), "n_signers": n_signers, "sessions": sessions, "ops": ops, "backend": draw(st.booleans())}


def check_nonce(case):
    keys = [scalar("sk", case["seed"], i) for i in range(case["n_signers"])]
    pks = [musig2.individual_pub_key(k) for k in keys]
    if pks != [m327.individual_pk(k) for k in keys]:
        raise Violation("nonce:individual_pub_key", "differs from the model")
    tags = set()
    # a session: every signer has one nonce per session made up front (round 1), so that the aggregate nonce exists
    worlds_ = []
    for si, s in enumerate(case["sessions"]):
        order = sorted(range(len(pks)), key=lambda i: pks[i]) if s["sort"] else list(range(len(pks)))
        pub_keys = [pks[i] for i in order]
        tweaks = [t.to_bytes(32, "big") for t, _ in s["tweaks"]]
        xonly = [x for _, x in s["tweaks"]]
        msg = bytes.fromhex(s["msg"])
        aggpk = m327.xbytes(m327.key_agg_and_tweak(pub_keys, tweaks, xonly)[0])
        nonces = []  # per signer: list of {"sec": bytearray, "orig": bytes, "pub": bytes, "state": fresh|dead, "signed": bool}
        for i in range(len(pks)):
            rand = h("rand", case["seed"], si, i, 0)
            sec, pub = musig2.nonce_gen_(rand, keys[i], pks[i], aggpk, msg, None)
            msec, mpub = m327.nonce_gen_internal(rand, keys[i].to_bytes(32, "big"), pks[i], aggpk, msg, None)
            if bytes(sec) != bytes(msec) or pub != mpub:
                raise Violation("nonce:nonce_gen-vs-model", f"session {si} signer {i}")
            if not isinstance(sec, bytearray):
                raise Violation("nonce:secnonce-not-a-bytearray", type(sec).__name__)
            nonces.append([{"sec": sec, "orig": bytes(sec), "pub": pub, "state": "fresh", "signed": False}])
        aggnonce = musig2.nonce_agg([nonces[i][0]["pub"] for i in range(len(pks))])
        ctx = musig2.SessionContext(aggnonce, pub_keys, tweaks, xonly, msg)
        worlds_.append({"ctx": ctx, "model_ctx": (aggnonce, tuple(pub_keys), tuple(tweaks), tuple(xonly), msg), "nonces": nonces, "aggpk": aggpk, "msg": msg, "pub_keys": pub_keys, "tweaks": tweaks, "xonly": xonly, "psigs": {}})
    prev = is_libsecp256k1_serving()
    set_libsecp256k1_serving(serving=case["backend"])
    try:
        for step, o in enumerate(case["ops"]):
            w = worlds_[o["session"]]
            i = o["signer"]
            pool = w["nonces"][i]
            nz = pool[o["nonce"] % len(pool)]
            kind = o["op"]
            if kind == "gen":
                rand = h("rand", case["seed"], o["session"], i, len(pool))
                sec, pub = musig2.nonce_gen_(rand, keys[i], pks[i], w["aggpk"], w["msg"], None)
                pool.append({"sec": sec, "orig": bytes(sec), "pub": pub, "state": "fresh", "signed": False, "foreign": True})
                tags.add("gen")
            elif kind == "toggle":
                set_libsecp256k1_serving(serving=not is_libsecp256k1_serving())
            elif kind == "verify":
                for j, ps in list(w["psigs"].items()):
                    ok = musig2.partial_sig_verify_(ps, w["nonces"][j][0]["pub"], pks[j], w["ctx"])
                    if ok is not True:
                        raise Violation("nonce:own-partial-signature-does-not-verify", f"step {step} signer {j}")
            elif kind == "agg":
                if len(w["psigs"]) == len(pks):
                    sig = musig2.partial_sig_agg([w["psigs"][j] for j in range(len(pks))], w["ctx"])
                    want = m327.partial_sig_agg([w["psigs"][j] for j in range(len(pks))], w["model_ctx"])
                    if sig.serialize() != want:
                        raise Violation("nonce:aggregate-vs-model", f"step {step}")
                    tags.add("aggregated")
            else:
                # a signing attempt with this bytearray
                before = bytes(nz["sec"])
                ctx = w["ctx"]
                key = keys[i]
                if kind == "sign-wrong-key":
                    key = keys[(i + 1) % len(keys)]
                if kind == "sign-bad-session":
                    bad = [b"\x02" + bytes(31) + b"\x05" + w["ctx"].agg_nonce[33:], w["ctx"].agg_nonce][0]  # x = 5 is no point of secp256k1
                    try:
                        ctx = musig2.SessionContext(bad, w["pub_keys"], w["tweaks"], w["xonly"], w["msg"]) if o["x"] % 2 == 0 else musig2.SessionContext(w["ctx"].agg_nonce, w["pub_keys"], [*w["tweaks"], N.to_bytes(32, "big")], [*w["xonly"], True], w["msg"])
                    except LIBEXC:
                        # a context that refuses to be made of an aggregate nonce that is no point, or of a tweak equal to n: no signing attempt, the nonce is as it was
                        if bytes(nz["sec"]) != before:
                            raise Violation("nonce:touched-by-a-context-that-was-never-made", f"step {step}") from None
                        tags.add("bad-session-refused-at-construction")
                        continue
                arg = nz["sec"]
                if kind == "copy-sign":
                    # the caller's forbidden copy is not protected and not modelled; the copy is a different bytearray, spent on its own
                    arg = bytearray(nz["orig"]) if nz["state"] == "fresh" and not nz.get("copied") else nz["sec"]
                    if arg is not nz["sec"]:
                        nz["copied"] = True
                        try:
                            musig2.sign(arg, key, ctx)
                        except LIBEXC:
                            pass
                        if bytes(arg[:64]) != bytes(64):
                            raise Violation("nonce:copy-not-zeroed-after-use", f"step {step}")
                        # signing with a copy spends the nonce value: the model never uses the original of a copied nonce for a returned signature again
                        nz["state"] = "dead-by-copy"
                        nz["sec"][:64] = bytes(64)
                        tags.add("copy")
                        continue
                if kind == "sign-view":
                    # the caller's bytearray seen through a writable memoryview: the same memory, so the same nonce
                    arg = memoryview(nz["sec"])
                try:
                    out = musig2.sign(arg, key, ctx)
                    err = None
                except LIBEXC as e:
                    out, err = None, e
                after = bytes(nz["sec"])
                if kind == "sign-view" and isinstance(err, BTClibTypeError) and after == before:
                    # sign() declares a bytearray: a view of one may be refused as not of the declared type, and then nothing was read or spent
                    tags.add("view-refused-by-type")
                    continue
                if nz["state"] != "fresh":
                    tags.add("sign-after-copy" if nz["state"] == "dead-by-copy" else "sign-after-spent")
                    if out is not None:
                        raise Violation("nonce:signed-twice-with-one-nonce", f"step {step}: a spent secnonce produced the partial signature {out.hex()} (first use: {nz['state']})")
                    if after[:64] != bytes(64):
                        raise Violation("nonce:spent-nonce-no-longer-zero", f"step {step}")
                    continue
                if kind == "sign-bad-session":
                    if out is not None:
                        raise Violation("nonce:signed-in-a-session-that-does-not-assemble", f"step {step}")
                    # untouched (what the docstring says) or burnt (safer still): the model follows what it sees; a half-written nonce is neither
                    if after[:64] == bytes(64) and before[:64] != bytes(64):
                        nz["state"] = f"spent@{step}:{kind}"
                        tags.add("bad-session-burns-nonce")
                    elif after != before:
                        raise Violation("nonce:half-written-after-refusal", f"step {step}")
                    else:
                        tags.add("bad-session-keeps-nonce")
                    continue
                if kind == "sign-wrong-key":
                    # no signature is made; whether the attempt burns the nonce is the library's choice (it does: read-then-zero),
                    # the model follows what it sees: zeroed = spent, untouched = still fresh
                    if out is not None:
                        raise Violation("nonce:signed-with-a-key-the-nonce-was-not-made-for", f"step {step}")
                    if after[:64] == bytes(64):
                        nz["state"] = f"spent@{step}:{kind}"
                        tags.add("wrong-key-burns-nonce")
                    elif after != before:
                        raise Violation("nonce:half-written-after-refusal", f"step {step}")
                    continue
                # a partial signature is about to be judged: from here on the nonce must be dead
                if after[:64] != bytes(64) and out is not None:
                    raise Violation("nonce:not-zeroed-after-signing", f"step {step} kind {kind}")
                if after[64:] not in (before[64:], bytes(len(before) - 64)):  # the key the nonce was made for stays, or is wiped with the rest
                    raise Violation("nonce:public-key-part-changed", f"step {step}")
                nz["state"] = f"spent@{step}:{kind}"
                mine = nz is pool[0]
                try:
                    want = m327.sign(nz["orig"], keys[i], w["model_ctx"], self_check=False)
                except ValueError as e:
                    raise HarnessError(f"model refuses a fresh nonce: {e}")
                if out is None:
                    raise Violation("nonce:fresh-nonce-refused", f"step {step}: {type(err).__name__}: {err}")
                if out != want:
                    raise Violation("nonce:partial-signature-vs-model", f"step {step}: {out.hex()} vs {want.hex()}")
                nz["signed"] = True
                if mine:
                    w["psigs"][i] = out
                tags.add("signed")
    finally:
        set_libsecp256k1_serving(serving=prev)
    return Outcome("sign-after-spent" in tags, tuple(sorted(tags)) + (f"backend={case['backend']}",))


# ---------------------------------------------------------------- 2. signers
SIGNER_OPS = ["sign", "sign_", "sign", "sign_", "wipe", "exit", "enter", "toggle", "sign-bad"]
CURVE_HF = [("secp256k1", "sha256"), ("secp256k1", "sha256"), ("secp256k1", "sha1"), ("secp256r1", "sha256"), ("secp112r1", "sha256"), ("secp256k1", "sha512")]


@st.composite
def signer_case(draw):
    ops = draw(st.lists(st.fixed_dictionaries({"op": st.sampled_from(SIGNER_OPS), "msg": st.binary(max_size=40).map(bytes.hex), "flag": st.booleans()}), min_size=2, max_size=12))
    return {"kind": draw(st.sampled_from(["dsa", "ssa"])), "curve_hf": draw(st.integers(0, len(CURVE_HF) - 1)), "key": draw(st.integers(1, 2**256)), "ops": ops, "backend": draw(st.booleans())}


def check_signer(case):
    ec_name, hf_name = CURVE_HF[case["curve_hf"]]
    ec = CURVES[ec_name]
    hf = getattr(hashlib, hf_name)
    key = case["key"] % (ec.n - 1) + 1
    mod = dsa if case["kind"] == "dsa" else ssa
    if case["kind"] == "ssa" and ec.p % 4 != 3:
        ec = secp256k1
    tags = set()
    prev = is_libsecp256k1_serving()
    set_libsecp256k1_serving(serving=case["backend"])
    try:
        signer = mod.Signer(key, ec, hf)
        dead = False
        for step, o in enumerate(case["ops"]):
            kind = o["op"]
            msg = bytes.fromhex(o["msg"])
            if kind == "toggle":
                set_libsecp256k1_serving(serving=not is_libsecp256k1_serving())
                tags.add("toggle")
                continue
            if kind == "wipe":
                signer.wipe()
                dead = True
                continue
            if kind == "exit":
                signer.__exit__(None, None, None)
                dead = True
                continue
            if kind == "enter":
                if signer.__enter__() is not signer:
                    raise Violation("signer:enter-returns-another-object", case["kind"])
                continue
            prepared = kind in ("sign_", "sign-bad")
            data = reduce_to_hlen(msg, hf) if prepared else msg
            if kind == "sign-bad" and case["kind"] == "dsa":
                data = data + b"\x00"  # wrong length for a prepared hash: refused alive or dead
            aux = h("aux", step)[: hf().digest_size].ljust(hf().digest_size, b"\x00")
            try:
                if case["kind"] == "dsa":
                    out = (signer.sign_ if prepared else signer.sign)(data, grind=o["flag"])
                else:
                    out = (signer.sign_ if prepared else signer.sign)(data, aux)
                err = None
            except LIBEXC as e:
                out, err = None, e
            if dead:
                tags.add("sign-after-wipe")
                if out is not None:
                    raise Violation(f"signer:{case['kind']}-signed-after-wipe", f"step {step} op {kind}: {out.hex()[:40]}")
                continue
            if kind == "sign-bad" and case["kind"] == "dsa":
                if out is not None:
                    raise Violation("signer:wrong-size-hash-signed", f"{len(data)} bytes")
                continue
            # alive: the answer is the stateless function's
            if case["kind"] == "dsa":
                want = (dsa.sign_ if prepared else dsa.sign)(data, key, None, True, ec, hf, grind=o["flag"]).serialize() if prepared else dsa.sign(data, key, None, True, ec, hf, grind=o["flag"]).serialize()
            else:
                want = (ssa.sign_(data, key, aux, ec, hf) if prepared else ssa.sign(data, key, aux, ec, hf)).serialize()
            if out is None:
                raise Violation(f"signer:{case['kind']}-alive-signer-refused", f"step {step}: {type(err).__name__}: {err}")
            if out != want:
                raise Violation(f"signer:{case['kind']}-differs-from-stateless-sign", f"step {step} op {kind} ec {ec_name} hf {hf_name}: {out.hex()[:60]} vs {want.hex()[:60]}")
            tags.add("signed-alive")
    finally:
        set_libsecp256k1_serving(serving=prev)
    return Outcome("sign-after-wipe" in tags, tuple(sorted(tags)) + (case["kind"], ec_name, hf_name, f"backend={case['backend']}"))


# ---- SoftwareSigner
SOFT_OPS = ["xpub", "sign_psbt", "sign_psbt", "sign_message", "display", "close", "close", "psbt.sign", "psbt.sign", "key_manager", "key_manager", "fingerprint", "capabilities"]


@st.composite
def software_case(draw):
    which = draw(st.integers(0, 2))
    ops = draw(st.lists(st.fixed_dictionaries({"op": st.sampled_from(SOFT_OPS), "x": st.integers(0, 5)}), min_size=2, max_size=10))
    world = draw(worlds.world_case(max_inputs=2, kinds=["pkh", "wpkh", "sh_wpkh", "tr_key", "multi_wsh", "tr_script_pk"]))
    return {"ops": ops, "world": world, "which": which}


def _sig_count(psbt: Psbt) -> int:
    return sum(len(i.partial_sigs) + (1 if i.taproot_key_spend_signature else 0) + len(i.taproot_script_spend_signatures) for i in psbt.inputs)


def _comparable(psbt: Psbt):
    """What two answers to one signing request must share: the psbt with every BIP340 signature taken out (they are randomized by design: auxiliary
    data is drawn per signature, and where it is drawn from is the library's affair), plus the places that hold one. The ECDSA signatures are RFC6979's
    and stay."""
    psbt = Psbt.b64decode(psbt.b64encode())
    slots = []
    for i, pin in enumerate(psbt.inputs):
        slots.append((i, bool(pin.taproot_key_spend_signature), sorted(pin.taproot_script_spend_signatures)))
        pin.taproot_key_spend_signature = b""
        pin.taproot_script_spend_signatures = {}
    return psbt.b64encode(check_validity=False), slots


class _Spy:
    """A KeyManager that forwards to a SoftwareSigner's three KeyManager methods and counts the signatures they return."""

    def __getattr__(self, name):  # whatever else a KeyManager may be asked some day is the signer's to answer
        return getattr(self.signer, name)

    def __init__(self, signer):
        self.signer = signer
        self.returned = 0

    def _count(self, out):
        if out is not None:
            self.returned += 1
        return out

    def sign_ecdsa(self, *a):
        return self._count(self.signer.sign_ecdsa(*a))

    def sign_schnorr(self, *a):
        return self._count(self.signer.sign_schnorr(*a))

    def sign_schnorr_script_path(self, *a):
        return self._count(self.signer.sign_schnorr_script_path(*a))


def check_software(case):
    world = case["world"]
    base = worlds.run_world({**world, "stop_after": "estimate"})
    if not base["ok"]:
        return Outcome(False, (f"world-refused:{base.get('stage')}",))  # building and updating the psbt is other properties' ground (C10, C14)
    unsigned_b64 = base["unsigned_psbt_b64"]
    seed = world["seeds"][case["which"] % len(world["seeds"])]
    xprv = rootxprv_from_seed(seed)
    signer = SoftwareSigner(xprv)  # never the cached signer of vlib.worlds: this one gets closed
    reference = SoftwareSigner(xprv)
    owns = any(s == case["which"] % len(world["seeds"]) for i in world["inputs"] for s in i["signers"])
    closed = False
    tags = set()
    descriptor = parse_descriptor(add_checksum(f"wpkh({xpub_from_xprv(derive(xprv, 'm/84h/0h/0h'))}/0/*)"))
    for step, o in enumerate(case["ops"]):
        kind = o["op"]
        if kind == "close":
            signer.close()
            closed = True
            continue
        psbt = Psbt.b64decode(unsigned_b64)
        calls = {
            "xpub": lambda: signer.xpub(["m/84h/0h/0h", "m", "m/0", "m/86h/1h/0h/1/5"][o["x"] % 4]),
            "sign_psbt": lambda: signer.sign_psbt(psbt),
            "sign_message": lambda: signer.sign_message(b"message %d" % o["x"], "m/44h/0h/0h/0/%d" % o["x"]),
            "display": lambda: signer.display_address(descriptor, o["x"]),
            "fingerprint": lambda: signer.master_fingerprint,
            "capabilities": lambda: signer.capabilities,
        }
        if kind in calls:
            determinism.reset([case["world"]["seeds"], step])
            try:
                out = calls[kind]()
                err = None
            except LIBEXC as e:
                out, err = None, e
            if closed:
                tags.add(f"after-close:{kind}")
                if kind in ("sign_psbt", "sign_message") and out is not None:
                    raise Violation(f"software:closed-signer-signed:{kind}", f"step {step}")
                if kind in ("xpub", "display") and out is not None:
                    raise Violation(f"software:closed-signer-answered:{kind}", f"step {step}: close() documents that asking a closed signer anything raises")
                continue
            ref_psbt = Psbt.b64decode(unsigned_b64)
            ref_calls = {
                "xpub": lambda: reference.xpub(["m/84h/0h/0h", "m", "m/0", "m/86h/1h/0h/1/5"][o["x"] % 4]),
                "sign_psbt": lambda: reference.sign_psbt(ref_psbt),
                "sign_message": lambda: reference.sign_message(b"message %d" % o["x"], "m/44h/0h/0h/0/%d" % o["x"]),
                "display": lambda: reference.display_address(descriptor, o["x"]),
                "fingerprint": lambda: reference.master_fingerprint,
                "capabilities": lambda: reference.capabilities,
            }
            determinism.reset([case["world"]["seeds"], step])
            try:
                want = ref_calls[kind]()
                want_err = None
            except LIBEXC as e:
                want, want_err = None, e
            if (err is None) != (want_err is None):
                raise Violation(f"software:open-signer-differs-from-a-fresh-one:{kind}", f"step {step}: {err} vs {want_err}")
            a = _comparable(out) if isinstance(out, Psbt) else out
            b = _comparable(want) if isinstance(want, Psbt) else want
            if a != b:
                raise Violation(f"software:history-dependent-answer:{kind}", f"step {step}")
            if kind == "sign_psbt" and out is not None and _sig_count(out) > 0:
                tags.add("signed-open")
            continue
        # the KeyManager face of the signer: psbt.sign(psbt, signer) and the three methods it calls
        spy = _Spy(signer)
        determinism.reset([case["world"]["seeds"], step])
        try:
            signed, _ = psbt_mod.sign(psbt, spy if kind == "key_manager" else signer)
            n = _sig_count(signed)
        except LIBEXC:
            n = 0
        if closed:
            tags.add(f"after-close:{kind}")
            if n > 0 or spy.returned > 0:
                raise Violation("software:closed-signer-signed:key-manager-methods", f"step {step}: psbt.sign over a closed SoftwareSigner added {n} signature(s) (sign_ecdsa / sign_schnorr / sign_schnorr_script_path do not ask whether the signer is open)")
        elif n > 0:
            tags.add("signed-open")
    return Outcome(closed and owns, tuple(sorted(tags)) + (f"owns-a-key={owns}",))


# ---------------------------------------------------------------- 3. wallet ledger
WALLET_KINDS = ["bip32_xprv", "bip32_xpub", "descriptor_multipath", "descriptor_pair", "descriptor_single", "script_wallet", "descriptor_unranged"]
WALLET_OPS = ["address", "address", "next", "next", "next", "position_of", "script_pub_key", "info", "contains", "bad-branch", "bad-index", "huge-index", "add-key", "readonly-scripts"]
INDEXES = [0, 1, 2, 3, 5, 8, 20, 100]


@st.composite
def wallet_case(draw):
    head = {"kind": draw(st.sampled_from(WALLET_KINDS)), "seed": draw(st.binary(min_size=16, max_size=32)).hex(), "purpose": draw(st.sampled_from([44, 49, 84, 86])), "network": draw(st.sampled_from(["mainnet", "testnet"]))}
    ops = draw(
        st.lists(
            st.fixed_dictionaries({"op": st.sampled_from(WALLET_OPS), "branch": st.integers(0, 1), "index": st.one_of(st.sampled_from(INDEXES), st.integers(0, 30)), "x": st.integers(0, 7)}),
            min_size=3,
            max_size=25,
        )
    )
    return {**head, "ops": ops}


def make_wallet(case):
    net = case["network"]
    from btclib.network import NETWORKS

    root = rootxprv_from_seed(case["seed"], NETWORKS[net].bip32_prv)
    coin = 0 if net == "mainnet" else 1
    path = f"m/{case['purpose']}h/{coin}h/0h"
    acct_prv = derive(root, path)
    acct_pub = xpub_from_xprv(acct_prv)
    kind = case["kind"]
    if kind == "bip32_xprv":
        return BIP32KeyWallet(root, path)
    if kind == "bip32_xpub":
        return BIP32KeyWallet(acct_pub, path)
    fn = {44: "pkh({})", 49: "sh(wpkh({}))", 84: "wpkh({})", 86: "tr({})"}[case["purpose"]]
    if kind == "descriptor_multipath":
        return DescriptorWallet.from_descriptor(add_checksum(fn.format(f"{acct_pub}/<0;1>/*")), net)
    if kind == "descriptor_pair":
        return DescriptorWallet({0: parse_descriptor(add_checksum(fn.format(f"{acct_pub}/0/*")), net), 1: parse_descriptor(add_checksum(fn.format(f"{acct_pub}/1/*")), net)})
    if kind == "descriptor_single":
        return DescriptorWallet(parse_descriptor(add_checksum(fn.format(f"{acct_pub}/7/*")), net))
    if kind == "descriptor_unranged":
        return DescriptorWallet(parse_descriptor(add_checksum(fn.format(f"{acct_pub}/0/3")), net))
    other = xpub_from_xprv(derive(root, f"m/48h/{coin}h/0h/2h"))
    return ScriptWallet([KeyGroup(2, [acct_pub, other])], "p2wsh", network=net)


def check_wallet(case):
    w = make_wallet(case)
    fresh = make_wallet(case)  # never mutated by handing out: only script_pub_key(...) is asked of it
    ranged = case["kind"] != "descriptor_unranged"
    branches = w.branches
    ledger: list[str] = []  # addresses in first-handed-out order
    info: dict[str, tuple] = {}
    nxt = dict.fromkeys(branches, 0)
    tags = set()

    def expected_address(b, i):
        return fresh.script_pub_key(b, i).address

    def assert_state(where):
        if list(w.addresses) != ledger:
            raise Violation("wallet:ledger-differs-from-model", f"{where}: {list(w.addresses)[-4:]} vs {ledger[-4:]} (len {len(w.addresses)} vs {len(ledger)})")
        if len(w) != len(ledger) or len(set(w.addresses)) != len(w.addresses):
            raise Violation("wallet:ledger-length-or-duplicates", where)

    for step, o in enumerate(case["ops"]):
        kind = o["op"]
        b = branches[o["branch"] % len(branches)]
        i = o["index"]
        where = f"step {step} {kind}({b},{i})"
        if not ranged:
            i = 0
        if kind in ("address", "next"):
            if kind == "next" and not ranged and nxt[b] > 0:
                # one script, one position: there is no next one, and the refusal changes nothing
                try:
                    w.next_address(b)
                    raise Violation("wallet:unranged-next-address-beyond-its-only-position", where)
                except BTClibValueError:
                    tags.add("refused-call")
                assert_state(where)
                continue
            if kind == "next":
                i = nxt[b]
                got = w.next_address(b)
                if any(info[a][:1] == (b,) and info[a][1] >= i for a in ledger if a in info) and ranged:
                    raise HarnessError("model high-water mark")
            else:
                got = w.address(b, i)
            want = expected_address(b, i)
            if got != want:
                raise Violation(f"wallet:{kind}-is-not-the-address-of-the-position", f"{where}: {got} vs {want}; model next index {nxt[b]}")
            if got not in info:
                ledger.append(got)
            if ranged or got not in info:
                info[got] = (b, i)
            if kind == "address" and i < nxt[b] - 1:
                tags.add("out-of-order-address")
            if kind == "address" and i > nxt[b]:
                tags.add("gap-address")
            if kind == "next" and ("out-of-order-address" in tags or "gap-address" in tags):
                tags.add("next-after-out-of-order")
            nxt[b] = max(nxt[b], i + 1)
        elif kind == "position_of":
            spk = fresh.script_pub_key(b, i)
            got = w.position_of(spk.script, max(40, i))
            if ranged and got != (b, i) and not (got is not None and fresh.script_pub_key(*got).script == spk.script):
                raise Violation("wallet:position_of-own-script", f"{where}: {got}")
        elif kind == "script_pub_key":
            if w.script_pub_key(b, i).script != fresh.script_pub_key(b, i).script:
                raise Violation("wallet:script-differs-after-history", where)
        elif kind == "readonly-scripts":
            w.redeem_script(b, i), w.witness_script(b, i), w.is_watch_only, w.branches
        elif kind == "info":
            if ledger:
                a = ledger[o["x"] % len(ledger)]
                spelled = a.upper() if o["x"] % 2 and a.lower().startswith(("bc1", "tb1")) else a
                ai = w.address_info(spelled)
                if ai.address != a or (ranged and a in info and (ai.branch, ai.index) != info[a]):
                    raise Violation("wallet:address_info-position", f"{where}: {ai} vs {info.get(a)}")
            else:
                try:
                    w.address_info(expected_address(b, i))
                    raise Violation("wallet:address_info-of-an-address-never-handed-out", where)
                except BTClibValueError:
                    pass
        elif kind == "contains":
            a = expected_address(b, i)
            if (a in w) != (a in ledger):
                raise Violation("wallet:contains", f"{where}: {a in w} vs {a in ledger}")
        elif kind in ("bad-branch", "bad-index"):
            bb, ii = (max(branches) + 1 + o["x"], i) if kind == "bad-branch" else (b, -1 - o["x"])
            for call in (lambda: w.address(bb, ii), lambda: w.script_pub_key(bb, ii), (lambda: w.next_address(bb)) if kind == "bad-branch" else (lambda: w.address(bb, ii))):
                try:
                    call()
                    raise Violation(f"wallet:{kind}-accepted", where)
                except LIBEXC:
                    pass
            tags.add("refused-call")
        elif kind == "huge-index":
            # beyond what the wallet derives (2^31 for a descriptor, 65536 for a BIP44 account): refused, and nothing moves
            ii = [2**31, 2**31 + 5, 2**32, 2**63][o["x"] % 4]
            for call in (lambda: w.address(b, ii), lambda: w.script_pub_key(b, ii)):
                try:
                    call()
                    raise Violation("wallet:index-beyond-2^31-accepted", where)
                except LIBEXC:
                    pass
            tags.add("refused-call")
        elif kind == "add-key":
            if isinstance(w, KeyWallet):
                q = scalar("loose", case["seed"], o["x"])
                a = w.add(q)
                if a not in info:
                    ledger.append(a)
                    info[a] = (None, None)
                tags.add("loose-key")
        assert_state(where)
    # the high-water mark, asked once more at the end on every branch
    for b in branches if ranged else ():
        got = w.next_address(b)
        if got != expected_address(b, nxt[b]):
            raise Violation("wallet:final-next_address", f"branch {b}: {got} vs index {nxt[b]} = {expected_address(b, nxt[b])}")
    return Outcome("next-after-out-of-order" in tags, tuple(sorted(tags)) + (case["kind"], f"purpose={case['purpose']}"))


# ---------------------------------------------------------------- 4/5. pure calls: history independence and schedules
MNEMONIC_LANGS = ["en", "es", "fr", "it", "ja", "ko", "cs", "pt", "zh-Hans", "zh-Hant"]


def _xkeys(seed_int, count):
    out = []
    for k in range(count):
        root = rootxprv_from_seed(h("xk", seed_int, k)[:16])
        out.append(root if k % 2 else xpub_from_xprv(root))
    return out


def _musig_world(seed_int):
    keys = [scalar("msk", seed_int, i) for i in range(3)]
    pks = [m327.individual_pk(k) for k in keys]
    msg = h("mmsg", seed_int)
    tweaks, xonly = [h("tw", seed_int)], [True]
    aggpk = m327.xbytes(m327.key_agg_and_tweak(pks, tweaks, xonly)[0])
    nonces = [m327.nonce_gen_internal(h("mr", seed_int, i), keys[i].to_bytes(32, "big"), pks[i], aggpk, msg, None) for i in range(3)]
    aggnonce = m327.nonce_agg([pub for _, pub in nonces])
    mctx = (aggnonce, tuple(pks), tuple(tweaks), tuple(xonly), msg)
    psigs = [m327.sign(bytes(nonces[i][0]), keys[i], mctx, self_check=False) for i in range(3)]
    return {"pks": pks, "pubnonces": [pub for _, pub in nonces], "psigs": psigs, "args": (aggnonce, pks, tweaks, xonly, msg), "agg": m327.partial_sig_agg(psigs, mctx)}


def pure_call(spec, shared):
    """-> thunk returning a JSON-able observation. `shared` holds the objects several calls may share."""
    kind = spec["fn"]
    a = spec["a"]
    if kind == "mult":
        ec = CURVES[["secp256k1", "secp256r1", "secp112r1", "secp160k1"][a["ec"] % 4]]
        k = a["k"] % ec.n
        Q = None if a["g"] else mult(a["q"] % (ec.n - 1) + 1, ec.G, ec)

        def f():
            R = mult(k, Q, ec)
            return list(R)

        return f
    if kind == "double_mult":
        ec = CURVES[["secp256k1", "secp256r1"][a["ec"] % 2]]
        H = mult(a["q"] % (ec.n - 1) + 1, ec.G, ec)
        return lambda: list(double_mult_var(a["k"] % ec.n, H, a["j"] % ec.n, ec.G, ec))
    if kind == "multi_mult":
        ec = secp256k1
        pts = [mult(scalar("mm", a["q"], j), ec.G, ec) for j in range(a["n"])]
        ks = [scalar("mk", a["k"], j) for j in range(a["n"])]
        return lambda: list(multi_mult_var(ks, pts, ec))
    if kind == "b58":
        xk = shared["xkeys"][a["i"] % len(shared["xkeys"])]

        def f():
            d = BIP32KeyData.b58decode(xk)
            return [d.version.hex(), d.depth, d.key.hex(), bip32.derive(xk, "m/0/%d" % (a["i"] % 3)) if True else None]

        return f
    if kind in ("m2i", "i2m"):
        lang = MNEMONIC_LANGS[a["lang"] % len(MNEMONIC_LANGS)]
        wl = shared.get("wordlists") or mnemonic_mod.WORDLISTS
        idx = [(a["w"] * 7919 + j * 104729) % 2048 for j in range(12)]

        def f():
            text = mnemonic_mod.mnemonic_from_indexes(idx, lang, wl)
            if kind == "i2m":
                return text
            return mnemonic_mod.indexes_from_mnemonic(text, lang, wl)

        return f
    if kind == "musig_verify":
        mw = shared["musig"]
        ctx = shared.get("session") or musig2.SessionContext(*mw["args"])
        j = a["j"] % 3
        psig = mw["psigs"][j] if a["valid"] else mw["psigs"][(j + 1) % 3]
        return lambda: musig2.partial_sig_verify_(psig, mw["pubnonces"][j], mw["pks"][j], ctx)
    if kind == "musig_agg":
        mw = shared["musig"]
        ctx = shared.get("session") or musig2.SessionContext(*mw["args"])
        return lambda: musig2.partial_sig_agg(mw["psigs"], ctx).serialize().hex()
    if kind == "c04":
        from checks import C04

        fn = C04.OPS[a["op"]][1]
        return lambda: C04.observe(fn(a["args"]))
    raise HarnessError(f"unknown pure call {kind}")


def canon_obs(v):
    if isinstance(v, (bytes, bytearray)):
        return v.hex()
    if isinstance(v, (list, tuple)):
        return [canon_obs(x) for x in v]
    return v


def observe(thunk):
    try:
        return ["ok", canon_obs(thunk())]
    except LIBEXC as e:
        return ["exc", type(e).__name__]


def model_answer(spec, shared):
    """An independent answer where one exists (otherwise None: the sequential observation is the oracle)."""
    a = spec["a"]
    if spec["fn"] == "mult" and a["ec"] % 4 == 0:
        k = a["k"] % N
        Q = fastec.G if a["g"] else fastec.mul(a["q"] % (N - 1) + 1, fastec.G)
        R = fastec.mul(k, Q) if k else None
        return ["ok", list(R) if R else list(INF)]  # infinity as the library spells it
    if spec["fn"] == "musig_verify":
        return ["ok", bool(a["valid"])]
    if spec["fn"] == "musig_agg":
        return ["ok", shared["musig"]["agg"].hex()]
    return None


def pure_spec():
    from checks import C04

    c04_ops = sorted(C04.OPS)
    big = st.integers(0, 2**256)
    return st.one_of(
        st.fixed_dictionaries({"fn": st.just("mult"), "a": st.fixed_dictionaries({"ec": st.integers(0, 3), "k": big, "g": st.booleans(), "q": st.integers(0, 5)})}),
        st.fixed_dictionaries({"fn": st.just("double_mult"), "a": st.fixed_dictionaries({"ec": st.integers(0, 1), "k": big, "j": big, "q": st.integers(0, 3)})}),
        st.fixed_dictionaries({"fn": st.just("multi_mult"), "a": st.fixed_dictionaries({"n": st.sampled_from([2, 3, 70]), "k": st.integers(0, 3), "q": st.integers(0, 2)})}),
        st.fixed_dictionaries({"fn": st.just("b58"), "a": st.fixed_dictionaries({"i": st.integers(0, 40)})}),
        st.fixed_dictionaries({"fn": st.sampled_from(["m2i", "i2m"]), "a": st.fixed_dictionaries({"lang": st.integers(0, 9), "w": st.integers(0, 2047)})}),
        st.fixed_dictionaries({"fn": st.just("musig_verify"), "a": st.fixed_dictionaries({"j": st.integers(0, 2), "valid": st.booleans()})}),
        st.fixed_dictionaries({"fn": st.just("musig_agg"), "a": st.just({})}),
        *[st.sampled_from(c04_ops).flatmap(lambda name: st.fixed_dictionaries({"fn": st.just("c04"), "a": st.fixed_dictionaries({"op": st.just(name), "args": C04.OPS[name][0]})}))] * 5,
    )


def clear_caches():
    for name in ("_cached_multiples", "_cached_multiples_fixwind", "_cached_odd_multiples_aff", "_cached_fixed_base_multiples"):
        getattr(curve_group, name).cache_clear()
    bip32._cached_base58_decode.cache_clear()


@st.composite
def history_case(draw):
    return {
        "seed": draw(st.integers(0, 2**20)),
        "target": draw(pure_spec()),
        "prefix": draw(st.lists(pure_spec(), max_size=6)),
        "flood": draw(st.sampled_from([0, 0, 50, 2100])),  # distinct base58 keys decoded first: 2100 evicts the 2048-entry cache
        "toggles": draw(st.lists(st.booleans(), max_size=4)),
        "clear_between": draw(st.booleans()),
        "backend": draw(st.booleans()),
    }


def check_history(case):
    shared = {"xkeys": _xkeys(case["seed"], 6), "musig": _musig_world(case["seed"])}
    prev = is_libsecp256k1_serving()
    try:
        set_libsecp256k1_serving(serving=case["backend"])
        clear_caches()
        determinism.reset(case)
        first = observe(pure_call(case["target"], shared))
        want = model_answer(case["target"], shared)
        if want is not None and first != want:
            raise Violation(f"history:{case['target']['fn']}-vs-model", f"{str(first)[:200]} vs {str(want)[:200]}")
        # a history: other calls, a flood of the bounded key cache, backend toggles
        for spec in case["prefix"]:
            observe(pure_call(spec, shared))
        if case["flood"]:
            root = rootxprv_from_seed(h("flood", case["seed"])[:16])
            acct = xpub_from_xprv(root)
            for k in range(case["flood"]):
                child = bip32.derive(acct, [k])
                BIP32KeyData.b58decode(child)
        for t in case["toggles"]:
            set_libsecp256k1_serving(serving=t)
            observe(pure_call(case["prefix"][0], shared)) if case["prefix"] else None
        set_libsecp256k1_serving(serving=case["backend"])
        if case["clear_between"]:
            clear_caches()
        determinism.reset(case)
        again = observe(pure_call(case["target"], shared))
        if again != first:
            raise Violation(f"history:{case['target']['fn']}-answer-depends-on-history", f"fresh {str(first)[:200]} after history {str(again)[:200]}")
        # the other arm, after all that
        set_libsecp256k1_serving(serving=not case["backend"])
        determinism.reset(case)
        other = observe(pure_call(case["target"], shared))
        if other != first:
            raise Violation(f"history:{case['target']['fn']}-answer-depends-on-backend", f"{str(first)[:200]} vs {str(other)[:200]}")
    finally:
        set_libsecp256k1_serving(serving=prev)
    fn = case["target"]["fn"] + (":" + case["target"]["a"]["op"] if case["target"]["fn"] == "c04" else "")
    return Outcome(bool(case["prefix"]) or case["flood"] > 0, (fn, f"flood={case['flood']}", f"toggles={len(case['toggles'])}", f"prefix={min(len(case['prefix']), 3)}", first[0]))


WATCHED = {
    "_cached_multiples",
    "_cached_multiples_fixwind",
    "_cached_odd_multiples_aff",
    "_cached_fixed_base_multiples",
    "_mult_fixed_base",
    "_cached_base58_decode",
    "load_lang",
    "wordlist",
    "index",
    "language_length",
    "_bindings_session",
    "session_values",
    "_libsecp256k1_serves",
    "set_libsecp256k1_serving",
    "second_generator",
    "b58decode",
}
SCENARIOS = ["musig_session", "wordlists", "musig_session", "tables", "musig_session", "wordlists", "tables", "b58", "mixed", "flip"]


@st.composite
def schedule_case(draw):
    scenario = draw(st.sampled_from(SCENARIOS))
    n = draw(st.integers(2, 4))
    big = st.integers(0, 2**256)
    if scenario == "wordlists":
        lang = draw(st.integers(0, 9))
        spec = st.fixed_dictionaries({"fn": st.sampled_from(["m2i", "i2m"]), "a": st.fixed_dictionaries({"lang": st.sampled_from([lang, lang, (lang + 1) % 10]), "w": st.integers(0, 2047)})})
    elif scenario == "musig_session":
        verify = st.fixed_dictionaries({"fn": st.just("musig_verify"), "a": st.fixed_dictionaries({"j": st.integers(0, 2), "valid": st.sampled_from([True, True, True, False])})})
        spec = st.one_of(verify, verify, verify, st.fixed_dictionaries({"fn": st.just("musig_agg"), "a": st.just({})}))
    elif scenario == "tables":
        q = draw(st.integers(0, 5))
        ec = draw(st.integers(0, 3))
        spec = st.one_of(
            st.fixed_dictionaries({"fn": st.just("mult"), "a": st.fixed_dictionaries({"ec": st.just(ec), "k": big, "g": st.booleans(), "q": st.just(q)})}),
            st.fixed_dictionaries({"fn": st.just("double_mult"), "a": st.fixed_dictionaries({"ec": st.just(ec % 2), "k": big, "j": big, "q": st.just(q % 4)})}),
            st.fixed_dictionaries({"fn": st.just("multi_mult"), "a": st.fixed_dictionaries({"n": st.sampled_from([2, 3]), "k": st.integers(0, 3), "q": st.integers(0, 2)})}),
        )
    elif scenario == "b58":
        spec = st.fixed_dictionaries({"fn": st.just("b58"), "a": st.fixed_dictionaries({"i": st.integers(0, 3)})})
    else:
        spec = pure_spec()
    threads = [draw(st.lists(spec, min_size=1, max_size=3)) for _ in range(n)]
    return {
        "scenario": scenario,
        "seed": draw(st.integers(0, 2**20)),
        "threads": threads,
        "schedule": draw(
            st.one_of(
                # fine-grained: many short bursts
                st.lists(st.tuples(st.integers(0, 3), st.sampled_from([1, 3, 1, 2, 5, 10, 30, 100, 400])).map(list), min_size=3, max_size=40),
                # few preemption points at uniformly drawn depths (one worker runs x yield points, another runs to completion, ...)
                st.lists(st.tuples(st.integers(0, 3), st.one_of(st.integers(1, 160), st.just(100000))).map(list), min_size=2, max_size=6),
                st.tuples(st.integers(0, 3), st.integers(1, 160), st.integers(0, 3)).map(lambda t: [[t[0], t[1]], [t[2], 100000], [0, 100000]]),
            )
        ),
        "flips": draw(st.lists(st.booleans(), min_size=1, max_size=6)) if scenario == "flip" else [],
        "backend": draw(st.sampled_from([True, True, True, False])) if scenario != "tables" else False,
        "opcodes": draw(st.booleans()),
    }


def check_schedule(case):
    seed = case["seed"]
    prev = is_libsecp256k1_serving()
    try:
        set_libsecp256k1_serving(serving=case["backend"])
        # sequential observations, each call on private shared objects, fresh caches
        seq_shared = {"xkeys": _xkeys(seed, 4), "musig": _musig_world(seed)}
        expected = []
        for calls in case["threads"]:
            row = []
            for spec in calls:
                private = dict(seq_shared)
                if case["scenario"] in ("wordlists", "mixed", "flip"):
                    private["wordlists"] = mnemonic_mod.WordLists()
                determinism.reset([seed, spec])
                row.append(observe(pure_call(spec, private)))
                want = model_answer(spec, private)
                if want is not None and row[-1] != want:
                    raise Violation(f"schedule:sequential-{spec['fn']}-vs-model", f"{str(row[-1])[:160]} vs {str(want)[:160]}")
            expected.append(row)
        # concurrent: one shared set of objects, caches cleared, the generated interleaving
        clear_caches()
        shared = {"xkeys": seq_shared["xkeys"], "musig": seq_shared["musig"], "wordlists": mnemonic_mod.WordLists(), "session": musig2.SessionContext(*seq_shared["musig"]["args"])}
        thunks = []
        for calls in case["threads"]:
            fns = [pure_call(spec, shared) for spec in calls]
            thunks.append(lambda fns=fns: [observe(f) for f in fns])
        if case["flips"]:
            flips = list(case["flips"])
            thunks.append(lambda: [set_libsecp256k1_serving(serving=f) for f in flips] and None)
        # the flag's readers are yield points only where a thread flips the flag: elsewhere they are noise that narrows the windows that matter
        watched = WATCHED if case["scenario"] in ("flip", "mixed") else WATCHED - {"_libsecp256k1_serves"}
        sched = Scheduler(case["schedule"], watched, ROOT, opcodes=case["opcodes"])
        clear_caches()  # again, now that the calls are built: preparing their arguments (public keys, points) in this thread has warmed the tables the threads are to fill
        results, stats = sched.run(thunks)
    finally:
        set_libsecp256k1_serving(serving=prev)
    if stats["deadlock"]:
        raise Violation(f"schedule:deadlock:{case['scenario']}", f"no worker made progress for {sched.deadlock_s}s; stats {stats}")
    for t, (res, row) in enumerate(zip(results, expected)):
        if res[0] != "ok":
            raise Violation(f"schedule:{case['scenario']}:exception-under-concurrency:{res[1].split('.')[-1]}", f"thread {t}: {res[1]}: {res[2]}; calls {[s['fn'] for s in case['threads'][t]]}")
        for c, (got, want) in enumerate(zip(res[1], row)):
            if got != want:
                fn = case["threads"][t][c]["fn"]
                raise Violation(f"schedule:{case['scenario']}:{fn}-differs-from-sequential", f"thread {t} call {c}: concurrent {str(got)[:200]} sequential {str(want)[:200]}; switches {stats['switches']}")
    sw = stats["switches"]
    return Outcome(sw >= 3, (case["scenario"], f"threads={len(thunks)}", f"switches={'0' if sw == 0 else ('1-2' if sw < 3 else ('3-9' if sw < 10 else '10+'))}", f"stalls={min(stats['stalls'], 2)}", f"opcodes={case['opcodes']}") + tuple(f"hit={w}" for w in stats["watched_hit"]))


# ---- real preemption stress (thorough): failures are real but may not replay
@st.composite
def stress_case(draw):
    return {"seed": draw(st.integers(0, 2**20)), "threads": draw(st.integers(4, 8)), "calls": draw(st.lists(pure_spec(), min_size=4, max_size=12)), "rounds": draw(st.integers(2, 5)), "backend": draw(st.booleans())}


def check_stress(case):
    import sys
    import threading

    seed = case["seed"]
    prev = is_libsecp256k1_serving()
    old = sys.getswitchinterval()
    try:
        set_libsecp256k1_serving(serving=case["backend"])
        base = {"xkeys": _xkeys(seed, 4), "musig": _musig_world(seed)}
        expected = []
        for spec in case["calls"]:
            private = dict(base, wordlists=mnemonic_mod.WordLists())
            determinism.reset([seed, spec])
            expected.append(observe(pure_call(spec, private)))
        clear_caches()
        shared = dict(base, wordlists=mnemonic_mod.WordLists(), session=musig2.SessionContext(*base["musig"]["args"]))
        results = [None] * case["threads"]
        barrier = threading.Barrier(case["threads"])

        def body(t):
            barrier.wait()
            out = []
            for r in range(case["rounds"]):
                for c in range(len(case["calls"])):
                    spec = case["calls"][(c + t) % len(case["calls"])]
                    out.append(((c + t) % len(case["calls"]), observe(pure_call(spec, shared))))
            results[t] = out

        sys.setswitchinterval(1e-6)
        ths = [threading.Thread(target=body, args=(t,), daemon=True) for t in range(case["threads"])]
        for t in ths:
            t.start()
        for t in ths:
            t.join(120)
        if any(t.is_alive() for t in ths):
            # elapsed time is not a verdict (the calls take about a second on an idle machine): inconclusive
            return Outcome(False, ("inconclusive:threads-still-running-after-120s",))
    finally:
        sys.setswitchinterval(old)
        set_libsecp256k1_serving(serving=prev)
    for t, out in enumerate(results):
        if out is None:
            raise Violation("stress:thread-died", f"thread {t}")
        for c, got in out:
            if got != expected[c]:
                raise Violation(f"stress:{case['calls'][c]['fn']}-differs-from-sequential", f"thread {t}: {str(got)[:200]} vs {str(expected[c])[:200]}")
    return Outcome(True, (f"threads={case['threads']}",))


def validate_models() -> None:
    import json
    import os

    from vlib.runner import VERIF

    def load(name):
        with open(os.path.join(VERIF, "vectors", "bip327", name)) as f:
            return json.load(f)

    problems = m327.validate(load)
    if problems:
        raise HarnessError(f"bip327_ref fails its vectors: {problems[:3]}")


SUBCHECKS = [
    SubCheck("nonce_once", check_nonce, "op lists over 1..3 MuSig2 sessions x 2..3 signers x a pool of secret nonces (sign, sign again, wrong key, session that does not assemble, copy-then-sign, gen, verify, aggregate, backend toggle): a fresh nonce signs exactly the model's partial signature; from the first call that got past session assembly on, the bytearray is zeroed and every later call raises BTClibValueError and returns no signature; non-trivial: a signing call on a spent nonce", nonce_case, quick=1600, thorough=40000),
    SubCheck("signers", check_signer, "op lists on dsa.Signer / ssa.Signer (6 curve x hash pairs, both backends, toggles in between): alive => sign/sign_ equal the stateless function's bytes; after wipe / __exit__ every signing call raises, forever; non-trivial: a signing call after wipe", signer_case, quick=2500, thorough=40000),
    SubCheck("software_signer", check_software, "op lists on a SoftwareSigner over the unsigned psbt of a wallet world: open => every answer equals a fresh signer's; after close() no entry point signs (sign_psbt, sign_message, psbt.sign over the signer, the three KeyManager methods) and xpub / display_address raise; non-trivial: a closed signer that owns a key of the psbt", software_case, quick=500, thorough=8000),
    SubCheck("wallet_ledger", check_wallet, "op lists (address, next_address, position_of, script_pub_key, address_info, contains, refused calls, loose keys) on BIP32KeyWallet (xprv, xpub), DescriptorWallet (multipath, pair, single chain, unranged) and ScriptWallet vs a model: next index = 1 + max handed out on the branch, ledger = first-occurrence order, read-only and refused calls change nothing; non-trivial: next_address after an address() that skipped indexes or went back below the mark", wallet_case, quick=1200, thorough=20000),
    SubCheck("history_independence", check_history, "a pure call (C04's operation table, point multiplications on 4 curves, extended-key decoding, word lists, MuSig2 verification) observed with fresh caches, then again after a generated prefix of other calls, a flood evicting the 2048-entry key cache, backend toggles and optional cache clearing, then on the other backend: identical observations; non-trivial: a non-empty history", history_case, quick=800, thorough=20000, max_buckets=4),
    SubCheck("schedules", check_schedule, "2..4 threads of pure calls sharing a fresh WordLists, one MuSig2 SessionContext, cleared multiplication tables and key cache, optionally a thread toggling the backend, interleaved at line/opcode granularity inside the watched cache / session / flag functions by a generated schedule: every answer equals the sequential one; non-trivial: >= 3 context switches", schedule_case, quick=800, thorough=15000),
    SubCheck("stress_preemption", check_stress, "4..8 threads with a 1 us switch interval over the same pure calls and shared objects, real preemption (failures may not replay); every answer equals the sequential one", stress_case, quick=40, thorough=600, shards=4),
]
