"""C17 — block commitments: merkle roots, proofs, filters, compact blocks and targets."""

from __future__ import annotations

import datetime
import hashlib
import json
import os

from hypothesis import strategies as st

from btclib.block import Block, BlockHeader
from btclib.block import merkle_proof, proof_of_work as pow_
from btclib.block.block_filter import BasicBlockFilter, filter_header
from btclib.exceptions import BTClibRuntimeError, BTClibTypeError, BTClibValueError
from btclib.hashes import hash256, merkle_root_and_mutated_from_hashes
from btclib.p2p import BlockTxn, CmpctBlock, PrefilledTransaction, reconstruct
from vlib import build
from vlib.gens import common as g
from vlib.models import block_ref as ref
from vlib.models import tx_ref
from vlib.runner import VERIF, HarnessError, Outcome, SubCheck, Violation

PROPERTY = "C17"
LEVEL = "exploration"
RULE = (
    "Hypothesis-generated hash lists (1..70 leaves, repeated hashes and duplicated tails forced), blocks and pools, compact values and 256-bit targets "
    "on every exponent/sign/byte-length class; oracles = Core transcriptions (vlib/models/block_ref.py: ComputeMerkleRoot, merkle branches, "
    "SetCompact/GetCompact/CalculateNextWorkRequired/GetBlockProof, BIP158 GCS, BIP152 short ids)."
)
ASSUMPTIONS = ["block_ref transcribes Core's merkle/arith_uint256/pow code and BIP158/BIP152; validated at start on the 10 BIP158 test vectors (which exercise SipHash and the GCS) and on mainnet retarget points"]
LIBEXC = (BTClibValueError, BTClibTypeError, BTClibRuntimeError)
REGTEST = bytes.fromhex("207fffff")


def validate_models() -> None:
    bf = json.load(open(os.path.join(VERIF, "vectors/blockfilters.json")))[1:]
    for h, bh, blk, prevs, prevhdr, filt, hdr, note in bf:
        raw = bytes.fromhex(blk)
        r = tx_ref._R(raw)
        r.take(80)
        els = set()
        for _ in range(r.cs()):
            tx, _ = tx_ref.parse_prefix(r)
            for o in tx["vout"]:
                s = bytes.fromhex(o["spk"])
                if s and s[0] != 0x6A:
                    els.add(s)
        for p in prevs:
            if p:
                els.add(bytes.fromhex(p))
        f = ref.gcs_filter(bytes.fromhex(bh)[::-1], els)
        if f.hex() != filt or ref.filter_header(f, bytes.fromhex(prevhdr)[::-1])[::-1].hex() != hdr:
            raise HarnessError(f"gcs model disagrees with BIP158 vector at height {h}")
    # mainnet first retarget that changed difficulty: block 32255 (bits 1d00ffff) -> 32256 (1d00d86a)
    if ref.next_work(0x1D00FFFF, 1262152739 - 1261130161, ref.set_compact(0x1D00FFFF)[0]) != 0x1D00D86A:
        raise HarnessError("next_work model disagrees with mainnet block 32256")
    if ref.get_compact(ref.set_compact(0x1B0404CB)[0]) != 0x1B0404CB or ref.block_proof(0x1D00FFFF) != 0x100010001:
        raise HarnessError("compact model")


# ---------------------------------------------------------------- merkle
@st.composite
def merkle_case(draw):
    n = draw(st.one_of(st.integers(1, 17), st.integers(1, 70)))
    style = draw(st.sampled_from(["distinct", "distinct", "dup-tail", "repeated", "all-equal"]))
    return {"n": n, "style": style, "seed": draw(st.integers(0, 2**32)), "index": draw(st.integers(0, 200)),
            "tamper": draw(st.sampled_from(["none", "other-leaf", "other-index", "index+2^depth", "twin-index", "bitflip-branch", "bitflip-root", "drop-level", "extra-level", "swap-levels", "inner-node-tx"])), "bit": draw(st.integers(0, 10**6))}


def _leaves(case):
    n, seed = case["n"], case["seed"]
    hs = [hashlib.sha256(f"{seed}:{i}".encode()).digest() for i in range(n)]
    if case["style"] == "dup-tail" and n >= 2:
        hs[-1] = hs[-2]
    elif case["style"] == "repeated" and n >= 3:
        hs[(seed % (n - 1)) + 1] = hs[seed % (n - 1)]
    elif case["style"] == "all-equal":
        hs = [hs[0]] * n
    return hs


def check_merkle(case):
    hs = _leaves(case)
    n = len(hs)
    root, mutated = ref.merkle_root_mutated(hs)
    got = merkle_root_and_mutated_from_hashes(hs, hash256)
    if got != (root, mutated):
        raise Violation(f"merkle:root-or-mutated:style={case['style']}", f"n={n} lib={got[0].hex()},{got[1]} ref={root.hex()},{mutated}")
    i = case["index"] % n
    branch = ref.merkle_branch(hs, i)
    leaf, idx, rt, br = hs[i], i, root, list(branch)
    t, bit = case["tamper"], case["bit"]
    if t == "other-leaf":
        leaf = hashlib.sha256(b"other" + leaf).digest()
    elif t == "other-index":
        idx = (i + 1 + bit % max(1, 2 ** len(branch) - 1)) % max(1, 2 ** len(branch)) if branch else i + 1
    elif t == "index+2^depth":
        idx = i + 2 ** len(branch)
    elif t == "twin-index":
        idx = i ^ 1
    elif t == "bitflip-branch" and br:
        k = bit % (256 * len(br)); e = bytearray(br[k // 256]); e[(k % 256) // 8] ^= 1 << (k % 8); br[k // 256] = bytes(e)
    elif t == "bitflip-root":
        e = bytearray(rt); k = bit % 256; e[k // 8] ^= 1 << (k % 8); rt = bytes(e)
    elif t == "drop-level" and br:
        br.pop(bit % len(br))
    elif t == "extra-level":
        br.insert(bit % (len(br) + 1), hashlib.sha256(b"x").digest())
    elif t == "swap-levels" and len(br) >= 2:
        a = bit % (len(br) - 1); br[a], br[a + 1] = br[a + 1], br[a]
    elif t == "inner-node-tx":
        # the documented extra rule (CVE-2017-12842), met on purpose: a 64-byte transaction (one input with a 13-byte script, no output) whose two halves
        # are presented as a leaf and its sibling; the arithmetic of the branch is right, and the proof is refused all the same
        seed_bytes = hashlib.sha256(f"{case['seed']}:tx64".encode()).digest()
        tx64 = (2).to_bytes(4, "little") + b"\x01" + seed_bytes + (bit % 4).to_bytes(4, "little") + b"\x0d" + seed_bytes[:13] + b"\xff\xff\xff\xff" + b"\x00" + (bit % 500).to_bytes(4, "little")
        try:
            tx_ref.parse(tx64, False)
        except tx_ref.ParseError:
            raise HarnessError("the crafted 64 bytes are not a transaction") from None
        half = bit % 2
        proved, sibling = (tx64[:32], tx64[32:]) if half == 0 else (tx64[32:], tx64[:32])
        above = [hashlib.sha256(f"{case['seed']}:up{k}".encode()).digest() for k in range(case["index"] % 3)]
        node = hashlib.sha256(hashlib.sha256(tx64).digest()).digest()
        for sib in above:
            node = hashlib.sha256(hashlib.sha256(node + sib).digest()).digest()
        if ref.root_from_branch(proved, [sibling, *above], half) != node:
            raise HarnessError("the crafted branch does not add up in the model")
        if merkle_proof.verify(proved[::-1], [b[::-1] for b in [sibling, *above]], half, node[::-1]) is not False:
            raise Violation("merkle:inner-node-that-is-a-transaction-accepted", f"tx64={tx64.hex()} half={half} levels above={len(above)}")
        return Outcome(True, (t, f"levels-above={len(above)}"))
    changed = (leaf, idx, rt, br) != (hs[i], i, root, branch)
    want_root = ref.root_from_branch(leaf, br, idx)
    want = want_root is not None and want_root == rt
    # the documented extra rule (CVE-2017-12842): a branch one of whose 64-byte inner nodes is itself a serialized transaction is refused. The nodes here
    # are hashes of counters, i.e. random bytes, and about one pair in 2^24 has that shape: such a case is left out rather than judged
    node = leaf
    for level, sib in enumerate(br):
        pair = sib + node if (idx >> level) & 1 else node + sib
        for allow_witness in (True, False):
            try:
                tx_ref.parse(pair, allow_witness)
                return Outcome(False, (t, "inner-node-is-a-transaction"))
            except tx_ref.ParseError:
                pass
        node = hashlib.sha256(hashlib.sha256(pair).digest()).digest()
    try:
        got_v = merkle_proof.verify(leaf[::-1], [b[::-1] for b in br], idx, rt[::-1])
    except Exception as e:  # noqa: BLE001
        raise Violation(f"merkle:verify-raised:{type(e).__name__}:{t}", str(e)[:200])
    if got_v is not want:
        raise Violation(f"merkle:proof-verdict:{t}:style={case['style']}:lib={got_v}:ref={want}", f"n={n} i={i} idx={idx}")
    if t == "none" and not mutated and not got_v:
        raise Violation("merkle:correct-branch-rejected", f"n={n} i={i}")
    if got_v and changed and t in ("other-leaf", "bitflip-branch", "bitflip-root"):
        raise Violation(f"merkle:tampered-proof-accepted:{t}", f"n={n} i={i}")
    return Outcome(n >= 2, (t, case["style"], f"odd-level={any((n >> k) & 1 and (n >> k) > 1 for k in range(7))}", f"valid={want}"))


# ---------------------------------------------------------------- blocks: merkle root / witness commitment / filters / compact blocks
def _mine(hdr80: bytearray):
    target = 0x7FFFFF << (8 * (0x20 - 3))
    for nonce in range(100000):
        hdr80[76:80] = nonce.to_bytes(4, "little")
        if int.from_bytes(tx_ref.hash256(bytes(hdr80)), "little") <= target:
            return nonce
    raise HarnessError("cannot mine a regtest header")


def make_block(txs_cases, seed: int, witness_commit: bool, version=0x20000000, time=1600000000, decoy=None):
    """-> (Block (unchecked build), tx dicts incl. coinbase, raw header)"""
    txs = json.loads(json.dumps(txs_cases))
    for k, t in enumerate(txs):
        t["vin"] = t["vin"][:2]
        for j, i in enumerate(t["vin"]):
            i["txid"] = hashlib.sha256(f"{seed}:{k}:{j}".encode()).hexdigest()
    has_wit = any(tx_ref.has_witness(t) for t in txs)
    cb = {"version": 2, "lock_time": 0, "vin": [{"txid": "00" * 32, "vout": 0xFFFFFFFF, "script_sig": "03a08601" + "00", "sequence": 0xFFFFFFFF, "witness": []}],
          "vout": [{"value": 50 * 10**8, "spk": "51"}]}
    if has_wit or witness_commit:
        nonce = b"\x00" * 32
        cb["vin"][0]["witness"] = [nonce.hex()]
        wroot, _ = ref.merkle_root_mutated([b"\x00" * 32] + [tx_ref.wtxid(t)[::-1] for t in txs])
        commit = tx_ref.hash256(wroot + nonce)
        real = {"value": 0, "spk": "6a24aa21a9ed" + commit.hex()}
        fake = {"value": 0, "spk": "6a24aa21a9ed" + hashlib.sha256(b"decoy").hexdigest() + "beef"}
        # BIP141: the *last* output with the commitment pattern is the commitment
        cb["vout"] += {"before": [fake, real], "after": [real, fake], None: [real]}[decoy]
    all_txs = [cb] + txs
    root, _ = ref.merkle_root_mutated([tx_ref.txid(t)[::-1] for t in all_txs])
    hdr = bytearray(version.to_bytes(4, "little") + hashlib.sha256(f"prev{seed}".encode()).digest() + root + time.to_bytes(4, "little") + REGTEST[::-1] + b"\x00" * 4)
    nonce_ = _mine(hdr)
    header = BlockHeader(version, bytes(hdr[4:36])[::-1], root[::-1], datetime.datetime.fromtimestamp(time, datetime.timezone.utc), REGTEST, nonce_)
    if header.serialize() != bytes(hdr):
        raise HarnessError("header model")
    return Block(header, [build.tx(t) for t in all_txs], check_validity=False), all_txs, bytes(hdr)


@st.composite
def block_case(draw):
    ntx = draw(st.integers(0, 6))
    spk = st.one_of(st.sampled_from(["", "6a", "6a0401020304", "51", "0014" + "11" * 20, "76a914" + "22" * 20 + "88ac"]), g.hexbytes(1, 30))
    txs = [draw(g.valid_tx_case(max_in=2, max_out=3)) for _ in range(ntx)]
    for t in txs:
        for o in t["vout"]:
            if draw(st.integers(0, 2)) == 0:
                o["spk"] = draw(spk)
    nprev = sum(min(2, len(t["vin"])) for t in txs)
    return {"txs": txs, "seed": draw(st.integers(0, 2**32)), "commit": draw(st.booleans()), "prevs": [draw(spk) for _ in range(nprev)],
            "tamper": draw(st.sampled_from(["none", "none", "edit-tx", "header-root", "commitment", "witness-nonce", "dup-tail", "swap-txs", "drop-tx"])),
            "cb_nonce": draw(st.integers(0, 2**64 - 1)), "prefilled": draw(st.lists(st.integers(0, 10), max_size=3)), "pool_extra": draw(st.integers(0, 3)), "pool_missing": draw(st.lists(st.integers(0, 10), max_size=3)),
            "pool_shuffle": draw(st.integers(0, 10**6)), "query": draw(g.hexbytes(1, 30)), "decoy": draw(st.sampled_from([None, None, "before", "after"])),
            "narrow_ids": draw(st.sampled_from([0, 0, 2, 3]))}


def check_block(case):
    decoy = case.get("decoy")
    block, txs, hdr = make_block(case["txs"], case["seed"], case["commit"], decoy="before" if decoy == "before" else None)
    try:
        block.assert_valid(REGTEST)
    except LIBEXC as e:
        raise Violation(f"blocks:valid-block-refused:decoy={decoy}", f"{type(e).__name__}: {e}")
    tags = [f"txs={min(len(txs), 4)}", "segwit" if block.is_segwit else "legacy", f"decoy={decoy}"]
    if decoy == "after" and len(txs[0]["vout"]) > 1:
        b2, _, _ = make_block(case["txs"], case["seed"], case["commit"], decoy="after")
        try:
            b2.assert_valid(REGTEST)
            raise Violation("blocks:stale-commitment-accepted", "a later commitment-pattern output overrides the real one and is wrong")
        except LIBEXC:
            pass
    # --- tampering must be refused
    t = case["tamper"]
    tb = None
    if t == "edit-tx" and len(txs) > 1:
        d = json.loads(json.dumps(txs)); d[-1]["lock_time"] ^= 1
        tb = Block(block.header, [build.tx(x) for x in d], check_validity=False)
    elif t == "header-root":
        h = block.header
        tb = Block(BlockHeader(h.version, h.previous_block_hash, bytes([h.merkle_root[0] ^ 1]) + h.merkle_root[1:], h.time, h.bits, h.nonce, check_validity=False), block.transactions, check_validity=False)
    elif t in ("commitment", "witness-nonce") and len(txs[0]["vout"]) > 1:
        d = json.loads(json.dumps(txs))
        if t == "commitment":
            d[0]["vout"][-1]["spk"] = d[0]["vout"][-1]["spk"][:-2] + f"{int(d[0]['vout'][-1]['spk'][-2:], 16) ^ 1:02x}"  # the last one is the commitment
        else:
            d[0]["vin"][0]["witness"] = ["01" + "00" * 31]
        root, _ = ref.merkle_root_mutated([tx_ref.txid(x)[::-1] for x in d])
        # re-mine with the new merkle root so that only the commitment is wrong
        hb = bytearray(hdr); hb[36:68] = root; n2 = _mine(hb)
        h = block.header
        tb = Block(BlockHeader(h.version, h.previous_block_hash, root[::-1], h.time, h.bits, n2), [build.tx(x) for x in d], check_validity=False)
    elif t == "dup-tail" and len(txs) >= 2 and len(txs) % 2 == 1:
        # CVE-2012-2459: same root, one more (duplicated) transaction
        tb = Block(block.header, list(block.transactions) + [block.transactions[-1]], check_validity=False)
    elif t == "swap-txs" and len(txs) >= 3:
        l = list(block.transactions); l[1], l[2] = l[2], l[1]
        tb = Block(block.header, l, check_validity=False)
    elif t == "drop-tx" and len(txs) >= 2:
        tb = Block(block.header, list(block.transactions)[:-1], check_validity=False)
    if tb is not None:
        try:
            tb.assert_valid(REGTEST)
            raise Violation(f"blocks:tampered-block-accepted:{t}", f"txs={len(txs)}")
        except LIBEXC:
            tags.append(f"tamper={t}")
    # --- BIP158
    spent = sum(len(x["vin"]) for x in txs[1:])
    prevs = [bytes.fromhex(p) for p in case["prevs"]][:spent]
    prevs += [b"\x51"] * (spent - len(prevs))
    els = {bytes.fromhex(o["spk"]) for x in txs for o in x["vout"] if o["spk"] and not o["spk"].startswith("6a")} | {p for p in prevs if p}
    bh_internal = tx_ref.hash256(hdr)
    flt = BasicBlockFilter.from_block(block, prevs)
    want = ref.gcs_filter(bh_internal, els)
    if flt.serialize() != want:
        raise Violation("bip158:filter-bytes", f"elements={len(els)} lib={flt.serialize().hex()} ref={want.hex()}")
    if flt.element_hashes != ref.gcs_hashes(bh_internal, els):
        raise Violation("bip158:element-hashes", "")
    for e in els:
        if not flt.match(e):
            raise Violation("bip158:false-negative", e.hex())
    if els and not flt.match_any(list(els)):
        raise Violation("bip158:match_any-false-negative", "")
    q = bytes.fromhex(case["query"])
    qh = ref.gcs_hashes(bh_internal, els | {q})  # not comparable directly (range changes); use the decoded set
    k0, k1 = int.from_bytes(bh_internal[:8], "little"), int.from_bytes(bh_internal[8:16], "little")
    qv = (ref.siphash24(k0, k1, q) * (len(els) * ref.M)) >> 64 if els else None
    if flt.match(q) != (qv in set(ref.gcs_hashes(bh_internal, els)) if els else False):
        raise Violation("bip158:match-verdict", q.hex())
    back = BasicBlockFilter.parse(want, flt.block_hash)
    if back != flt or back.serialize() != want:
        raise Violation("bip158:parse-roundtrip", want.hex())
    for bad in (want + b"\x00", want + b"\xff"):
        try:
            BasicBlockFilter.parse(bad, flt.block_hash)
            raise Violation("bip158:trailing-garbage-accepted", bad.hex())
        except LIBEXC:
            pass
    prev_hdr = hashlib.sha256(b"prevhdr").digest()
    if flt.header(prev_hdr[::-1]) != ref.filter_header(want, prev_hdr)[::-1] or filter_header(flt.hash, prev_hdr[::-1]) != flt.header(prev_hdr[::-1]):
        raise Violation("bip158:header-chain", "")
    tags.append(f"elements={min(len(els), 3)}")
    # --- BIP152
    n = len(txs)
    pre_idx = sorted({0} | {p % n for p in case["prefilled"]})
    nonce = case["cb_nonce"]
    nb = case.get("narrow_ids", 0)
    if nb:
        return _check_cmpct_narrow(case, block, txs, hdr, pre_idx, nonce, nb, tags)
    sids = [ref.short_id(hdr, nonce, tx_ref.wtxid(txs[i])[::-1]) for i in range(n) if i not in pre_idx]
    if len(set(sids)) == len(sids):
        cb = CmpctBlock(block.header, nonce, sids, [PrefilledTransaction(i, block.transactions[i]) for i in pre_idx])
        for i in range(n):
            if cb.short_id(block.transactions[i].hash) != ref.short_id(hdr, nonce, tx_ref.wtxid(txs[i])[::-1]):
                raise Violation("bip152:short-id", f"tx {i}")
        missing = sorted({m % n for m in case["pool_missing"]} - set(pre_idx))
        pool = [block.transactions[i] for i in range(n) if i not in pre_idx and i not in missing]
        extras = [build.tx(dict(txs[0], lock_time=1000 + k, vin=[dict(txs[0]["vin"][0], txid="ab" * 32, vout=k)])) for k in range(case["pool_extra"])]
        pool = pool + extras + pool[:1]  # a duplicate too
        import random as _r
        _r.Random(case["pool_shuffle"]).shuffle(pool)
        pb = reconstruct(cb, pool)
        if pb.missing_indexes != missing:
            raise Violation("bip152:missing-indexes", f"lib={pb.missing_indexes} expected={missing}")
        full = pb.fill([block.transactions[i] for i in missing], check_validity=False)
        if full.serialize(check_validity=False) != block.serialize(check_validity=False):
            raise Violation("bip152:reconstructed-block-differs", "")
        if missing:
            wrong = [extras[0] if extras else block.transactions[0]] * len(missing)
            try:
                bad_block = pb.fill(wrong, check_validity=False)
                bad_block.assert_valid(REGTEST)
                raise Violation("bip152:wrong-fill-accepted", "")
            except LIBEXC:
                pass
        tags.append(f"missing={min(len(missing), 2)}")
    return Outcome(len(txs) >= 2, tuple(tags))


def _check_cmpct_narrow(case, block, txs, hdr, pre_idx, nonce, nb, tags):
    """Short ids cut to nb bits for this one case (patching compact_blocks._short_id), so that pool collisions happen:
    a position whose short id is matched by two *different* pool transactions must be reported missing (BIP152: re-request)."""
    import btclib.p2p.compact_blocks as cbm

    mask = (1 << nb) - 1
    real = cbm._short_id
    cbm._short_id = lambda key, wtxid: real(key, wtxid) & mask
    try:
        n = len(txs)
        sid = lambda t: ref.short_id(hdr, nonce, tx_ref.wtxid(t)[::-1]) & mask
        pos = [i for i in range(n) if i not in pre_idx]
        sids = [sid(txs[i]) for i in pos]
        if len(set(sids)) != len(sids):
            return Outcome(False, tuple(tags) + ("narrow-block-collides",))
        cb = CmpctBlock(block.header, nonce, sids, [PrefilledTransaction(i, block.transactions[i]) for i in pre_idx])
        # the cut ids reach the matching only if reconstruct derives its ids through the module's _short_id: with the block's own transactions and nothing
        # else in the pool every position must be found; if not, the hook is not where this sub-case assumes and the case is left out (no verdict)
        if pos and reconstruct(cb, [build.tx(txs[i]) for i in pos]).missing_indexes:
            return Outcome(False, tuple(tags) + ("narrow-ids-hook-not-in-effect",))
        extras_d = [dict(txs[0], lock_time=2000 + k, vin=[dict(txs[0]["vin"][0], txid="cd" * 32, vout=k)]) for k in range(case["pool_extra"] + 2)]
        drop = {m % n for m in case["pool_missing"]}
        pool_d = [txs[i] for i in pos if i not in drop] + extras_d
        import random as _r
        _r.Random(case["pool_shuffle"]).shuffle(pool_d)
        pb = reconstruct(cb, [build.tx(t) for t in pool_d])
        want_missing = []
        for i, s_ in zip(pos, sids):
            matches = {tx_ref.wtxid(t) for t in pool_d if sid(t) == s_}
            if len(matches) != 1:
                want_missing.append(i)
            elif pb.transactions[i] is not None and pb.transactions[i].hash not in matches:
                raise Violation("bip152:wrong-transaction-placed", f"position {i}")
        if pb.missing_indexes != want_missing:
            raise Violation("bip152:missing-indexes-under-collision", f"lib={pb.missing_indexes} expected={want_missing} bits={nb}")
        # a uniquely matched foreign transaction is placed (that is what a short id is); the merkle root is what refuses it later
        return Outcome(True, tuple(tags) + (f"narrow={nb}", f"collisions={len([1 for i, s_ in zip(pos, sids) if len({tx_ref.wtxid(t) for t in pool_d if sid(t) == s_}) > 1])}"))
    finally:
        cbm._short_id = real


# ---------------------------------------------------------------- compact targets
@st.composite
def compact_case(draw):
    exp = draw(st.one_of(st.integers(3, 0x20), st.integers(0, 0x24), st.integers(0, 255)))  # the exponents targets have, their neighbours, and all of them
    sig = draw(st.one_of(st.sampled_from([0, 1, 0x7FFFFF, 0x800000, 0x008000, 0x00FFFF, 0x000080, 0x80FFFF, 0xFFFFFF, 0x010000, 0x0000FF]), st.integers(0, 0xFFFFFF)))
    tlen = draw(st.one_of(st.just(32), st.just(32), st.integers(0, 33)))
    lead = draw(st.sampled_from([0x01, 0x7F, 0x80, 0xFF, 0x00]))
    return {"bits": (exp << 24) | sig, "raw_bits": draw(st.integers(0, 2**32 - 1)), "use_raw": draw(st.booleans()),
            "target": (bytes([lead]) + draw(st.binary(min_size=max(tlen - 1, 0), max_size=max(tlen - 1, 0))))[:tlen].hex(),
            "timespan": draw(st.one_of(st.sampled_from([0, 1, 302399, 302400, 302401, 1209599, 1209600, 1209601, 4838399, 4838400, 4838401, -1, -10**6]), st.integers(-10**7, 10**7))),
            "limit": draw(st.sampled_from(["1d00ffff", "207fffff", "1e0377ae"]))}


def check_compact(case):
    bits = case["raw_bits"] if case["use_raw"] else case["bits"]
    b4 = bits.to_bytes(4, "big")
    value, neg, over = ref.set_compact(bits)
    try:
        t = pow_.target_from_bits(b4)
        got = int.from_bytes(t, "big")
        if over or got != value or len(t) != 32:
            raise Violation(f"compact:target_from_bits:overflow={over}", f"bits={b4.hex()} lib={got:x} ref={value:x}")
    except BTClibValueError:
        if not over:
            raise Violation("compact:target_from_bits-refused", b4.hex())
    if not over and pow_.is_negative_bits(b4) is not neg:
        raise Violation("compact:is_negative_bits", f"bits={b4.hex()} ref={neg}")
    # targets -> bits
    tg = bytes.fromhex(case["target"])
    tv = int.from_bytes(tg, "big")
    if len(tg) < 32:
        # the property is about 256-bit targets; a shorter spelling may be read (as the number it is) or refused
        try:
            short = pow_.bits_from_target(tg)
        except BTClibValueError:
            short = None
        if short is not None and int.from_bytes(short, "big") != ref.get_compact(tv):
            raise Violation("compact:bits_from_target", f"target={tg.hex()} lib={short.hex()} ref={ref.get_compact(tv):08x}")
        tg = tg.rjust(32, b"\x00")
    if len(tg) <= 32:
        gb = pow_.bits_from_target(tg)
        if int.from_bytes(gb, "big") != ref.get_compact(tv):
            raise Violation("compact:bits_from_target", f"target={tg.hex()} lib={gb.hex()} ref={ref.get_compact(tv):08x}")
        back = int.from_bytes(pow_.target_from_bits(gb), "big")
        if back > tv:
            raise Violation("compact:rounds-up", f"target={tv:x} back={back:x}")
        if pow_.bits_from_target(pow_.target_from_bits(gb)) != gb:
            raise Violation("compact:not-idempotent", gb.hex())
        if pow_.is_negative_bits(gb):
            raise Violation("compact:bits_from_target-negative", gb.hex())
    else:
        try:
            over_bits = pow_.bits_from_target(tg)
        except BTClibValueError:
            over_bits = None
        # more than 32 bytes: a value that does not fit 256 bits is refused; zeros in front of one that fits may be forgiven, and then it is that value
        if over_bits is not None and (tv >> 256 or int.from_bytes(over_bits, "big") != ref.get_compact(tv)):
            raise Violation("compact:oversized-target-accepted", tg.hex())
    # canonical bits round trip
    if not over and not neg and value and ref.get_compact(value) == bits:
        if pow_.bits_from_target(pow_.target_from_bits(b4)) != b4:
            raise Violation("compact:canonical-roundtrip", b4.hex())
    # retarget
    lim = bytes.fromhex(case["limit"])
    if not over and not neg:
        t0 = datetime.datetime.fromtimestamp(1600000000, datetime.timezone.utc)
        t1 = t0 + datetime.timedelta(seconds=case["timespan"])
        limit_value = ref.set_compact(int.from_bytes(lim, "big"))[0]
        want = ref.next_work(bits, case["timespan"], limit_value)
        try:
            gotb = pow_.next_bits(b4, t0, t1, pow_limit_bits=lim)
        except BTClibValueError:
            if value <= limit_value:
                raise
            gotb = None  # an old target above the limit is a state no chain is in: Core's arithmetic wraps there, refusing it is as good
        if gotb is not None and int.from_bytes(gotb, "big") != want:
            raise Violation("compact:next_bits", f"bits={b4.hex()} timespan={case['timespan']} limit={lim.hex()} lib={gotb.hex()} ref={want:08x}")
    # work
    if not over and not neg and value:
        if pow_.block_work(b4) != ref.block_proof(bits):
            raise Violation("compact:block_work", b4.hex())
    exp = bits >> 24
    retarget = "retarget=" + ("none" if over or neg else "zero" if not value else "above-limit" if value > limit_value else "clamped" if want == ref.get_compact(limit_value) else "scaled")
    return Outcome(True, (f"exp{'<3' if exp < 3 else '>32' if exp > 32 else '3..32'}", f"neg={neg}", f"overflow={over}", retarget))


def compact_units(tier):
    return [[e] for e in range(256)]


def compact_run_unit(unit, col):
    (e,) = unit
    evals = nt = 0
    for k, sig in enumerate([0, 1, 0x7FFFFF, 0x800000, 0x800001, 0x008000, 0x00FFFF, 0x0000FF, 0x000080, 0xFFFFFF, 0x010000, 0x00FF00, 0x7F0000]):
        # a target with its leading byte at the exponent's position, a retarget that scales (quarter, just above a quarter, identity, three quarters, times four)
        # and the two limits
        target = (bytes(max(0, 32 - e)) + sig.to_bytes(3, "big") + bytes(29))[:32].hex() if e <= 34 else "ff" * 32
        case = {"bits": (e << 24) | sig, "raw_bits": 0, "use_raw": False, "target": target, "timespan": [302400, 302401, 1209600, 907200, 4838400][k % 5], "limit": ["207fffff", "1d00ffff"][k % 2]}
        try:
            check_compact(case)
        except Violation as v:
            col.fail(v.signature, {"unit": unit}, v.detail)
            return
        evals += 1
        nt += 1
    col.bulk(evals, nt, {"exponent": e, "significands": 13})


SUBCHECKS = [
    SubCheck("merkle", check_merkle, "root and mutation flag vs Core's ComputeMerkleRoot; model-built branches for any index; tampered leaf/index/twin index/bit/level => model verdict, never accepted for altered leaf, branch bit or root; non-trivial: >=2 leaves", merkle_case, quick=10000, thorough=100000),
    SubCheck("blocks_filters_cmpct", check_block, "regtest blocks (0..6 txs + coinbase, witness commitment built by the model): valid accepted, one tampering refused; BIP158 filter bytes = GCS model, no false negative, parse/trailing garbage, header chain; BIP152 short ids = model, reconstruct with shuffled pool/extras/duplicates, exact missing indexes, filled block byte-identical; non-trivial: >=2 transactions", block_case, quick=2000, thorough=16000),
    SubCheck("compact_target", check_compact, "compact bits over all exponents x sign/boundary significands and raw 32-bit values; targets of every byte length; retarget timespans around the clamps; work: vs arith_uint256 transcription", compact_case, quick=5000, thorough=100000),
    SubCheck("compact_all_exponents", lambda c: None, "every exponent 0..255 x 13 boundary significands; distinct by construction", units=compact_units, run_unit=compact_run_unit, exhaustive=True),
]
