"""C16 — interactive protocols complete: honest parties always agree."""

from __future__ import annotations

import base64
import csv
import hashlib
import hmac
import json
import os
from copy import deepcopy

from hypothesis import strategies as st

from btclib.bip32 import BIP32KeyOrigin
from btclib.curves.curve import CURVES, is_libsecp256k1_serving, set_libsecp256k1_serving
from btclib import kdf
from btclib import silent_payments as sp
from btclib.ecc import borromean, dh, dleq, ecies, ellswift, pedersen, ssa
from btclib.ecc import musig2 as M
from btclib.exceptions import BTClibRuntimeError, BTClibTypeError, BTClibValueError
from btclib.psbt import Psbt, PsbtIn, PsbtOut, combine, extract_tx, finalize
from btclib.psbt import musig2 as PM
from btclib.psbt import silent_payments as sp_role
from btclib.psbt.psbt import prevouts
from btclib.script.engine import verify_transaction
from btclib.script.witness import Witness
from btclib.tx import OutPoint, Tx, TxIn, TxOut
from vlib.gens import scripts as gs
from vlib.models import base58_ref, sighash_ref, tx_ref
from vlib.models import bip341_ref as m341
from vlib.models import core_script_ref as cs
from vlib.models import bip324_ref as m324
from vlib.models import bip327_ref as m327
from vlib.models import bip352_ref as m352
from vlib.models import bip374_ref as m374
from vlib.models import ec_ref, kdf_ref
from vlib.models import bip340_ref as b340
from vlib.models import fastec
from vlib.runner import VERIF, HarnessError, Outcome, SubCheck, Violation

PROPERTY = "C16"
LEVEL = "exploration"
RULE = (
    "All parties of each protocol are simulated in one process from secrets drawn by Hypothesis. MuSig2: 1..6 signers (duplicates, both key parities), "
    "given or sorted order, 0..4 plain/x-only tweaks, messages of 0..100 bytes, NonceGen with every optional argument on/off, DeterministicSign for one signer, "
    "optional adaptor, both backends; every intermediate value equals a BIP327 transcription and the aggregate verifies under the BIP340 reference. The BIP373 roles "
    "run over generated PSBTs for the four ways a musig() key reaches a taproot output and end in a transaction the engine and the Core model accept. ECDH on all 27 "
    "curves against the affine group law + SEC 1 KDF; ElligatorSwift against a BIP324 transcription on the four a=0 curves; BIE1 against an Electrum transcription with "
    "AES from `cryptography`; BIP374 proofs against a transcription, with one-field alterations; Pedersen/Borromean round trips with alterations; BIP352 sender "
    "against a transcription, each recipient's scan (full and light, labels, decoys) finds exactly its outputs with a key that opens them; BIP375 roles over generated PSBTs."
)
ASSUMPTIONS = [
    "bip327_ref / bip352_ref / bip374_ref / bip324_ref / kdf_ref transcribe the BIPs' reference code (SEC 1 / RFC 5869 / Electrum for kdf_ref); each is validated at start on the vendored BIP vector files "
    "(BIP327: all 8 files incl. error cases; BIP352: all sending and receiving vectors except the 2324-output K_max one, run on demand; BIP374: both csv files; BIP324: decode + xswiftec_inv csv; RFC 5869 A.1/A.3/A.4; "
    "X9.63 and HKDF cross-checked with `cryptography`; BIE1 on two Electrum ciphertexts)",
    "the adaptor extension has no BIP: its oracle is functional (the completed signature verifies under BIP340 and reveals t) plus the secp256k1-zkp rule that T is added to the first aggregate nonce before b is hashed",
    "a silent payment wallet is one scan key with one spend key; other spend keys under the same scan key are labels of it (BIP352's model of a recipient)",
    "for a taproot input of odd-y output key the BIP375 signer is handed the private key of the even-y point (the key `input_pub_key` names)",
    "curve parameters of the 27 catalogued curves are read from btclib.curves.CURVES as data and fed to the naive affine group law",
    "BIP373 files a nonce and a partial signature under the participant's key, so two signers holding one key cannot share a PSBT session: such generated inputs (1 in 16) are expected to be refused by the roles and count as trivial; "
    "duplicate keys are fully exercised in musig2_sessions",
    "XSwiftECInv is asked only for non-zero u (BIP324's encoder draws u from 1..p-1); its value is compared with the BIP's on curves with p = 3 mod 4 (the BIP's square root), its existence and the round trip on all four",
    "the ECIES cipher callbacks are AES-128-CBC/PKCS7 of the `cryptography` package (validated on NIST SP 800-38A F.2.1 at start)",
]
N, P = fastec.N, fastec.P
REFUSAL = (BTClibValueError, BTClibTypeError, BTClibRuntimeError)
VEC = os.path.join(VERIF, "vectors")


class backend:
    def __init__(self, serving):
        self.serving = bool(serving)

    def __enter__(self):
        self.prev = is_libsecp256k1_serving()
        set_libsecp256k1_serving(serving=self.serving)

    def __exit__(self, *a):
        set_libsecp256k1_serving(serving=self.prev)


def H(x: str) -> bytes:
    return bytes.fromhex(x)


def validate_models() -> None:
    def rows(*path):
        with open(os.path.join(VEC, *path), newline="") as f:
            return list(csv.DictReader(f))

    def load(*path):
        with open(os.path.join(VEC, *path)) as f:
            return json.load(f)

    bad = m327.validate(lambda name: load("bip327", name))
    bad += ["bip352: " + b for b in m352.validate(load("bip352", "send_and_receive_test_vectors.json"), skip_kmax=not os.environ.get("VERIF_C16_KMAX"))]
    bad += ["bip374: " + b for b in m374.validate(rows("bip374", "test_vectors_generate_proof.csv"), rows("bip374", "test_vectors_verify_proof.csv"))]
    bad += ["bip324: " + b for b in m324.validate(rows("bip324", "ellswift_decode_test_vectors.csv"), rows("bip324", "xswiftec_inv_test_vectors.csv"))]
    bad += kdf_ref.validate_kdf()
    # the AES the ECIES sub-check hands to the library: NIST SP 800-38A F.2.1 (CBC-AES128), first block
    ct = aes_encrypt(H("2b7e151628aed2a6abf7158809cf4f3c"), H("000102030405060708090a0b0c0d0e0f"), H("6bc1bee22e409f96e93d7e117393172a"))
    if ct[:16].hex() != "7649abac8119b246cee98e9b12e9197d" or len(ct) != 32 or aes_decrypt(H("2b7e151628aed2a6abf7158809cf4f3c"), H("000102030405060708090a0b0c0d0e0f"), ct) != H("6bc1bee22e409f96e93d7e117393172a"):
        bad.append("AES-128-CBC/PKCS7 callbacks")
    # KDFs against an independent implementation
    try:
        from cryptography.hazmat.primitives import hashes
        from cryptography.hazmat.primitives.kdf.hkdf import HKDF
        from cryptography.hazmat.primitives.kdf.x963kdf import X963KDF

        z = bytes(range(1, 33))
        for hname, calg in (("sha256", hashes.SHA256), ("sha1", hashes.SHA1), ("sha512", hashes.SHA512), ("sha3_256", hashes.SHA3_256)):
            for size in (1, 19, 20, 21, 32, 33, 64, 65, 100):
                for info in (b"", b"shared info"):
                    if X963KDF(calg(), size, info or None).derive(z) != kdf_ref.ansi_x9_63_kdf(z, size, HASHES[hname], info):
                        bad.append(f"x963 vs cryptography {hname} {size}")
                    if HKDF(calg(), size, info or None, b"ctx").derive(z) != kdf_ref.hkdf(z, size, HASHES[hname], info, b"ctx"):
                        bad.append(f"hkdf vs cryptography {hname} {size}")
    except ImportError:  # pragma: no cover
        pass
    # BIE1 on Electrum's own ciphertexts
    ev = load("bie1_electrum.json")
    key = int.from_bytes(hashlib.pbkdf2_hmac("sha512", ev["password"].encode(), b"", 1024), "big") % N
    for i, v in enumerate(ev["vectors"]):
        eph, ciphertext, mac = kdf_ref.bie1_split(v["armor"])
        shared = cb(fastec.mul(key, fastec.parse_pubkey(eph)))
        if kdf_ref.bie1_decrypt(v["armor"], shared, aes_decrypt).hex() != v["plaintext_hex"] or kdf_ref.bie1_encrypt(H(v["plaintext_hex"]), shared, eph, aes_encrypt) != v["armor"]:
            bad.append(f"bie1 electrum {i}")
    # ECDH x-coordinates: Wycheproof's valid secp256k1 cases with a plainly encoded public key, by both group-law models
    wp = load("ecdh_secp256k1_test.json")
    prefix = "3056301006072a8648ce3d020106052b8104000a034200"
    n_ok = 0
    k1 = CURVES["secp256k1"]
    for grp in wp["testGroups"]:
        for t in grp["tests"]:
            if t["result"] != "valid" or not t["public"].startswith(prefix) or len(t["public"]) != len(prefix) + 130:
                continue
            Q = fastec.parse_pubkey(H(t["public"][len(prefix):]))
            d = int(t["private"], 16)
            if Q is None or not 0 < d < N:
                continue
            n_ok += 1
            if fastec.mul(d, Q)[0] != int(t["shared"], 16) or (n_ok % 16 == 0 and ec_ref.mult(d, Q, k1.p, 0)[0] != int(t["shared"], 16)):
                bad.append(f"ecdh wycheproof {t['tcId']}")
    if n_ok < 50:
        bad.append(f"only {n_ok} wycheproof ecdh vectors used")
    if xb(H_ZKP).hex() != "50929b74c1a04954b78b4b6035e97a5e078a5a0f28ec96d547bfee9ace803ac0" or H_ZKP[1] != 0x31D3C6863973926E049E637CB1B5F40A36DAC28AF1766968C30C2313F3A38904:
        bad.append("zkp generator_h")
    if BIP328_CHAIN_CODE.hex() != "868087ca02a6f974c4598924c36b57762d32cb45717167e300622c7167e38965":
        bad.append("BIP328 chain code")
    if bad:
        raise HarnessError("model validation: " + "; ".join(bad[:8]))


def scalar():
    return st.one_of(st.sampled_from([1, 2, 3, N - 1, N - 2, (N - 1) // 2, (N + 1) // 2]), st.integers(1, N - 1))


def rare(k: int):
    """True once in k (sampled_from is uniform; integers(0, k) == 0 is not)."""
    return st.sampled_from([False] * (k - 1) + [True])


def hex32():
    return st.binary(min_size=32, max_size=32).map(bytes.hex)


def xb(Pt) -> bytes:
    return Pt[0].to_bytes(32, "big")


def cb(Pt) -> bytes:
    return bytes([2 + (Pt[1] & 1)]) + Pt[0].to_bytes(32, "big")


# ================================================================ 1. musig2 sessions
def tweak_st():
    value = st.one_of(st.sampled_from([0, 1, N - 1]), st.integers(0, N - 1)).map(lambda t: t.to_bytes(32, "big").hex())
    return st.tuples(value, st.sampled_from([True, True, False])).map(list)


@st.composite
def musig_case(draw, max_signers=6):
    n_keys = draw(st.sampled_from([1, 2, 2, 3, 3, 4, 5, 6][: max_signers + 2]))
    keys = draw(st.lists(scalar(), min_size=n_keys, max_size=n_keys, unique=True))
    if draw(rare(4)) and len(keys) < max_signers:  # duplicates (BIP327 allows them), at any position
        for _ in range(draw(st.integers(1, max_signers - len(keys)))):
            keys.insert(draw(st.integers(0, len(keys))), keys[draw(st.integers(0, len(keys) - 1))])
    if draw(rare(6)) and len(keys) < max_signers:  # a key and its negation
        keys.insert(draw(st.integers(0, len(keys))), N - keys[0])
    msg = draw(st.one_of(st.binary(min_size=32, max_size=32), st.binary(max_size=100)))
    other = draw(st.one_of(st.binary(min_size=len(msg), max_size=len(msg)), st.binary(max_size=40)))
    return {
        "keys": keys,
        "sort": draw(st.booleans()),
        "tweaks": [draw(tweak_st()) for _ in range(draw(st.sampled_from([0, 1, 1, 2, 2, 3, 4])))],
        "msg": msg.hex(),
        "other_msg": other.hex(),
        "rands": [draw(hex32()) for _ in keys],
        "nonce_args": draw(st.integers(0, 15)),
        "extra": draw(st.binary(max_size=40)).hex(),
        "det": draw(st.booleans()),
        "det_rand": draw(st.one_of(st.none(), hex32())),
        "adaptor": draw(st.one_of(st.none(), st.none(), scalar())),
        "swap": draw(st.integers(0, 10**6)),
        "backend": draw(st.booleans()),
    }


def _cmp(tag, got, want, detail=""):
    if got != want:
        raise Violation(tag, f"{detail} lib={got!r:.300} ref={want!r:.300}")


def bip340_verify(msg: bytes, pk: bytes, sig: bytes, pick: int) -> bool:
    """BIP340 verification by the fast model, and by the BIP's own reference code too on a quarter of the cases (80 ms each)."""
    ok = fastec.schnorr_verify(msg, pk, sig)
    if pick % 4 == 0 and b340.schnorr_verify(msg, pk, sig) is not ok:
        raise HarnessError("fastec and bip340_ref disagree on a signature")
    return ok


def check_musig(case):
    sks = list(case["keys"])
    n = len(sks)
    tweaks = [H(t) for t, _ in case["tweaks"]]
    flags = [bool(x) for _, x in case["tweaks"]]
    msg, other_msg = H(case["msg"]), H(case["other_msg"])
    bk = f"bindings={case['backend']}"
    tags = [f"signers={n}", f"tweaks={len(tweaks)}", bk, "msg32" if len(msg) == 32 else "msg-other-size"]
    with backend(case["backend"]):
        pks = [M.individual_pub_key(sk) for sk in sks]
        _cmp("musig:individual-pub-key", pks, [m327.individual_pk(sk) for sk in sks])
        if case["sort"]:
            order = sorted(range(n), key=lambda i: pks[i])
            sks, pks = [sks[i] for i in order], [pks[i] for i in order]
            _cmp("musig:key-sort", M.key_sort([pks[i] for i in reversed(range(n))]), m327.key_sort(pks))
            tags.append("sorted")
        if len(set(pks)) < n:
            tags.append("duplicate-keys")
        # --- key aggregation and tweaks
        ctx = M.key_agg_and_tweak(pks, tweaks, flags)
        want = m327.key_agg_and_tweak(pks, tweaks, flags)
        _cmp(f"musig:key-agg-and-tweak:{bk}", (ctx.Q, ctx.gacc, ctx.tacc), want, f"keys={[p.hex() for p in pks]} tweaks={case['tweaks']}")
        step = M.key_agg(pks)
        for t, x in zip(tweaks, flags):
            step = M.apply_tweak(step, t, x)
        _cmp("musig:apply-tweak-stepwise", step, ctx)
        aggpk = ctx.x_only_pub_key
        _cmp("musig:x-only-pub-key", aggpk, xb(want[0]))
        if ctx.gacc != 1:
            tags.append("gacc=-1")
        walk, negs = m327.key_agg(pks), 0
        for t, x in zip(tweaks, flags):
            negs += bool(x and walk[0][1] % 2)
            walk = m327.apply_tweak(walk, t, x)
        if negs:
            tags.append("x-only-tweak-negated-Q")
        if ctx.Q[1] % 2:
            tags.append("Q-odd")
        # --- round 1
        na = case["nonce_args"]
        extra = H(case["extra"])
        det_i = n - 1 if (case["det"] and n >= 2) else None
        secnonces, pubnonces = [None] * n, [None] * n
        for i in range(n):
            if i == det_i:
                continue
            rand_ = H(case["rands"][i])
            a_sk = sks[i] if na & 1 else None
            a_agg = aggpk if na & 2 else None
            a_msg = msg if na & 4 else None
            a_extra = extra if na & 8 else None
            sn, pn = M.nonce_gen_(rand_, a_sk, pks[i], a_agg, a_msg, a_extra)
            wsn, wpn = m327.nonce_gen_internal(rand_, None if a_sk is None else a_sk.to_bytes(32, "big"), pks[i], a_agg, a_msg, a_extra)
            _cmp("musig:nonce-gen", (bytes(sn), pn), (wsn, wpn), f"args={na}")
            secnonces[i], pubnonces[i] = sn, pn
        det_psig = None
        if det_i is not None:
            others = [pn for pn in pubnonces if pn is not None]
            aggother = M.nonce_agg(others)
            _cmp("musig:nonce-agg", aggother, m327.nonce_agg(others))
            if aggother[:33] == bytes(33) or aggother[33:] == bytes(33):
                det_i = None  # BIP327's DeterministicSign refuses an infinite aggothernonce half (cancelling nonces): not generated
                return Outcome(False, ("aggothernonce-at-infinity",))
            det_rand = None if case["det_rand"] is None else H(case["det_rand"])
            pn, det_psig = M.deterministic_sign(sks[det_i], aggother, pks, tweaks, flags, msg, det_rand)
            _cmp("musig:deterministic-sign", (pn, det_psig), m327.deterministic_sign(sks[det_i], aggother, pks, tweaks, flags, msg, det_rand))
            pubnonces[det_i] = pn
            tags.append("det-signer")
        aggnonce = M.nonce_agg(pubnonces)
        _cmp("musig:nonce-agg", aggnonce, m327.nonce_agg(pubnonces))
        # --- session
        t_adapt = case["adaptor"] if det_i is None else None  # a deterministic signer signs the session without adaptor
        T = None if t_adapt is None else cb(fastec.mul(t_adapt, fastec.G))
        session = M.SessionContext(aggnonce, pks, tweaks, flags, msg, T)
        mctx = (aggnonce, pks, tweaks, flags, msg, T)
        v = M.session_values(session)
        wv = m327.get_session_values(mctx)
        _cmp(f"musig:session-values:adaptor={T is not None}", (v.Q, v.gacc, v.tacc, v.b, v.R, v.e), wv)
        r_odd = bool(wv[4][1] % 2)
        if r_odd:
            tags.append("R-odd")
        # --- round 2
        psigs = []
        for i in range(n):
            if i == det_i:
                psigs.append(det_psig)
                continue
            spent_nonce = bytearray(secnonces[i])
            ps = M.sign(spent_nonce, sks[i], session)
            _cmp(f"musig:sign:adaptor={T is not None}", ps, m327.sign(bytes(secnonces[i]), sks[i], mctx, self_check=False), f"signer={i}")
            psigs.append(ps)
            if i == case["swap"] % n:  # "a secret nonce signs once": the bytearray is spent
                try:
                    M.sign(spent_nonce, sks[i], session)
                    raise Violation("musig:secnonce-signs-twice", "")
                except BTClibValueError:
                    pass
        for i in range(n):
            if M.partial_sig_verify_(psigs[i], pubnonces[i], pks[i], session) is not True:
                raise Violation(f"musig:honest-partial-sig-rejected:{bk}:adaptor={T is not None}", f"signer={i} of {n} Q-odd={ctx.Q[1] % 2} gacc={'-1' if ctx.gacc != 1 else '1'} R-odd={r_odd}")
            if not m327.partial_sig_verify_internal(psigs[i], pubnonces[i], pks[i], mctx):
                raise Violation("musig:partial-sig-fails-the-BIP327-verification", f"signer={i}")
            if T is None and M.partial_sig_verify(psigs[i], pubnonces, pks, tweaks, flags, msg, i) is not True:
                raise Violation(f"musig:honest-partial-sig-rejected:list-form:{bk}", f"signer={i} of {n}")
        # --- a partial signature of another session / another signer does not verify
        if other_msg != msg:
            s2 = M.SessionContext(aggnonce, pks, tweaks, flags, other_msg, T)
            j = case["swap"] % n
            got = M.partial_sig_verify_(psigs[j], pubnonces[j], pks[j], s2)
            wantv = m327.partial_sig_verify_internal(psigs[j], pubnonces[j], pks[j], (aggnonce, pks, tweaks, flags, other_msg, T))
            if got is not wantv or got:
                raise Violation(f"musig:partial-sig-of-another-message-verifies:{bk}", f"lib={got} ref={wantv}")
        if n >= 2:
            i, j = case["swap"] % n, (case["swap"] // 7) % n
            if i != j and (pubnonces[i], pks[i]) != (pubnonces[j], pks[j]):
                got = M.partial_sig_verify_(psigs[i], pubnonces[j], pks[j], session)
                wantv = m327.partial_sig_verify_internal(psigs[i], pubnonces[j], pks[j], mctx)
                if got is not wantv:
                    raise Violation(f"musig:partial-sig-cross-signer:{bk}:lib={got}:ref={wantv}", f"i={i} j={j}")
        # --- aggregation
        agg = m327.partial_sig_agg(psigs, mctx)
        if T is None:
            sig = M.partial_sig_agg(psigs, session)
            raw = sig.serialize()
            _cmp("musig:partial-sig-agg", raw, agg)
            if not bip340_verify(msg, aggpk, raw, case["swap"]):
                raise Violation("musig:aggregate-fails-BIP340", f"n={n} Q-odd={ctx.Q[1] % 2} gacc={'-1' if ctx.gacc != 1 else '1'} R-odd={r_odd} tweaks={len(tweaks)} sig={raw.hex()}")
            if ssa.verify_(msg, aggpk, sig) is not True:
                raise Violation(f"musig:aggregate-fails-ssa-verify:{bk}", "")
            try:
                M.partial_sig_agg_adaptor(psigs, session)
                raise Violation("musig:adaptor-aggregation-without-adaptor-answered", "")
            except BTClibValueError:
                pass
        else:
            tags.append("adaptor")
            pre = M.partial_sig_agg_adaptor(psigs, session)
            _cmp("musig:pre-signature", pre.r.to_bytes(32, "big") + pre.s.to_bytes(32, "big"), agg)
            if fastec.schnorr_verify(msg, aggpk, agg):
                raise Violation("musig:pre-signature-already-verifies", "")
            sig = M.adapt(pre, t_adapt, session)
            raw = sig.serialize()
            if not bip340_verify(msg, aggpk, raw, case["swap"]) or ssa.verify_(msg, aggpk, sig) is not True:
                raise Violation("musig:adapted-signature-fails-BIP340", f"n={n} R-odd={r_odd}")
            _cmp("musig:extract-adaptor", M.extract_adaptor(sig, pre, session), t_adapt.to_bytes(32, "big"), f"R-odd={r_odd}")
            try:
                M.partial_sig_agg(psigs, session)
                raise Violation("musig:plain-aggregation-of-adaptor-session-answered", "")
            except BTClibValueError:
                pass
    return Outcome(n >= 2 and len(tweaks) >= 1, tuple(tags))


# ================================================================ 2. the BIP373 roles over a PSBT
BIP328_CHAIN_CODE = hashlib.sha256(b"MuSig2MuSig2MuSig2").digest()  # BIP328
SIGHASHES = [None, None, None, 1, 2, 3, 0x81, 0x82, 0x83]
HARD = 0x80000000


def hash160(b: bytes) -> bytes:
    return hashlib.new("ripemd160", hashlib.sha256(b).digest()).digest()


def ckd_pub(K, c: bytes, i: int):
    """BIP32 CKDpub over the fast model."""
    I = hmac.new(c, cb(K) + i.to_bytes(4, "big"), hashlib.sha512).digest()
    il = int.from_bytes(I[:32], "big")
    if il >= N:
        raise HarnessError("invalid child (2^-127)")
    return m327.point_add(m327.point_mul(fastec.G, il), K), I[32:], I[:32]


def ckd_priv(k: int, c: bytes, i: int):
    I = hmac.new(c, cb(fastec.mul(k, fastec.G)) + i.to_bytes(4, "big"), hashlib.sha512).digest()
    return (int.from_bytes(I[:32], "big") + k) % N, I[32:]


def xpub_text(K, chain_code: bytes) -> str:
    return base58_ref.check_encode(H("0488b21e") + bytes(9) + chain_code + cb(K))


@st.composite
def psbt_input_case(draw, position, n_outputs):
    way = draw(st.sampled_from(["output", "internal", "derived", "leaf"]))
    updater = draw(st.sampled_from(["manual", "descriptor"]))
    # distinct keys: BIP373 keys a nonce and a partial signature by participant key and cannot carry two signers of one key, and whether a role refuses such
    # an input (and at which step) is not what the property is about; repeated keys go through the sessions of musig2_sessions
    keys = draw(st.lists(scalar(), min_size=1, max_size=4, unique=True))
    sighashes = [h for h in SIGHASHES if h is None or h & 3 != 3 or position < n_outputs]
    return {
        "way": way, "updater": updater, "keys": keys, "sort": draw(st.booleans()),
        "path": draw(st.lists(st.one_of(st.sampled_from([0, 1, HARD - 1]), st.integers(0, HARD - 1)), min_size=1, max_size=3)),
        "wildcard": draw(st.booleans()),  # descriptor: the last step of the path is the descriptor's /* at index path[-1]
        "part_derivation": draw(rare(3)),  # descriptor, way internal: every participant is xpub/<i>/* (BIP390 participant derivation)
        "chain_codes": [draw(hex32()) for _ in keys],
        "root": draw(st.one_of(st.just(""), hex32())),
        "other_key": draw(scalar()), "leaf_shape": draw(st.sampled_from(["single", "left", "right"])), "sibling": draw(st.binary(min_size=1, max_size=20)).hex(),
        "sighash": draw(st.sampled_from(sighashes)),
        "amount": draw(st.integers(1000, 10**9)), "vout": draw(st.integers(0, 2)), "sequence": draw(st.sampled_from([0xFFFFFFFF, 0xFFFFFFFE, 0xFFFFFFFD, 0, 1])),
        "extra_in": draw(st.one_of(st.none(), st.binary(max_size=20).map(bytes.hex))),
    }


@st.composite
def musig_psbt_case(draw):
    # (BIP370: a v2 psbt has a transaction version of at least 2)
    n_out = draw(st.integers(1, 2))
    n_in = draw(st.integers(1, 2))
    return {
        "inputs": [draw(psbt_input_case(i, n_out)) for i in range(n_in)],
        "outputs": [{"amount": draw(st.integers(0, 500)), "script": draw(st.sampled_from(["0014" + "11" * 20, "5120" + "79be667ef9dcbbac55a06295ce870b07029bfcdb2dce28d959f2815b16f81798", "6a0401020304"]))} for _ in range(n_out)],
        "psbt_version": (pv := draw(st.sampled_from([0, 2]))), "tx_version": draw(st.sampled_from([2, 3] if pv == 2 else [1, 2, 3])), "lock_time": draw(st.sampled_from([0, 0, 499999999, 500000000])),
        "copies": draw(st.booleans()), "serialize": draw(st.booleans()), "backend": draw(st.booleans()),
    }


def musig_input_plan(inp):
    """Everything the spend of one input is, computed by the models: participants (+ their private keys), aggregate key, tweaks, output key, psbt fields, descriptor text."""
    sks = list(inp["keys"])
    ccs = [H(c) for c in inp["chain_codes"]]
    way, desc_mode = inp["way"], inp["updater"] == "descriptor"
    path = list(inp["path"])
    part_derivation = desc_mode and way == "internal" and inp["part_derivation"]
    key_texts = []
    if part_derivation:  # participant i is xpub_i/<i>/<index>
        index = path[-1]
        for i, (sk, cc) in enumerate(zip(list(sks), ccs)):
            key_texts.append(f"{xpub_text(fastec.mul(sk, fastec.G), cc)}/{i}/*")
            k1, c1 = ckd_priv(sk, cc, i)
            sks[i] = ckd_priv(k1, c1, index)[0]
    pks = [m327.individual_pk(sk) for sk in sks]
    if not key_texts:  # in the order drawn: sorting is the library's to do
        use_xpubs = desc_mode and way == "derived"
        key_texts = [xpub_text(fastec.lift_x(int.from_bytes(pk[1:], "big"), pk[0] & 1), cc) if use_xpubs else pk.hex() for pk, cc in zip(pks, ccs)]
    if inp["sort"] or desc_mode:  # BIP390: a musig() expression aggregates its keys in KeySort order, after derivation
        order = sorted(range(len(pks)), key=lambda i: pks[i])
        sks, pks, ccs = [sks[i] for i in order], [pks[i] for i in order], [ccs[i] for i in order]
    Q = m327.key_agg(pks)[0]
    agg33 = cb(Q)
    root = H(inp["root"])
    fields: dict = {}
    tweaks, flags, leaf_h = [], [], b""
    mus = f"musig({','.join(key_texts)})"
    index = 0
    if way == "output":
        out_key = xb(Q)
        signing_key = out_key
        text = f"rawtr({mus})"
    elif way == "internal":
        if desc_mode:
            root = b""
        out_key, _ = fastec.tap_tweak_pubkey(xb(Q), root)
        fields = {"taproot_internal_key": xb(Q), "taproot_merkle_root": root}
        tweaks, flags = [fastec.tagged_hash("TapTweak", xb(Q) + root)], [True]
        signing_key = out_key
        text = f"tr({mus})"
        if part_derivation:
            index = path[-1]
    elif way == "derived":
        if desc_mode:
            root = b""
        K, c = Q, BIP328_CHAIN_CODE
        for i in path:
            K, c, il = ckd_pub(K, c, i)
            tweaks.append(il)
            flags.append(False)
        out_key, _ = fastec.tap_tweak_pubkey(xb(K), root)
        tweaks.append(fastec.tagged_hash("TapTweak", xb(K) + root))
        flags.append(True)
        fields = {"taproot_internal_key": xb(K), "taproot_merkle_root": root, "taproot_hd_key_paths": {xb(K): ([], BIP32KeyOrigin(hash160(agg33)[:4], path))}}
        signing_key = out_key
        if inp["wildcard"]:
            text = f"tr({mus}{''.join('/' + str(i) for i in path[:-1])}/*)"
            index = path[-1]
        else:
            text = f"tr({mus}{''.join('/' + str(i) for i in path)})"
    else:  # leaf: <x(Q)> OP_CHECKSIG, beside an optional sibling leaf
        script = b"\x20" + xb(Q) + b"\xac"
        sibling = H(inp["sibling"])
        sib_script = bytes([len(sibling)]) + sibling + b"\x75\x51"  # <data> OP_DROP OP_TRUE
        internal = xb(fastec.mul(inp["other_key"], fastec.G))
        me, sib = ("leaf", 0xC0, script), ("leaf", 0xC0, sib_script)
        shape = inp["leaf_shape"]
        tree = me if shape == "single" else ("branch", me, sib) if shape == "left" else ("branch", sib, me)
        leaves, root = m341.tree_helper(tree)
        out_key, par = fastec.tap_tweak_pubkey(internal, root)
        controls = {bytes([ver | par]) + internal + pth: (scr, ver) for (ver, scr), pth in leaves}
        fields = {"taproot_internal_key": internal, "taproot_merkle_root": root, "taproot_leaf_scripts": controls}
        leaf_h = m341.leaf_hash(0xC0, script)
        signing_key = xb(Q)
        sib_text = f"pk({xb(fastec.mul(inp['other_key'] % (N - 1) + 1, fastec.G)).hex()})"
        if desc_mode:  # the sibling of a descriptor is a pk() leaf of another key
            sib_script = b"\x20" + xb(fastec.mul(inp["other_key"] % (N - 1) + 1, fastec.G)) + b"\xac"
            sib = ("leaf", 0xC0, sib_script)
            tree = me if shape == "single" else ("branch", me, sib) if shape == "left" else ("branch", sib, me)
            leaves, root = m341.tree_helper(tree)
            out_key, par = fastec.tap_tweak_pubkey(internal, root)
        tree_text = f"pk({mus})" if shape == "single" else f"{{pk({mus}),{sib_text}}}" if shape == "left" else f"{{{sib_text},pk({mus})}}"
        text = f"tr({internal.hex()},{tree_text})"
    return {"sks": sks, "pks": pks, "agg33": agg33, "tweaks": tweaks, "flags": flags, "leaf_hash": leaf_h, "spk": b"\x51\x20" + out_key, "fields": fields,
            "signing_key": signing_key, "text": text, "index": index}


def check_musig_psbt(case):
    from btclib.descriptors import add_checksum, parse

    ins = case["inputs"]
    plans = [musig_input_plan(i) for i in ins]
    bk = f"bindings={case['backend']}"
    tags = [bk, f"inputs={len(ins)}", f"psbt_v{case['psbt_version']}", "copies+combine" if case["copies"] else "one-psbt"]

    def hand_off(p):
        return Psbt.b64decode(p.b64encode()) if case["serialize"] else p

    with backend(case["backend"]):
        descs = []
        for inp, plan in zip(ins, plans):
            tags += [f"{inp['way']}/{inp['updater']}", f"sighash={inp['sighash']}"]
            if inp["updater"] == "descriptor":
                d = parse(add_checksum(plan["text"]))
                got = d.script_pub_key(plan["index"]).script
                if got != plan["spk"]:
                    raise Violation(f"musig_psbt:descriptor-script-differs-from-model:{inp['way']}", f"{plan['text']} index={plan['index']} lib={got.hex()} ref={plan['spk'].hex()}")
                descs.append(d)
            else:
                descs.append(None)
        prev_txs = []
        for i, (inp, plan) in enumerate(zip(ins, plans)):
            filler = [TxOut(600 + j, H("0014") + bytes([j + 1]) * 20) for j in range(inp["vout"])]
            prev_txs.append(Tx(2, 0, [TxIn(OutPoint(bytes([i + 1]) * 32, i), sequence=0xFFFFFFFF)], [*filler, TxOut(inp["amount"], plan["spk"])]))
        vin = [TxIn(OutPoint(prev.id, inp["vout"]), sequence=inp["sequence"]) for inp, prev in zip(ins, prev_txs)]
        vout = [TxOut(o["amount"], H(o["script"])) for o in case["outputs"]]
        psbt = Psbt.from_tx(Tx(case["tx_version"], case["lock_time"], vin, vout))
        if case["psbt_version"] == 2:
            psbt = psbt.to_v2()
        # --- Updater
        for i, (inp, plan, d, prev) in enumerate(zip(ins, plans, descs, prev_txs)):
            psbt.inputs[i].witness_utxo = prev.vout[inp["vout"]]
            if d is not None:
                psbt = d.update_psbt_input(psbt, i, plan["index"])
                if psbt.inputs[i].musig2_participant_pub_keys != {plan["agg33"]: plan["pks"]}:
                    raise Violation(f"musig_psbt:descriptor-updater-participants:{inp['way']}", f"{plan['text']}")
            else:
                for k, val in plan["fields"].items():
                    setattr(psbt.inputs[i], k, val)
                raw = [ins[i]["keys"][j] for j in range(len(ins[i]["keys"]))]
                given = [m327.individual_pk(sk) for sk in raw]
                got = PM.add_participant_pub_keys(psbt.inputs[i], given, sort=inp["sort"])
                if got != plan["agg33"] or psbt.inputs[i].musig2_participant_pub_keys != {plan["agg33"]: plan["pks"]}:
                    raise Violation(f"musig_psbt:add-participant-pub-keys:sort={inp['sort']}", f"lib={got.hex()} ref={plan['agg33'].hex()}")
            if inp["sighash"] is not None:
                psbt.inputs[i].sig_hash_type = inp["sighash"]
            PM.assert_valid_participants(psbt.inputs[i])
        psbt.assert_valid()
        psbt = hand_off(psbt)
        spent = prevouts(psbt)
        spent_j = [{"value": o.value, "spk": o.script_pub_key.script.hex()} for o in spent]
        unsigned = tx_ref.parse(psbt.tx.serialize(include_witness=False))
        # --- Signers, round 1
        signers = [(i, sk) for i, plan in enumerate(plans) for sk in plan["sks"]]
        secnonces = []
        if case["copies"]:
            copies = [deepcopy(psbt) for _ in signers]
            for c, (i, sk) in zip(copies, signers):
                extra = None if ins[i]["extra_in"] is None else H(ins[i]["extra_in"])
                secnonces.append(PM.nonce_gen(c, i, sk, plans[i]["agg33"], leaf_hash=plans[i]["leaf_hash"], extra_in=extra))
            psbt = hand_off(combine([hand_off(c) for c in copies]))
        else:
            for i, sk in signers:
                extra = None if ins[i]["extra_in"] is None else H(ins[i]["extra_in"])
                secnonces.append(PM.nonce_gen(psbt, i, sk, plans[i]["agg33"], leaf_hash=plans[i]["leaf_hash"], extra_in=extra))
            psbt = hand_off(psbt)
        # --- the session every signer derives from the psbt is the model's
        models = []
        for i, (inp, plan) in enumerate(zip(ins, plans)):
            hashtype = inp["sighash"] or 0
            msg = sighash_ref.taproot(unsigned, i, spent_j, hashtype, scriptpath=bool(plan["leaf_hash"]), leaf_hash=plan["leaf_hash"])
            if msg is None:
                raise HarnessError("sighash_ref answered None for a generated hash type")
            tweaked = m327.key_agg_and_tweak(plan["pks"], plan["tweaks"], plan["flags"])[0]
            if xb(tweaked) != plan["signing_key"]:
                raise HarnessError("plan: tweaked aggregate key is not the key being spent")
            nonces = psbt.inputs[i].musig2_pub_nonces
            # one nonce per distinct participant key: a repeated key has one entry in the field (BIP373 keys it by participant)
            by_key = {kd[:33]: v for kd, v in nonces.items() if kd[33:] == cb(tweaked) + plan["leaf_hash"]}
            if set(by_key) != set(plan["pks"]):
                raise Violation("musig_psbt:nonce-field-keys", f"input {i}: {sorted(k.hex() for k in by_key)}")
            aggnonce = m327.nonce_agg([by_key[pk] for pk in dict.fromkeys(plan["pks"])]) if len(set(plan["pks"])) == len(plan["pks"]) else None
            sess = PM.session_context(psbt, i, plan["agg33"], leaf_hash=plan["leaf_hash"])
            c = sess.context
            # the session is compared by what it means: participants in order, message, and the key / sign / tweak accumulators the tweaks add up to
            # (BIP373 does not say whether consecutive plain tweaks are kept apart or summed)
            try:
                lib_acc = m327.key_agg_and_tweak([bytes(k) for k in c.pub_keys], [bytes(t) for t in c.tweaks], [bool(x) for x in c.is_xonly])
            except ValueError:
                lib_acc = None
            want = (list(plan["pks"]), m327.key_agg_and_tweak(plan["pks"], plan["tweaks"], plan["flags"]), msg)
            if (list(c.pub_keys), lib_acc, c.msg) != want:
                bad = [n for n, a, b in zip(("pub_keys", "tweaks", "msg"), (list(c.pub_keys), lib_acc, c.msg), want) if a != b]
                raise Violation(f"musig_psbt:session-differs-from-model:{inp['way']}:{'+'.join(bad)}", f"sighash={inp['sighash']} lib_msg={c.msg.hex()} ref_msg={msg.hex()}")
            if aggnonce is not None and c.agg_nonce != aggnonce:
                raise Violation("musig_psbt:session-aggnonce", "")
            models.append((c.agg_nonce, plan["pks"], plan["tweaks"], plan["flags"], msg))
        # --- round 2
        dup_refused = False
        try:
            if case["copies"]:
                copies = [deepcopy(psbt) for _ in signers]
                for c, (i, sk), sn in zip(copies, signers, secnonces):
                    want = m327.sign(bytes(sn), sk, models[i], self_check=False) if len(set(plans[i]["pks"])) == len(plans[i]["pks"]) else None
                    ps = PM.partial_sign(c, i, sn, sk, plans[i]["agg33"], leaf_hash=plans[i]["leaf_hash"])
                    if want is not None and ps != want:
                        raise Violation(f"musig_psbt:partial-signature-differs-from-model:{ins[i]['way']}", f"input {i}")
                psbt = hand_off(combine([hand_off(c) for c in copies]))
            else:
                for (i, sk), sn in zip(signers, secnonces):
                    want = m327.sign(bytes(sn), sk, models[i], self_check=False) if len(set(plans[i]["pks"])) == len(plans[i]["pks"]) else None
                    ps = PM.partial_sign(psbt, i, sn, sk, plans[i]["agg33"], leaf_hash=plans[i]["leaf_hash"])
                    if want is not None and ps != want:
                        raise Violation(f"musig_psbt:partial-signature-differs-from-model:{ins[i]['way']}", f"input {i}")
                psbt = hand_off(psbt)
            for i, plan in enumerate(plans):
                for pk in plan["pks"]:
                    if PM.partial_sig_verify(psbt, i, pk, plan["agg33"], leaf_hash=plan["leaf_hash"]) is not True:
                        raise Violation(f"musig_psbt:honest-partial-sig-rejected:{ins[i]['way']}:{bk}", f"input {i}")
            # --- Finalizer
            for i, plan in enumerate(plans):
                sig = PM.partial_sigs_agg(psbt, i, plan["agg33"], leaf_hash=plan["leaf_hash"])
                if not fastec.schnorr_verify(models[i][4], plan["signing_key"], sig.serialize()):
                    raise Violation(f"musig_psbt:aggregate-fails-BIP340:{ins[i]['way']}", f"input {i}")
                pin = psbt.inputs[i]
                if pin.musig2_pub_nonces or pin.musig2_partial_sigs or pin.musig2_participant_pub_keys:
                    raise Violation("musig_psbt:session-not-dropped", f"input {i}")
        except BTClibValueError as e:
            if any(len(set(p["pks"])) != len(p["pks"]) for p in plans):
                # BIP373 keys a nonce and a partial signature by participant key: two signers holding one key cannot both be in the field.
                # The roles then refuse (or would aggregate a wrong nonce): documented limit of the PSBT encoding, not of BIP327.
                return Outcome(False, ("duplicate-participant-refused",))
            raise Violation(f"musig_psbt:honest-session-refused:{str(e).split(':')[0][:60]}", str(e)[:300]) from e
        final = hand_off(finalize(psbt))
        tx = extract_tx(final)
        raw = tx.serialize(include_witness=True)
        txj = tx_ref.parse(raw)
        for flags in (",".join(gs.STANDARD), None):
            try:
                verify_transaction(spent, tx, flags, check_amounts=False)
            except BTClibValueError as e:
                raise Violation(f"musig_psbt:engine-rejects:{'standard' if flags else 'consensus'}:{bk}", str(e)[:300]) from e
        for j in range(len(ins)):
            code = cs.verify_input(txj, j, spent_j, set(gs.STANDARD))
            if code != "OK":
                raise Violation(f"musig_psbt:core-model-rejects:{ins[j]['way']}:{code}", f"input {j} sighash={ins[j]['sighash']}")
            w = txj["vin"][j]["witness"]
            want_len = 64 if ins[j]["sighash"] is None else 65
            if len(H(w[0])) != want_len or (plans[j]["leaf_hash"] == b"") != (len(w) == 1):
                raise Violation("musig_psbt:witness-shape", f"input {j}: {[len(x) // 2 for x in w]}")
    nt = any(len(p["sks"]) >= 2 for p in plans)
    return Outcome(nt, tuple(tags))


# ================================================================ 3. ECDH + KDF on every curve
HASHES = {"sha256": hashlib.sha256, "sha1": hashlib.sha1, "sha512": hashlib.sha512, "sha3_256": hashlib.sha3_256}
CURVE_NAMES = sorted(CURVES)


def curve_scalar(draw, ec):
    return draw(st.one_of(st.sampled_from([1, 2, ec.n - 1, ec.n - 2]), st.integers(1, ec.n - 1)))


@st.composite
def dh_case(draw):
    name = draw(st.one_of(st.sampled_from(["secp256k1", "secp256k1", "secp256r1"]), st.sampled_from(CURVE_NAMES)))
    ec = CURVES[name]
    hf = draw(st.sampled_from(sorted(HASHES)))
    hlen = HASHES[hf]().digest_size
    return {
        "curve": name, "a": curve_scalar(draw, ec), "b": curve_scalar(draw, ec),
        "size": draw(st.one_of(st.integers(1, 100), st.sampled_from([hlen - 1, hlen, hlen + 1, 2 * hlen, 3 * hlen + 1]))),
        "info": draw(st.one_of(st.none(), st.binary(max_size=40).map(bytes.hex))), "hf": hf,
        "hkdf": {"ikm": draw(st.binary(max_size=80)).hex(), "salt": draw(st.one_of(st.none(), st.binary(max_size=80).map(bytes.hex))), "info": draw(st.one_of(st.none(), st.binary(max_size=80).map(bytes.hex))),
                 "size": draw(st.one_of(st.integers(1, 100), st.sampled_from([hlen, hlen + 1, 255 * hlen - 1, 255 * hlen])))},
        "guard": draw(st.sampled_from(["none", "none", "none", "size0", "inf-point", "zero-scalar", "hkdf-too-long", "hkdf-size0"])),
        "backend": draw(st.booleans()),
    }


def check_dh(case):
    ec = CURVES[case["curve"]]
    p, a_, G = ec.p, ec._a, ec.G
    hf = HASHES[case["hf"]]
    a, b, size = case["a"], case["b"], case["size"]
    info = None if case["info"] is None else H(case["info"])
    QA, QB = ec_ref.mult(a, G, p, a_), ec_ref.mult(b, G, p, a_)
    S = ec_ref.mult(a, QB, p, a_)
    if S is None or not ec_ref.on_curve(S, p, a_, ec._b):
        raise HarnessError("model: shared point")
    z = S[0].to_bytes(ec.p_size, "big")
    want = kdf_ref.ansi_x9_63_kdf(z, size, hf, info or b"")
    bk = f"bindings={case['backend']}"
    with backend(case["backend"]):
        k1 = dh.diffie_hellman(a, QB, size, info, ec, hf)
        k2 = dh.diffie_hellman(b, QA, size, info, ec, hf)
        if k1 != k2:
            raise Violation(f"dh:parties-disagree:{case['curve']}:{bk}", f"a={a:x} b={b:x}")
        if k1 != want:
            raise Violation(f"dh:differs-from-SEC1:{'secp256k1' if case['curve'] == 'secp256k1' else 'other-curve'}:{bk}", f"curve={case['curve']} hf={case['hf']} size={size} info={case['info']} lib={k1.hex()} ref={want.hex()}")
        if kdf.ansi_x9_63_kdf(z, size, hf, info) != want:
            raise Violation("dh:ansi-x9-63-kdf", "")
        hk = case["hkdf"]
        ikm = H(hk["ikm"])
        salt = None if hk["salt"] is None else H(hk["salt"])
        hinfo = None if hk["info"] is None else H(hk["info"])
        got = kdf.hkdf(ikm, hk["size"], hf, salt, hinfo)
        ref = kdf_ref.hkdf(ikm, hk["size"], hf, salt or b"", hinfo or b"")
        if got != ref or kdf.hkdf_expand(kdf.hkdf_extract(ikm, salt, hf), hk["size"], hf, hinfo) != ref:
            raise Violation(f"dh:hkdf-differs-from-RFC5869:{case['hf']}", f"size={hk['size']}")
        g = case["guard"]
        if g != "none":
            try:
                if g == "size0":
                    r = dh.diffie_hellman(a, QB, 0, info, ec, hf)
                elif g == "inf-point":
                    r = dh.diffie_hellman(a, (7, 0), size, info, ec, hf)
                elif g == "zero-scalar":
                    r = dh.diffie_hellman(ec.n, QB, size, info, ec, hf)
                elif g == "hkdf-too-long":
                    r = kdf.hkdf(ikm, 255 * hf().digest_size + 1, hf, salt, hinfo)
                else:
                    r = kdf.hkdf(ikm, 0, hf, salt, hinfo)
                raise Violation(f"dh:guard-answered:{g}:{bk}", repr(r)[:100])
            except REFUSAL:
                pass
    return Outcome(True, (case["curve"], case["hf"], bk, f"guard={case['guard']}", "info" if info else "no-info", "size>hlen" if size > hf().digest_size else "size<=hlen"))


# ================================================================ 4. ElligatorSwift
ELL_CURVES = sorted(n for n, c in CURVES.items() if c._a == 0)


@st.composite
def ell_case(draw):
    name = draw(st.sampled_from(["secp256k1", "secp256k1", *ELL_CURVES]))
    ec = CURVES[name]
    fe = st.one_of(st.sampled_from([0, 1, 2, ec.p - 1, ec.p, ec.p + 1, 256 ** ec.p_size - 1]), st.integers(0, 256 ** ec.p_size - 1))
    return {"curve": name, "a": curve_scalar(draw, ec), "b": curve_scalar(draw, ec), "u": draw(fe), "t": draw(fe), "inv_u": [draw(fe), draw(st.integers(1, ec.p - 1)), draw(st.integers(ec.p // 2, ec.p - 1))], "backend": draw(st.booleans()),
            "refused_curve": draw(st.sampled_from([n for n in CURVE_NAMES if n not in ELL_CURVES]))}


def check_ell(case):
    ec = CURVES[case["curve"]]
    p, b_, size = ec.p, ec._b, ec.p_size
    is_k1 = case["curve"] == "secp256k1"
    bk = f"bindings={case['backend']}" if is_k1 else "python-only-curve"
    mulc = (lambda k, Pt: fastec.mul(k, Pt)) if is_k1 else (lambda k, Pt: ec_ref.mult(k, Pt, p, 0))
    a, b = case["a"], case["b"]
    A, B = mulc(a, ec.G), mulc(b, ec.G)
    tags = [case["curve"], bk]
    with backend(case["backend"]):
        # the map itself, on any pair of field elements (every 2*size bytes decode)
        u, t = case["u"], case["t"]
        ell = u.to_bytes(size, "big") + t.to_bytes(size, "big")
        want_pt = m324.ellswift_decode_point(ell, p, b_)
        if ellswift._xswiftec_var(u, t, ec) != want_pt[0]:
            raise Violation(f"ellswift:xswiftec-differs-from-BIP324:{case['curve']}", f"u={u:x} t={t:x}")
        got = ellswift.decode_var(ell, ec)
        if got != want_pt:
            raise Violation(f"ellswift:decode:{'x' if got[0] != want_pt[0] else 'y-parity'}:{bk}", f"ell={ell.hex()} lib={got} ref={want_pt}")
        if u % p == 0 or t % p == 0:
            tags.append("u-or-t=0")
        if u >= p or t >= p:
            tags.append("unreduced-field-element")
        # the inverse, on every case c
        n_t = 0
        # XSwiftECInv's u is a non-zero field element (the encoder draws it from 1..p-1); about half of them have no preimage at all
        for iu, c in [(u_ % p or 1, c_) for u_ in case["inv_u"] for c_ in range(8)]:
            tt = ellswift._xswiftec_inv_var(A[0], iu, c, ec)
            ref_t = m324.xswiftec_inv(A[0], iu, c, p, b_)
            if (tt is None) != (ref_t is None):
                raise Violation(f"ellswift:xswiftec-inv-existence:case={c}", f"{case['curve']} x={A[0]:x} u={iu:x} lib={tt} ref={ref_t}")
            if tt is None:
                continue
            n_t += 1
            if is_k1 and tt != ref_t:  # which of the two roots is returned is pinned by BIP324's vectors on secp256k1 only; elsewhere the inverse property below is what counts
                raise Violation(f"ellswift:xswiftec-inv-differs-from-BIP324:case={c}", f"{case['curve']} x={A[0]:x} u={iu:x}")
            if m324.xswiftec(iu, tt, p, b_) != A[0] or ellswift._xswiftec_var(iu, tt, ec) != A[0]:
                raise Violation(f"ellswift:xswiftec-inv-is-not-an-inverse:case={c}", f"{case['curve']} x={A[0]:x} u={iu:x} t={tt:x}")
        tags.append(f"preimages={'0' if n_t == 0 else '4-8' if n_t <= 8 else '>8'}")
        # encodings of keys
        enc_a = ellswift.create_var(a, ec)
        enc_b = ellswift.encode_var(B, ec)
        for what, enc, Pt in (("create", enc_a, A), ("encode", enc_b, B)):
            if len(enc) != 2 * size:
                raise Violation(f"ellswift:{what}:size", str(len(enc)))
            if ellswift.decode_var(enc, ec) != Pt or m324.ellswift_decode_point(enc, p, b_) != Pt:
                raise Violation(f"ellswift:{what}-does-not-decode-to-the-key:{bk}", f"y-odd={Pt[1] % 2} enc={enc.hex()} key={Pt}")
        tags.append(f"y-odd={B[1] % 2}")
        # x-only ECDH: both parties, and BIP324's hash of (ell_a, ell_b, x)
        s_a = ellswift.xdh(enc_a, enc_b, a, 0, ec)
        s_b = ellswift.xdh(enc_a, enc_b, b, 1, ec)
        shared_x = mulc(a, B)[0].to_bytes(size, "big")
        want = m324.v2_ecdh_hash(enc_a, enc_b, shared_x)
        if s_a != s_b:
            raise Violation(f"ellswift:xdh-parties-disagree:{bk}", f"a={a:x} b={b:x}")
        if s_a != want:
            raise Violation(f"ellswift:xdh-differs-from-BIP324:{bk}", f"lib={s_a.hex()} ref={want.hex()}")
        # arbitrary counterparty encoding (the map's output need not come from encode)
        s_c = ellswift.xdh(enc_a, ell, a, 0, ec)
        want_c = m324.v2_ecdh_hash(enc_a, ell, mulc(a, want_pt)[0].to_bytes(size, "big"))
        if s_c != want_c:
            raise Violation(f"ellswift:xdh-arbitrary-encoding:{bk}", f"ell={ell.hex()}")
        # a curve with a != 0 is refused
        other = CURVES[case["refused_curve"]]
        for fn in (lambda: ellswift.create_var(1, other), lambda: ellswift.decode_var(bytes(2 * other.p_size), other), lambda: ellswift.xdh(bytes(2 * other.p_size), bytes(2 * other.p_size), 1, 0, other)):
            try:
                r = fn()
                raise Violation("ellswift:curve-with-a!=0-answered", f"{case['refused_curve']} {r!r:.80}")
            except REFUSAL:
                pass
        try:
            ellswift.xdh(enc_a, enc_b, a, 2, ec)
            raise Violation("ellswift:party-2-answered", "")
        except REFUSAL:
            pass
    return Outcome(True, tuple(tags))


# ================================================================ 5. ECIES (BIE1)
def aes_encrypt(key: bytes, iv: bytes, data: bytes) -> bytes:
    from cryptography.hazmat.primitives import padding
    from cryptography.hazmat.primitives.ciphers import Cipher, algorithms, modes

    padder = padding.PKCS7(128).padder()
    enc = Cipher(algorithms.AES(key), modes.CBC(iv)).encryptor()
    return enc.update(padder.update(data) + padder.finalize()) + enc.finalize()


def aes_decrypt(key: bytes, iv: bytes, data: bytes) -> bytes:
    from cryptography.hazmat.primitives import padding
    from cryptography.hazmat.primitives.ciphers import Cipher, algorithms, modes

    dec = Cipher(algorithms.AES(key), modes.CBC(iv)).decryptor()
    unpadder = padding.PKCS7(128).unpadder()
    return unpadder.update(dec.update(data) + dec.finalize()) + unpadder.finalize()


class Counting:
    def __init__(self, f):
        self.f = f
        self.calls = 0

    def __call__(self, key, iv, data):
        self.calls += 1
        if len(key) != 16 or len(iv) != 16:
            raise HarnessError("cipher callback contract: 16-byte key and iv")
        return self.f(key, iv, data)


ECIES_TAMPERS = ["none", "none", "other-key", "flip-bit", "flip-bit", "flip-bit", "wrong-magic", "drop-block", "append-block", "truncate-mac", "whitespace", "non-canonical-base64"]


@st.composite
def ecies_case(draw):
    return {"msg": draw(st.one_of(st.binary(max_size=200), st.sampled_from([15, 16, 17, 32]).flatmap(lambda k: st.binary(min_size=k, max_size=k)))).hex(), "b": draw(scalar()),
            "eph": draw(st.one_of(st.none(), scalar())), "other": draw(scalar()), "tamper": draw(st.sampled_from(ECIES_TAMPERS)), "bit": draw(st.integers(0, 10**6)),
            "magic": draw(st.sampled_from(["BIE1", "BIE1", "BIE2"])), "spelling": draw(st.sampled_from(["point", "sec33", "sec33-hex", "sec65"])), "backend": draw(st.booleans())}


def check_ecies(case):
    msg, b, eph = H(case["msg"]), case["b"], case["eph"]
    magic = case["magic"].encode()
    B = fastec.mul(b, fastec.G)
    pub = {"point": B, "sec33": cb(B), "sec33-hex": cb(B).hex(), "sec65": b"\x04" + xb(B) + B[1].to_bytes(32, "big")}[case["spelling"]]
    bk = f"bindings={case['backend']}"
    enc, dec = Counting(aes_encrypt), Counting(aes_decrypt)
    with backend(case["backend"]):
        armor = ecies.encrypt(msg, pub, enc, eph_prv_key=eph, magic=magic)
        raw = base64.b64decode(armor, validate=True)
        if eph is not None:
            want = kdf_ref.bie1_encrypt(msg, cb(fastec.mul(eph, B)), cb(fastec.mul(eph, fastec.G)), aes_encrypt, magic)
            if armor != want:
                raise Violation(f"ecies:envelope-differs-from-Electrum-layout:{bk}", f"lib={armor[:120]} ref={want[:120]}")
        # whatever the ephemeral key, an Electrum recipient (the model's side) must read the envelope
        E = fastec.parse_pubkey(raw[4:37])
        try:
            readable = E is not None and kdf_ref.bie1_decrypt(armor, cb(fastec.mul(b, E)), aes_decrypt, magic) == msg
        except ValueError as e:  # the model's "invalid password" (MAC) or a padding error of the cipher
            readable = False
        if not readable:
            raise Violation(f"ecies:an-Electrum-recipient-cannot-read-the-envelope:{bk}", f"armor={armor[:120]}")
        got = ecies.decrypt(armor, b, dec, magic=magic)
        if got != msg:
            raise Violation(f"ecies:recipient-decrypts-something-else:{bk}", f"len={len(msg)} calls={dec.calls}")
        t = case["tamper"]
        dec2 = Counting(aes_decrypt)
        key, bad, allowed = b, armor, REFUSAL
        if t == "other-key":
            key = case["other"] if case["other"] != b else (b % (N - 1)) + 1
            allowed = (BTClibRuntimeError,)
        elif t == "flip-bit":
            arr = bytearray(raw)
            k = case["bit"] % (8 * len(arr))
            arr[k // 8] ^= 1 << (k % 8)
            bad = base64.b64encode(bytes(arr)).decode()
            if k // 8 >= 37:
                allowed = (BTClibRuntimeError,)  # ciphertext or MAC: the MAC check is what refuses
        elif t == "wrong-magic":
            bad = base64.b64encode((b"BIE2" if magic == b"BIE1" else b"BIE1") + raw[4:]).decode()
        elif t == "drop-block":
            bad = base64.b64encode(raw[:-48] + raw[-32:]).decode()
        elif t == "append-block":
            bad = base64.b64encode(raw[:-32] + bytes(16) + raw[-32:]).decode()
        elif t == "truncate-mac":
            bad = base64.b64encode(raw[:-1]).decode()
        elif t == "whitespace":
            bad = "  " + armor + "\n"
        elif t == "non-canonical-base64":
            if not armor.endswith("="):
                return Outcome(True, (t + "-not-applicable", bk))
            # the same bytes with non-zero padding bits: another spelling of one envelope
            pos = len(armor.rstrip("=")) - 1
            alphabet = "ABCDEFGHIJKLMNOPQRSTUVWXYZabcdefghijklmnopqrstuvwxyz0123456789+/"
            bad = armor[:pos] + alphabet[alphabet.index(armor[pos]) ^ 1] + armor[pos + 1 :]
        if t != "none":
            try:
                out = ecies.decrypt(bad, key, dec2, magic=magic)
            except allowed:
                out = None
            except REFUSAL as e:
                raise Violation(f"ecies:{t}:refused-with-another-class:{type(e).__name__}", str(e)[:200]) from e
            if t in ("whitespace", "non-canonical-base64"):
                # another spelling of the same authenticated bytes: a reader may forgive it or refuse it, and what it reads is the message
                if out is not None and out != msg:
                    raise Violation(f"ecies:{t}:decrypts-to-something-else", f"-> {out!r:.80}")
            else:
                if out is not None:
                    raise Violation(f"ecies:{t}:decrypts", f"-> {out!r:.80}")
                if dec2.calls:
                    raise Violation(f"ecies:{t}:cipher-invoked-on-unauthenticated-data", "")
    return Outcome(True, (f"tamper={t}", bk, f"len%16={'0' if len(msg) % 16 == 0 else 'x'}", "eph-given" if eph else "eph-drawn", case["magic"], case["spelling"]))


# ================================================================ 6. DLEQ (BIP374)
DLEQ_ALTER = ["none", "A", "B", "C", "G", "msg-bit", "msg-drop", "msg-add", "proof-bit", "proof-bit", "swap-A-C", "swap-B-G", "other-secret"]


@st.composite
def dleq_case(draw):
    return {"a": draw(scalar()), "b": draw(scalar()), "g": draw(st.one_of(st.none(), scalar())), "aux": draw(st.one_of(st.none(), hex32())), "msg": draw(st.one_of(st.none(), hex32())),
            "alter": draw(st.sampled_from(DLEQ_ALTER)), "delta": draw(scalar()), "bit": draw(st.integers(0, 511)), "spelling": draw(st.sampled_from(["point", "sec33", "sec33-hex"])), "backend": draw(st.booleans())}


def check_dleq(case):
    a, b = case["a"], case["b"]
    Gp = fastec.G if case["g"] is None else fastec.mul(case["g"], fastec.G)
    A, B, C = fastec.mul(a, Gp), fastec.mul(b, fastec.G), fastec.mul(a * b % N, fastec.G)
    aux = None if case["aux"] is None else H(case["aux"])
    msg = None if case["msg"] is None else H(case["msg"])
    sp = {"point": lambda Pt: Pt, "sec33": cb, "sec33-hex": lambda Pt: cb(Pt).hex()}[case["spelling"]]
    bk = f"bindings={case['backend']}"
    with backend(case["backend"]):
        kwargs = {} if case["g"] is None else {"G": sp(Gp)}
        proof = dleq.generate_proof(a, sp(B), aux, msg=msg, **kwargs)
        if aux is not None:
            want = m374.dleq_generate_proof(a, B, aux, Gp, msg)
            if proof != want:
                raise Violation(f"dleq:proof-differs-from-BIP374:{bk}", f"lib={proof.hex()} ref={want.hex() if want else None}")
        if not m374.dleq_verify_proof(A, B, C, proof, Gp, msg):
            raise Violation("dleq:proof-fails-BIP374-verification", f"proof={proof.hex()}")
        if dleq.verify_proof(sp(A), sp(B), sp(C), proof, msg=msg, **kwargs) is not True:
            raise Violation(f"dleq:own-proof-rejected:{bk}", "")
        dleq.assert_proof_as_valid(sp(A), sp(B), sp(C), proof, msg=msg, **kwargs)
        # one alteration of the statement or of the proof
        t = case["alter"]
        D = fastec.mul(case["delta"], fastec.G)
        A2, B2, C2, G2, msg2, proof2 = A, B, C, Gp, msg, proof
        padd = m374.add
        if t == "A":
            A2 = padd(A, D) or D
        elif t == "B":
            B2 = padd(B, D) or D
        elif t == "C":
            C2 = padd(C, D) or D
        elif t == "G":
            G2 = padd(Gp, D) or D
        elif t == "msg-bit":
            m0 = bytearray(msg or bytes(32))
            m0[(case["bit"] % 256) // 8] ^= 1 << (case["bit"] % 8)
            msg2 = bytes(m0) if msg is not None else None
            if msg is None:
                t = "none"
        elif t == "msg-drop":
            msg2 = None
            if msg is None:
                t = "none"
        elif t == "msg-add":
            msg2 = bytes(32) if msg is None else msg
            if msg is not None:
                t = "none"
        elif t == "proof-bit":
            pr = bytearray(proof)
            pr[case["bit"] // 8] ^= 1 << (case["bit"] % 8)
            proof2 = bytes(pr)
        elif t == "swap-A-C":
            A2, C2 = C, A
        elif t == "swap-B-G":
            B2, G2 = Gp, B
        elif t == "other-secret":  # a consistent statement of another secret, proved by this proof
            a3 = case["delta"]
            A2, C2 = fastec.mul(a3, Gp), fastec.mul(a3, B)
        if t != "none" and (A2, B2, C2, G2, msg2, proof2) != (A, B, C, Gp, msg, proof):
            ref = m374.dleq_verify_proof(A2, B2, C2, proof2, G2, msg2)
            got = dleq.verify_proof(sp(A2), sp(B2), sp(C2), proof2, sp(G2), msg2)
            if got is not ref:
                raise Violation(f"dleq:altered-{t}:lib={got}:ref={ref}", bk)
            if got:
                raise Violation(f"dleq:altered-{t}:verifies", "")
    return Outcome(True, (f"alter={t}", bk, "default-G" if case["g"] is None else "other-G", "msg" if msg else "no-msg", "aux" if aux else "aux-drawn", case["spelling"]))


# ================================================================ 7. Pedersen commitments and Borromean ring signatures
H_ZKP = fastec.lift_x(int.from_bytes(hashlib.sha256(b"\x04" + xb(fastec.G) + fastec.G[1].to_bytes(32, "big")).digest(), "big"), 0)  # secp256k1-zkp's generator_h


@st.composite
def pedersen_case(draw):
    name = draw(st.sampled_from(["secp256k1", "secp256k1", "secp256r1", "secp224k1", "secp160r1", "nistp521", "secp112r2"]))
    ec = CURVES[name]
    sc = st.one_of(st.sampled_from([0, 1, ec.n - 1]), st.integers(0, ec.n - 1))
    return {"curve": name, "hf": draw(st.sampled_from(["sha256", "sha256", "sha1", "sha512"])), "r1": draw(sc), "v1": draw(sc), "r2": draw(sc), "v2": draw(sc),
            "wrong": draw(st.sampled_from(["r+1", "v+1", "swap-r-v", "other-commitment", "negated"])), "backend": draw(st.booleans())}


def check_pedersen(case):
    ec = CURVES[case["curve"]]
    hf = HASHES[case["hf"]]
    p, a_, n = ec.p, ec._a, ec.n
    r1, v1, r2, v2 = case["r1"], case["v1"], case["r2"], case["v2"]
    bk = f"bindings={case['backend']}"
    with backend(case["backend"]):
        Hh = pedersen.second_generator(ec, hf)
        if not ec_ref.on_curve(Hh, p, a_, ec._b) or Hh[1] == 0:
            raise Violation("pedersen:second-generator-not-on-the-curve", case["curve"])
        # On the two cofactor-4 curves of the catalogue (secp112r2, secp128r2) the derived H has order 4n, outside <G>, so commitments there do not
        # add modulo n. The property (C16) asks that a commitment opens for what it was made for and for nothing else; additivity and "H in <G>"
        # are not in it nor in the module's documentation, so they are asserted on the cofactor-1 curves only and tagged elsewhere.
        in_subgroup = ec_ref.mult(n, Hh, p, a_) is None
        if not in_subgroup and ec.cofactor == 1:
            raise Violation("pedersen:second-generator-outside-the-group", f"{case['curve']}/{case['hf']}: n*H != infinity on a cofactor-1 curve")
        if case["curve"] == "secp256k1" and case["hf"] == "sha256" and Hh != H_ZKP:
            raise Violation("pedersen:second-generator-is-not-zkp's-H", "")

        def model(r, v):
            return ec_ref.add(ec_ref.mult(r, ec.G, p, a_, n), ec_ref.mult(v, Hh, p, a_, n), p, a_)

        def lib_commit(r, v):
            try:
                return pedersen.commit(r, v, ec, hf)
            except BTClibRuntimeError:
                return None  # documented: the commitment at infinity is refused

        C1, C2 = lib_commit(r1, v1), lib_commit(r2, v2)
        if C1 != model(r1, v1) or C2 != model(r2, v2):
            raise Violation(f"pedersen:commit-differs-from-rG+vH:{case['curve']}:{bk}", f"r={r1:x} v={v1:x}")
        tags = [case["curve"], case["hf"], bk]
        if C1 is None:
            if pedersen.verify(r1, v1, (7, 0), ec, hf):
                raise Violation("pedersen:infinity-verifies", "")
            return Outcome(False, ("commitment-at-infinity-refused",))
        if pedersen.verify(r1, v1, C1, ec, hf) is not True:
            raise Violation(f"pedersen:own-opening-rejected:{bk}", "")
        # additive homomorphism
        S = lib_commit((r1 + r2) % n, (v1 + v2) % n)
        if in_subgroup and S != (ec_ref.add(C1, C2, p, a_) if C2 is not None else C1):
            raise Violation(f"pedersen:not-homomorphic:{case['curve']}", "")
        tags.append(f"H-in-subgroup={in_subgroup}")
        w = case["wrong"]
        if w == "r+1":
            ok = pedersen.verify((r1 + 1) % n, v1, C1, ec, hf)
        elif w == "v+1":
            ok = pedersen.verify(r1, (v1 + 1) % n, C1, ec, hf)
        elif w == "swap-r-v":
            ok = pedersen.verify(v1, r1, C1, ec, hf) if r1 != v1 else False
        elif w == "negated":
            ok = pedersen.verify(r1, v1, (C1[0], p - C1[1]), ec, hf)
        else:
            ok = pedersen.verify(r1, v1, C2, ec, hf) if (C2 is not None and C2 != C1) else False
        if ok:
            raise Violation(f"pedersen:wrong-opening-verifies:{w}", "")
        tags.append(f"wrong={w}")
    return Outcome(True, tuple(tags))


BORRO_ALTER = ["none", "s+1", "s-other", "e0-bit", "ring-member", "msg", "swap-members", "drop-member", "serialized"]


@st.composite
def borromean_case(draw):
    name = draw(st.sampled_from(["secp256k1", "secp256k1", "secp256k1", "secp256r1", "secp160r1"]))
    ec = CURVES[name]
    rings = []
    for _ in range(draw(st.integers(1, 3))):
        size = draw(st.integers(1, 4))
        rings.append({"keys": [curve_scalar(draw, ec) for _ in range(size)], "pos": draw(st.integers(0, size - 1)), "k": curve_scalar(draw, ec)})
    return {"curve": name, "hf": draw(st.sampled_from(["sha256", "sha256", "sha512"])), "rings": rings, "msg": draw(st.binary(max_size=64)).hex(), "alter": draw(st.sampled_from(BORRO_ALTER)),
            "where": draw(st.integers(0, 10**6)), "delta": curve_scalar(draw, ec), "backend": draw(st.booleans())}


def check_borromean(case):
    ec = CURVES[case["curve"]]
    hf = HASHES[case["hf"]]
    p, a_, n = ec.p, ec._a, ec.n
    is_k1 = case["curve"] == "secp256k1"
    mulc = (lambda k: fastec.mul(k, fastec.G)) if is_k1 else (lambda k: ec_ref.mult(k, ec.G, p, a_))
    rings = case["rings"]
    pub_rings = [[mulc(k) for k in r["keys"]] for r in rings]
    idx = [r["pos"] for r in rings]
    sign_keys = [r["keys"][r["pos"]] for r in rings]
    ks = [r["k"] for r in rings]
    msg = H(case["msg"])
    bk = f"bindings={case['backend']}"
    with backend(case["backend"]):
        sig = borromean.sign(msg, ks, idx, sign_keys, pub_rings, ec, hf)
        if [len(x) for x in sig.s] != [len(r) for r in pub_rings]:
            raise Violation("borromean:signature-shape", "")
        if borromean.verify(msg, sig, pub_rings, ec, hf) is not True:
            raise Violation(f"borromean:own-signature-rejected:{bk}", f"{case['curve']} rings={len(rings)} positions={idx} sizes={[len(r) for r in pub_rings]}")
        t = case["alter"]
        w = case["where"]
        ri = w % len(rings)
        mi = (w // 3) % len(pub_rings[ri])
        s2 = [list(x) for x in sig.s]
        e0, rings2, msg2 = sig.e0, [list(r) for r in pub_rings], msg
        if t == "s+1":
            s2[ri][mi] = (s2[ri][mi] + 1) % n
        elif t == "s-other":
            s2[ri][mi] = case["delta"] if case["delta"] != s2[ri][mi] else (case["delta"] + 1) % n
        elif t == "e0-bit":
            eb = bytearray(e0)
            eb[(w // 8) % len(eb)] ^= 1 << (w % 8)
            e0 = bytes(eb)
        elif t == "ring-member":
            other = mulc(case["delta"])
            rings2[ri][mi] = other if other != rings2[ri][mi] else mulc((case["delta"] % (n - 1)) + 1)
        elif t == "msg":
            msg2 = msg + b"\x00"
        elif t == "swap-members":
            if len(rings2[ri]) < 2 or rings2[ri][0] == rings2[ri][1]:
                t = "none"
            else:
                rings2[ri][0], rings2[ri][1] = rings2[ri][1], rings2[ri][0]
        elif t == "drop-member":
            if len(rings2[ri]) < 2:
                t = "none"
            else:
                rings2[ri].pop(mi)
        if t == "serialized":
            if is_k1 and case["hf"] == "sha256":
                raw = sig.serialize()
                if borromean.verify(msg, raw, pub_rings) is not True or borromean.BorromeanSig.parse(raw, [len(r) for r in pub_rings]) != sig:
                    raise Violation("borromean:serialized-signature-rejected", "")
                if borromean.verify(msg, raw + b"\x00", pub_rings) or borromean.verify(msg, raw[:-1], pub_rings):
                    raise Violation("borromean:ragged-serialization-verifies", "")
            else:
                t = "none"
        elif t != "none":
            altered = borromean.BorromeanSig(e0, s2, ec)
            if borromean.verify(msg2, altered, rings2, ec, hf):
                raise Violation(f"borromean:altered-{t}:verifies", f"ring={ri} member={mi}")
    pos_kind = "first" if all(i == 0 for i in idx) else "last" if all(i == len(r) - 1 for i, r in zip(idx, pub_rings)) else "mixed"
    return Outcome(len(rings) >= 2 or len(pub_rings[0]) >= 2, (case["curve"], f"rings={len(rings)}", f"alter={t}", f"positions={pos_kind}", bk))


# ================================================================ 8. silent payments (BIP352)
SP_KINDS_ELIGIBLE = ["p2tr", "p2tr", "p2wpkh", "p2pkh", "p2sh-p2wpkh", "p2tr-script"]
SP_KINDS_OTHER = ["p2tr-nums", "p2wsh", "p2pkh-uncompressed", "p2sh-other"]
SP_LABELS = [0, 1, 7, 2**32 - 1]


def push(data: bytes) -> bytes:
    if len(data) < 0x4C:
        return bytes([len(data)]) + data
    return b"\x4c" + bytes([len(data)]) + data


@st.composite
def sp_input(draw, eligible_only=False):
    kind = draw(st.sampled_from(SP_KINDS_ELIGIBLE if eligible_only else SP_KINDS_ELIGIBLE + SP_KINDS_ELIGIBLE + SP_KINDS_OTHER))
    return {"kind": kind, "key": draw(scalar()), "txid": draw(st.one_of(st.sampled_from(["00" * 31 + "01", "ff" * 32, "01" + "00" * 31]), hex32())),
            "vout": draw(st.sampled_from([0, 1, 2, 255, 256, 65536, 2**32 - 2])), "annex": draw(st.booleans()), "malleate": draw(st.integers(0, 3)), "junk": draw(st.binary(min_size=1, max_size=40)).hex()}


@st.composite
def sp_case(draw, max_inputs=4, max_recipients=5):
    inputs = [draw(sp_input(eligible_only=True))] + draw(st.lists(sp_input(), max_size=max_inputs - 1))
    order = draw(st.permutations(range(len(inputs))))
    inputs = [inputs[i] for i in order]
    seen = set()
    for i in inputs:  # an outpoint is spent once
        if (i["txid"], i["vout"]) in seen:
            i["vout"] = next(v for v in range(3, 10) if (i["txid"], v) not in seen)
        seen.add((i["txid"], i["vout"]))
    n_w = draw(st.integers(1, 3))
    scans = draw(st.lists(scalar(), min_size=n_w, max_size=n_w, unique=True))
    wallets = [{"scan": sc, "spend": draw(scalar()), "labels": draw(st.lists(st.sampled_from(SP_LABELS), max_size=3, unique=True))} for sc in scans]
    recipients = []
    for _ in range(draw(st.integers(1, max_recipients))):
        w = draw(st.integers(0, n_w - 1))
        lab = wallets[w]["labels"]
        recipients.append({"wallet": w, "label": draw(st.one_of(st.none(), st.sampled_from(lab))) if lab else None})
    decoy = st.one_of(hex32(), st.sampled_from(["00" * 32, "ff" * 32, "79be667ef9dcbbac55a06295ce870b07029bfcdb2dce28d959f2815b16f81798", "00" * 31 + "05"]))
    return {"inputs": inputs, "wallets": wallets, "recipients": recipients, "decoys": draw(st.lists(decoy, max_size=3)), "shuffle": draw(st.integers(0, 10**6)),
            "network": draw(st.sampled_from(["mainnet", "testnet", "regtest", "signet"])), "zero_sum": draw(rare(12)), "backend": draw(st.booleans())}


def sp_input_parts(inp):
    """-> (spk, script_sig, witness stack, public key the protocol counts or None, is_taproot) by the BIP's rules"""
    kind, key = inp["kind"], inp["key"]
    Pt = fastec.mul(key, fastec.G)
    sig, junk = bytes(71), H(inp["junk"])
    mal = inp["malleate"]
    if kind in ("p2tr", "p2tr-script", "p2tr-nums"):
        spk = b"\x51\x20" + xb(Pt)
        annex = [b"\x50" + junk] if inp["annex"] else []
        if kind == "p2tr":
            stack = [bytes(64), *annex]
        else:
            internal = m352.NUMS_H if kind == "p2tr-nums" else xb(fastec.mul(key % (N - 1) + 1, fastec.G))
            stack = [junk, b"\x51", b"\xc0" + internal + (bytes(32) if mal & 1 else b""), *annex]
        return spk, b"", stack, (None if kind == "p2tr-nums" else fastec.lift_x(Pt[0], 0)), True
    if kind == "p2wpkh":
        return b"\x00\x14" + hash160(cb(Pt)), b"", [sig, cb(Pt)], Pt, False
    if kind == "p2sh-p2wpkh":
        redeem = b"\x00\x14" + hash160(cb(Pt))
        return b"\xa9\x14" + hash160(redeem) + b"\x87", push(redeem), [sig, cb(Pt)], Pt, False
    if kind == "p2sh-other":
        redeem = b"\x51"
        return b"\xa9\x14" + hash160(redeem) + b"\x87", push(redeem), [], None, False
    if kind == "p2wsh":
        return b"\x00\x20" + hashlib.sha256(b"\x51").digest(), b"", [b"\x51"], None, False
    if kind == "p2pkh-uncompressed":
        pub = b"\x04" + xb(Pt) + Pt[1].to_bytes(32, "big")
        return b"\x76\xa9\x14" + hash160(pub) + b"\x88\xac", push(sig) + push(pub), [], None, False
    # p2pkh, possibly with a malleated scriptSig (BIP352: the key is looked for anywhere in it)
    ss = push(sig) + push(cb(Pt))
    if mal == 1:
        ss = push(junk) + ss
    elif mal == 2:
        ss = ss + push(junk) + b"\x75"
    elif mal == 3:
        ss = b"\x00" + push(sig) + push(cb(Pt)) + push(junk) + b"\x75" + b"\x75"
    return b"\x76\xa9\x14" + hash160(cb(Pt)) + b"\x88\xac", ss, [], Pt, False


def check_sp(case):
    inputs = [dict(i) for i in case["inputs"]]
    parts = [sp_input_parts(i) for i in inputs]
    if case["zero_sum"]:  # one more input whose key cancels the sum of the others: the documented refusal
        a_sum = sum((N - i["key"] if (pt[4] and fastec.mul(i["key"], fastec.G)[1] % 2) else i["key"]) for i, pt in zip(inputs, parts) if pt[3] is not None) % N
        if a_sum:
            inputs.append({"kind": "p2wpkh", "key": N - a_sum, "txid": "ab" * 32, "vout": 7, "annex": False, "malleate": 0, "junk": "00"})
            parts.append(sp_input_parts(inputs[-1]))
    net = case["network"]
    hrp = "sp" if net == "mainnet" else "tsp"
    bk = f"bindings={case['backend']}"
    wallets = []
    for w in case["wallets"]:
        B_scan, B_spend = fastec.mul(w["scan"], fastec.G), fastec.mul(w["spend"], fastec.G)
        wallets.append({**w, "B_scan": B_scan, "B_spend": B_spend})
    tags = [bk, f"inputs={len(inputs)}", f"recipients={len(case['recipients'])}", f"wallets={len(wallets)}"]
    with backend(case["backend"]):
        # --- what the recipient reads off each signed input
        for inp, (spk, ss, stack, Pt, _tap) in zip(inputs, parts):
            want = m352.get_pubkey_from_input(spk, ss, stack)
            if want != Pt:
                raise HarnessError(f"model pubkey extraction disagrees with the construction: {inp['kind']}")
            got = sp.pub_key_from_input(spk, ss, Witness(stack))
            if got != Pt:
                raise Violation(f"sp:pub-key-from-input:{inp['kind']}:malleate={inp['malleate'] if inp['kind'] == 'p2pkh' else '-'}", f"lib={got} ref={Pt}")
            tags.append(f"in:{inp['kind']}")
        eligible = [(inp, pt) for inp, pt in zip(inputs, parts) if pt[3] is not None]
        prv_keys = [(inp["key"], pt[0]) for inp, pt in eligible]
        pub_keys = [(fastec.mul(inp["key"], fastec.G), pt[0]) for inp, pt in eligible]  # the full point of the signing key, as a wallet holds it
        outpoints = [OutPoint(H(i["txid"]), i["vout"]) for i in inputs]
        ops = [m352.outpoint_bytes(i["txid"], i["vout"]) for i in inputs]
        if any(pt[4] and fastec.mul(inp["key"], fastec.G)[1] % 2 for inp, pt in eligible):
            tags.append("taproot-key-negated")
        # --- addresses
        addresses, recips = [], []
        for r in case["recipients"]:
            w = wallets[r["wallet"]]
            if r["label"] is None:
                B_m = w["B_spend"]
                addr = sp.address_from_keys(w["B_scan"], B_m, net)
            else:
                B_m = m352.labeled_spend_key(w["scan"], w["B_spend"], r["label"])
                addr = sp.labeled_address_from_keys(w["scan"], w["B_spend"], r["label"], net)
                if sp.label_tweak(w["scan"], r["label"]) != m352.generate_label(w["scan"], r["label"]):
                    raise Violation("sp:label-tweak", f"m={r['label']}")
            if addr != m352.encode_address(w["B_scan"], B_m, hrp):
                raise Violation(f"sp:address-differs-from-BIP352:labelled={r['label'] is not None}:{net}", f"lib={addr}")
            if sp.keys_from_address(addr) != (w["B_scan"], B_m, "main" if net == "mainnet" else "test"):
                raise Violation("sp:keys-from-address", addr)
            addresses.append(addr)
            recips.append((w["B_scan"], B_m))
        # --- sender
        model_out = m352.create_outputs([(inp["key"], pt[4]) for inp, pt in eligible], ops, recips)
        if model_out is None:
            tags.append("input-keys-sum-to-zero")
            for what, fn in (("sender", lambda: sp.output_keys(prv_keys, outpoints, addresses)),
                             ("scanner", lambda: sp.scan_transaction_outputs(wallets[0]["scan"], wallets[0]["B_spend"], outpoints, pub_keys, [bytes(32)], None))):
                try:
                    r = fn()
                except REFUSAL:
                    continue
                # BIP352: the sender fails, the scanner skips the transaction (refusing it or finding nothing in it)
                if what == "sender" or r:
                    raise Violation(f"sp:zero-sum-answered:{what}:{bk}", repr(r)[:200])
            return Outcome(True, tuple(tags))
        a_sum = sp.prv_key_sum(prv_keys)
        A_sum_m = None
        for inp, pt in eligible:
            A_sum_m = m352.add(A_sum_m, pt[3])
        if fastec.mul(a_sum, fastec.G) != A_sum_m:
            raise Violation("sp:prv-key-sum-is-not-the-key-of-the-public-sum", "")
        A_sum = sp.pub_key_sum([pt[3] for _, pt in eligible])
        if A_sum != A_sum_m:
            raise Violation("sp:pub-key-sum", "")
        h_m = m352.get_input_hash(ops, A_sum_m)
        if sp.input_hash(outpoints, A_sum) != h_m:
            raise Violation("sp:input-hash-differs-from-BIP352", f"outpoints={[o.hex() for o in ops]}")
        keys = sp.output_keys(prv_keys, outpoints, addresses)
        if sorted(keys) != sorted(model_out):
            raise Violation(f"sp:output-keys-differ-from-BIP352:{bk}:repeated-scan-key={len({cb(r[0]) for r in recips}) < len(recips)}", f"lib={[k.hex() for k in keys]} ref={[k.hex() for k in model_out]}")
        try:
            if sp.output_keys(prv_keys, outpoints, []) != []:
                raise Violation("sp:no-recipient-no-output", "")
        except REFUSAL:
            pass  # nobody to pay: refused or answered with no output
        # --- the transaction's taproot outputs: the payments and the decoys, in a drawn order
        decoys = [H(d) for d in case["decoys"] if H(d) not in keys]
        outs = keys + decoys
        outs = [outs[i] for i in sorted(range(len(outs)), key=lambda i: hashlib.sha256(f"{case['shuffle']}:{i}".encode()).digest())]
        if any(fastec.lift_x(int.from_bytes(d, "big")) is None for d in decoys):
            tags.append("off-curve-decoy")
        tweak_pt = sp.tweak_data(outpoints, A_sum)
        if tweak_pt != fastec.mul(h_m, A_sum_m):
            raise Violation("sp:tweak-data", "")
        # --- every recipient wallet scans
        for wi, w in enumerate(wallets):
            mine = {model_out[i] for i, r in enumerate(case["recipients"]) if r["wallet"] == wi}
            lab_m = {fastec.mul(m352.generate_label(w["scan"], m), fastec.G): m352.generate_label(w["scan"], m) for m in w["labels"]}
            labels = sp.label_lookup(w["scan"], w["labels"]) if w["labels"] else None
            if labels is not None and labels != {cb(Pt): t.to_bytes(32, "big") for Pt, t in lab_m.items()}:
                raise Violation("sp:label-lookup", "")
            ref = m352.scanning(w["scan"], w["B_spend"], A_sum_m, h_m, list(outs), lab_m)
            if {x for x, _ in ref} != mine:
                raise HarnessError("model scanner does not find the model sender's outputs")
            full = sp.scan_transaction_outputs(w["scan"], w["B_spend"], outpoints, pub_keys, outs, labels)
            light = sp.scan_outputs(w["scan"], w["B_spend"], tweak_pt, outs, labels)
            for how, found in (("full", full), ("light", light)):
                got = sorted((f.pub_key, f.prv_key_tweak) for f in found)
                if [x for x, _ in got] != sorted(mine):
                    missing, extra = mine - {x for x, _ in got}, {x for x, _ in got} - mine
                    kind = "misses-own-output" if missing else "claims-foreign-output" if extra else "duplicates"
                    used = {r["label"] for r in case["recipients"] if r["wallet"] == wi}
                    raise Violation(f"sp:scan-{how}:{kind}:{bk if how == 'full' else 'python'}:labels={'yes' if used - {None} else 'no'}",
                                    f"wallet {wi} ({len(mine)} payments): found={[x.hex() for x, _ in got]} own={[x.hex() for x in sorted(mine)]}")
                if got != sorted(ref):
                    raise Violation(f"sp:scan-{how}:tweak-differs-from-BIP352", "")
                for x, t in got:
                    d = sp.prv_key_from_tweak(w["spend"], t)
                    if xb(fastec.mul(d, fastec.G)) != x:
                        raise Violation(f"sp:spend-key-does-not-open-the-output:{how}", f"wallet {wi}")
            if mine:
                tags.append(f"payments={min(len(mine), 3)}{'+labels' if any(r['label'] is not None for r in case['recipients'] if r['wallet'] == wi) else ''}")
            # both ends of the ECDH
            if sp.shared_secret(h_m * a_sum % N, w["B_scan"]) != sp.shared_secret(w["scan"], tweak_pt):
                raise Violation("sp:shared-secret-differs-between-sender-and-recipient", "")
        # --- and the documented order of the sender's answer: one key per address, in the order the addresses are given
        if keys != model_out:
            raise Violation("sp:output-keys-not-in-address-order", f"addresses by wallet={[r['wallet'] for r in case['recipients']]}: key i is not the payment to address i (the keys come grouped by scan key)")
    interleaved = any(a["wallet"] != b["wallet"] for a, b in zip(case["recipients"], case["recipients"][1:]))
    return Outcome(len(case["recipients"]) >= 2 or len(eligible) >= 2, tuple(tags + (["interleaved-wallets"] if interleaved else [])))


# ================================================================ 9. BIP375 roles over a PSBT
SP_PSBT_KINDS = ["p2tr", "p2tr", "p2wpkh", "p2pkh", "p2sh-p2wpkh", "p2tr-nums", "p2wsh"]


@st.composite
def sp_psbt_case(draw):
    kinds = [draw(st.sampled_from(SP_PSBT_KINDS[:5]))] + draw(st.lists(st.sampled_from(SP_PSBT_KINDS), max_size=3))
    kinds = [kinds[i] for i in draw(st.permutations(range(len(kinds))))]
    txids = draw(st.lists(hex32(), min_size=len(kinds), max_size=len(kinds), unique=True))  # an outpoint is spent once
    inputs = [{"kind": k, "key": draw(scalar()), "txid": t, "vout": draw(st.sampled_from([0, 1, 255, 256])), "amount": draw(st.integers(1000, 10**8))} for k, t in zip(kinds, txids)]
    n_w = draw(st.integers(1, 2))
    scans = draw(st.lists(scalar(), min_size=n_w, max_size=n_w, unique=True))
    wallets = [{"scan": sc, "spend": draw(scalar()), "labels": draw(st.lists(st.sampled_from(SP_LABELS), max_size=2, unique=True))} for sc in scans]
    outputs = []
    for _ in range(draw(st.integers(1, 4))):
        if draw(rare(4)):
            outputs.append({"script": "0014" + "22" * 20, "amount": draw(st.integers(0, 900))})
        else:
            w = draw(st.integers(0, n_w - 1))
            lab = wallets[w]["labels"]
            outputs.append({"wallet": w, "label": draw(st.one_of(st.none(), st.sampled_from(lab))) if lab else None, "amount": draw(st.integers(0, 900))})
    if not any("wallet" in o for o in outputs):
        outputs.append({"wallet": 0, "label": None, "amount": 1})
    return {"inputs": inputs, "wallets": wallets, "outputs": outputs, "share": draw(st.sampled_from(["per-input", "global"])), "aux": draw(st.one_of(st.none(), hex32())),
            "modifiable": draw(st.sampled_from([None, 0, 1, 2, 3, 7])), "serialize": draw(st.booleans()), "backend": draw(st.booleans())}


def check_sp_psbt(case):
    bk = f"bindings={case['backend']}"
    ins, psbt_ins, eligible = case["inputs"], [], []
    for i, inp in enumerate(ins):
        key = inp["key"]
        Pt = fastec.mul(key, fastec.G)
        origin = BIP32KeyOrigin(bytes([1, 2, 3, i]), [i])
        kw = {"previous_tx_id": H(inp["txid"]), "output_index": inp["vout"]}
        kind = inp["kind"]
        if kind in ("p2tr", "p2tr-nums"):
            internal = m352.NUMS_H if kind == "p2tr-nums" else xb(fastec.mul(key % (N - 1) + 1, fastec.G))
            out_key, _ = fastec.tap_tweak_pubkey(internal, b"")
            # the output key's private key, as the sender's signer holds it (even-y key of the x-only output key)
            t = int.from_bytes(fastec.tagged_hash("TapTweak", internal + b""), "big")
            d0 = key % (N - 1) + 1
            d0 = d0 if fastec.mul(d0, fastec.G)[1] % 2 == 0 else N - d0
            d = (d0 + t) % N
            kw.update(witness_utxo=TxOut(inp["amount"], b"\x51\x20" + out_key), taproot_internal_key=internal)
            if kind == "p2tr":
                Q = fastec.mul(d, fastec.G)
                eligible.append((i, d if Q[1] % 2 == 0 else N - d, d, True))
        elif kind == "p2wpkh":
            kw.update(witness_utxo=TxOut(inp["amount"], b"\x00\x14" + hash160(cb(Pt))), hd_key_paths={cb(Pt): origin})
            eligible.append((i, key, key, False))
        elif kind == "p2sh-p2wpkh":
            redeem = b"\x00\x14" + hash160(cb(Pt))
            kw.update(witness_utxo=TxOut(inp["amount"], b"\xa9\x14" + hash160(redeem) + b"\x87"), redeem_script=redeem, hd_key_paths={cb(Pt): origin})
            eligible.append((i, key, key, False))
        elif kind == "p2pkh":
            prev = Tx(2, 0, [TxIn(OutPoint(bytes([i + 1]) * 32, 0), sequence=0xFFFFFFFF)], [TxOut(5, b"\x51")] * inp["vout"] + [TxOut(inp["amount"], b"\x76\xa9\x14" + hash160(cb(Pt)) + b"\x88\xac")])
            kw.update(non_witness_utxo=prev, previous_tx_id=prev.id, hd_key_paths={cb(Pt): origin})
            eligible.append((i, key, key, False))
        else:  # p2wsh: not an input BIP352 counts
            kw.update(witness_utxo=TxOut(inp["amount"], b"\x00\x20" + hashlib.sha256(b"\x51").digest()), witness_script=b"\x51")
        psbt_ins.append(PsbtIn(**kw))
    wallets = [{**w, "B_scan": fastec.mul(w["scan"], fastec.G), "B_spend": fastec.mul(w["spend"], fastec.G)} for w in case["wallets"]]
    psbt_outs, recips = [], []
    for o in case["outputs"]:
        if "script" in o:
            psbt_outs.append(PsbtOut(amount=o["amount"], script_pub_key=H(o["script"])))
            recips.append(None)
        else:
            w = wallets[o["wallet"]]
            B_m = w["B_spend"] if o["label"] is None else m352.labeled_spend_key(w["scan"], w["B_spend"], o["label"])
            psbt_outs.append(PsbtOut(amount=o["amount"], sp_v0_info=cb(w["B_scan"]) + cb(B_m), sp_v0_label=o["label"]))
            recips.append((w["B_scan"], B_m))
    tags = [bk, case["share"], f"inputs={len(ins)}", f"eligible={len(eligible)}", f"sp-outputs={sum(r is not None for r in recips)}"] + [f"in:{i['kind']}" for i in ins]
    with backend(case["backend"]):
        psbt = Psbt(2, psbt_ins, psbt_outs, 2, {}, tx_modifiable=case["modifiable"])
        if case["serialize"]:
            psbt = Psbt.b64decode(psbt.b64encode())
        got_el = sp_role.eligible_pub_keys(psbt)
        want_el = {i: fastec.lift_x(fastec.mul(full, fastec.G)[0], 0) if tap else fastec.mul(full, fastec.G) for i, _, full, tap in eligible}
        if got_el != want_el:
            raise Violation("sp_psbt:eligible-pub-keys", f"lib={sorted(got_el)} ref={sorted(want_el)}")
        ops = [m352.outpoint_bytes(pi.previous_tx_id.hex(), pi.output_index) for pi in psbt.inputs]
        a_sum = sum(e[1] for e in eligible) % N
        if a_sum == 0:
            return Outcome(False, ("keys-sum-to-zero",))
        aux = None if case["aux"] is None else H(case["aux"])
        if case["share"] == "global":
            sp_role.set_global_share(psbt, [e[1] for e in eligible], aux)
        else:
            for i, even_key, _, _ in eligible:
                sp_role.set_input_share(psbt, i, even_key, aux)
        if case["serialize"]:
            psbt = Psbt.b64decode(psbt.b64encode())
        # the shares are the model's a*B_scan and their proofs verify under the BIP374 reference
        for w in wallets:
            sk = cb(w["B_scan"])
            if not any(r is not None and r[0] == w["B_scan"] for r in recips):
                continue
            if case["share"] == "global":
                pairs = [(psbt.sp_ecdh_shares.get(sk), psbt.sp_dleq_proofs.get(sk), fastec.mul(a_sum, fastec.G), a_sum)]
            else:
                pairs = [(psbt.inputs[i].sp_ecdh_shares.get(sk), psbt.inputs[i].sp_dleq_proofs.get(sk), fastec.mul(k, fastec.G), k) for i, k, _, _ in eligible]
            for share, proof, A, k in pairs:
                if share != cb(fastec.mul(k, w["B_scan"])):
                    raise Violation(f"sp_psbt:ecdh-share:{case['share']}", "")
                if proof is None or not m374.dleq_verify_proof(A, w["B_scan"], fastec.parse_pubkey(share), proof):
                    raise Violation(f"sp_psbt:dleq-proof-fails-BIP374:{case['share']}", "")
        sp_role.assert_shares_as_valid(psbt)
        sp_role.set_output_scripts(psbt)
        sp_role.assert_as_valid(psbt)
        if (psbt.tx_modifiable or 0) & 3:
            raise Violation("sp_psbt:modifiable-flags-not-cleared", str(psbt.tx_modifiable))
        # the scripts are BIP352's for these inputs and recipients (k counts per scan key in output order)
        model_out = m352.create_outputs([(e[1], False) for e in eligible], ops, [r for r in recips if r is not None])
        it = iter(model_out)
        for oi, (r, po) in enumerate(zip(recips, psbt.outputs)):
            if r is None:
                continue
            want = b"\x51\x20" + next(it)
            if po.script_pub_key != want:
                raise Violation("sp_psbt:output-script-differs-from-BIP352", f"{case['share']} shares, {bk}, output {oi}: lib={po.script_pub_key.hex()} ref={want.hex()}")
        # and every recipient finds its outputs in the transaction the psbt describes
        tap_outs = [po.script_pub_key[2:] for po in psbt.outputs if po.script_pub_key[:2] == b"\x51\x20"]
        outpoints = [pi.prev_out for pi in psbt.inputs]
        pub_keys = [(fastec.mul(full, fastec.G), _prev_spk(psbt.inputs[i])) for i, _, full, _ in eligible]
        for wi, w in enumerate(wallets):
            mine = sorted(po.script_pub_key[2:] for r, po, o in zip(recips, psbt.outputs, case["outputs"]) if r is not None and o["wallet"] == wi)
            labels = sp.label_lookup(w["scan"], w["labels"]) if w["labels"] else None
            found = sp.scan_transaction_outputs(w["scan"], w["B_spend"], outpoints, pub_keys, tap_outs, labels)
            if sorted(f.pub_key for f in found) != mine:
                raise Violation(f"sp_psbt:recipient-does-not-find-its-outputs:{bk}", f"wallet {wi}")
            for f in found:
                if xb(fastec.mul(sp.prv_key_from_tweak(w["spend"], f.prv_key_tweak), fastec.G)) != f.pub_key:
                    raise Violation("sp_psbt:spend-key-does-not-open-the-output", "")
    return Outcome(len(eligible) >= 2 or sum(r is not None for r in recips) >= 2, tuple(tags))


def _prev_spk(psbt_in) -> bytes:
    if psbt_in.witness_utxo is not None:
        return psbt_in.witness_utxo.script_pub_key.script
    return psbt_in.non_witness_utxo.vout[psbt_in.output_index].script_pub_key.script


SUBCHECKS = [
    SubCheck("musig2_sessions", check_musig, "whole MuSig2 sessions: every intermediate value (KeyAgg/tweaks, NonceGen, NonceAgg, session values, partial signatures, DeterministicSign, aggregate) equals the BIP327 transcription; "
             "each honest partial signature verifies (both spellings), one of another message/signer does not; the aggregate verifies under the BIP340 reference and ssa.verify_; adaptor pre-signature completes with t and reveals t. "
             "non-trivial: >=2 signers and >=1 tweak", musig_case, quick=640, thorough=8000),
    SubCheck("musig2_psbt", check_musig_psbt, "BIP373 roles (Updater by add_participant_pub_keys or by a musig() descriptor, nonce_gen, partial_sign, partial_sig_verify, partial_sigs_agg; one psbt or per-signer copies + combine; v0/v2; "
             "every taproot hash type) for the four ways the aggregate key reaches the output (output key, internal key, BIP328-derived internal key, key of a leaf): the session the library derives equals the model's "
             "(BIP341/342 message by sighash_ref, tweaks by BIP32/BIP341 formulas), partial signatures equal BIP327's, and the extracted transaction is accepted by the engine (standard + consensus flags) and the Core model. "
             "non-trivial: an input with >=2 signers", musig_psbt_case, quick=400, thorough=5000),
    SubCheck("dh_kdf", check_dh, "diffie_hellman(a, bG) == diffie_hellman(b, aG) == ANSI-X9.63-KDF(x(abG)) by the naive affine group law and the SEC 1 text, on all 27 curves, 4 hash functions, sizes around the block boundaries, "
             "shared info on/off, both backends; hkdf/hkdf_extract/hkdf_expand == RFC 5869 transcription; size 0, the point at infinity, a zero scalar and an over-long HKDF output are refused", dh_case, quick=500, thorough=6000),
    SubCheck("ellswift", check_ell, "on the four a=0 curves (secp256k1 on both backends): the map equals BIP324's XSwiftEC on any pair of field elements (0, >= p included) and decode's y parity is t's; XSwiftECInv agrees with the BIP on which "
             "of the 8 cases have a preimage and every preimage maps back; create/encode decode to the key; xdh agrees for both parties and equals the BIP's tagged hash of x(a*B); curves with a != 0 refused", ell_case, quick=500, thorough=6000),
    SubCheck("ecies", check_ecies, "encrypt == Electrum's BIE1 layout byte for byte (AES-128-CBC/PKCS7 from `cryptography`); the recipient reads the message back; another key, any flipped bit, another magic, a dropped/added block, "
             "a non-canonical base64 are refused with the documented class and the cipher callback is never invoked on them", ecies_case, quick=600, thorough=8000),
    SubCheck("dleq", check_dleq, "generate_proof == BIP374 reference (given aux), verifies under the library and the reference for default and generated G, with/without message; one altered field of (A, B, C, G, msg, proof) "
             "never verifies and the verdict equals the reference's", dleq_case, quick=600, thorough=8000),
    SubCheck("pedersen", check_pedersen, "commit == rG+vH by the affine model (H in the group; secp256k1/sha256 H is zkp's generator_h), own opening verifies, commitments add, a wrong opening does not verify; 7 curves x 3 hashes", pedersen_case, quick=300, thorough=4000),
    SubCheck("borromean", check_borromean, "1..3 rings of 1..4 keys, any signing positions: the signature verifies (object and serialized form); one altered s / e0 bit / ring member / message / member order never verifies. non-trivial: >=2 rings or a ring of >=2", borromean_case, quick=400, thorough=5000),
    SubCheck("silent_payments", check_sp, "1..5 inputs of 10 kinds (taproot keys of both parities, key and script path, annex, NUMS; p2wpkh; p2pkh with malleated scriptSig; p2sh-p2wpkh; four kinds BIP352 does not count), outpoints with "
             "byte-order-sensitive vouts, 1..3 wallets with labels m in {0,1,7,2^32-1}, 1..5 recipients with repeats and interleaved wallets, on/off-curve decoys in a drawn order: pub_key_from_input, addresses, input hash and output_keys "
             "equal the BIP352 transcription; every wallet's full scan (both backends) and light scan (tweak_data + scan_outputs) find exactly its outputs with the reference's tweaks, and b_spend + tweak opens each; a zero key sum is refused; "
             "the keys come in the order of the addresses. non-trivial: >=2 recipients or >=2 eligible inputs", sp_case, quick=500, thorough=6000),
    SubCheck("sp_psbt", check_sp_psbt, "BIP375 roles over generated v2 PSBTs (1..4 inputs of 7 kinds, per-input or global shares, labelled and repeated recipients beside ordinary outputs): shares are a*B_scan with proofs the BIP374 "
             "reference accepts, set_output_scripts derives BIP352's scripts (k per scan key in output order) and clears the modifiable flags, assert_as_valid accepts, every recipient finds its outputs", sp_psbt_case, quick=300, thorough=4000),
]
