"""C05 — wire formats are canonical: parse and serialize are mutually inverse."""

from __future__ import annotations

import base64
import datetime
import hashlib
import importlib
import inspect
import json
import pkgutil
from io import BytesIO

from hypothesis import strategies as st

import btclib
from btclib import var_bytes, var_int
from btclib.bip32 import BIP32KeyOrigin
from btclib.block import Block, BlockHeader
from btclib.ecc import bms, dsa
from btclib.exceptions import BTClibRuntimeError, BTClibTypeError, BTClibValueError
from btclib.script.witness import Witness
from btclib.tx import OutPoint, Tx, TxIn, TxOut
from vlib import build
from vlib.gens import common as g
from vlib.models import tx_ref
from vlib.runner import HarnessError, Outcome, SubCheck, Violation

PROPERTY = "C05"
LEVEL = "exploration"
RULE = (
    "Valid objects generated field by field (boundary values of every integer field and CompactSize width) -> bytes -> objects, compared with an "
    "independent wire model (vlib/models/tx_ref.py) including txid/wtxid/size/weight; valid encodings under structure-aware mutations -> parse -> "
    "serialize must reproduce the bytes exactly; JSON forms round-trip through json.dumps/loads."
)
ASSUMPTIONS = ["tx_ref transcribes Core's (Un)SerializeTransaction; validated on the sighash vectors' 500 raw transactions under C09",
               "Block validity is asked with the regtest proof-of-work limit (mainnet work cannot be generated); objects are built unchecked and then validated"]
LIBEXC = (BTClibValueError, BTClibTypeError, BTClibRuntimeError)

EXPECTED_CLASSES = {
    "btclib.bip21.Bip21", "btclib.bip32.bip32.BIP32KeyData", "btclib.bip32.key_origin.BIP32KeyOrigin", "btclib.bip322.Sig", "btclib.block.block.Block",
    "btclib.block.block_filter.BasicBlockFilter", "btclib.block.block_header.BlockHeader", "btclib.ecc.bms.Sig", "btclib.ecc.borromean.BorromeanSig", "btclib.ecc.dsa.Sig",
    "btclib.ecc.ecies.Envelope", "btclib.ecc.ssa.Sig", "btclib.network.Network", "btclib.p2p.address.NetworkAddress", "btclib.p2p.address.TimestampedNetworkAddress",
    "btclib.p2p.address.Addr", "btclib.p2p.addrv2.NetworkAddressV2", "btclib.p2p.addrv2.AddrV2", "btclib.p2p.addrv2.SendAddrV2", "btclib.p2p.block_filters._FilterRangeRequest",
    "btclib.p2p.block_filters.GetCFilters", "btclib.p2p.block_filters.GetCFHeaders", "btclib.p2p.block_filters.CFilter", "btclib.p2p.block_filters.CFHeaders",
    "btclib.p2p.block_filters.GetCFCheckpt", "btclib.p2p.block_filters.CFCheckpt", "btclib.p2p.compact_blocks.SendCmpct", "btclib.p2p.compact_blocks.PrefilledTransaction",
    "btclib.p2p.compact_blocks.CmpctBlock", "btclib.p2p.compact_blocks.GetBlockTxn", "btclib.p2p.compact_blocks.BlockTxn", "btclib.p2p.data.TxPayload", "btclib.p2p.data.BlockPayload",
    "btclib.p2p.handshake.Version", "btclib.p2p.handshake.Verack", "btclib.p2p.inventory.Inventory", "btclib.p2p.inventory._InventoryPayload", "btclib.p2p.inventory.Inv",
    "btclib.p2p.inventory.GetData", "btclib.p2p.inventory.NotFound", "btclib.p2p.inventory._LocatorPayload", "btclib.p2p.inventory.GetBlocks", "btclib.p2p.inventory.GetHeaders",
    "btclib.p2p.inventory.Headers", "btclib.p2p.keepalive._NoncePayload", "btclib.p2p.keepalive.Ping", "btclib.p2p.keepalive.Pong", "btclib.p2p.message.Message",
    "btclib.p2p.negotiation.GetAddr", "btclib.p2p.negotiation.Mempool", "btclib.p2p.negotiation.SendHeaders", "btclib.p2p.negotiation.WtxidRelay", "btclib.p2p.negotiation.FeeFilter",
    "btclib.psbt.psbt.Psbt", "btclib.psbt.psbt_in.PsbtIn", "btclib.psbt.psbt_out.PsbtOut", "btclib.script.witness.Witness", "btclib.tx.out_point.OutPoint", "btclib.tx.tx.Tx",
    "btclib.tx.tx_in.TxIn", "btclib.tx.tx_out.TxOut",
}


def validate_models() -> None:
    """The registry: every class with a parse/serialize or to_dict/from_dict pair must be one this check knows."""
    found = set()
    for m in pkgutil.walk_packages(btclib.__path__, "btclib."):
        if ".fetch" in m.name or m.name.endswith(".hwi"):
            continue
        mod = importlib.import_module(m.name)
        for n, o in vars(mod).items():
            if inspect.isclass(o) and o.__module__ == m.name and ((hasattr(o, "parse") and hasattr(o, "serialize")) or (hasattr(o, "to_dict") and hasattr(o, "from_dict")) or hasattr(o, "b64decode")):
                found.add(f"{m.name}.{n}")
    new = found - EXPECTED_CLASSES
    if new:
        # a class the library has gained is no fault of the library and no reason to stop: it is said, and the rest of the check runs
        print(f"NOTE property=C05 wire classes without a generator in this check: {sorted(new)}")


# ---------------------------------------------------------------- primitives
CS_EDGES = [0, 1, 0xFC, 0xFD, 0xFE, 0xFF, 0x100, 0xFFFF, 0x10000, 0x10001, 0xFFFFFFFF, 0x100000000, 0x02000000, 0x02000001, 2**64 - 1]


@st.composite
def prim_case(draw):
    return {"i": draw(st.one_of(st.sampled_from(CS_EDGES), st.integers(0, 2**64 - 1), st.integers(0, 70000))), "width": draw(st.sampled_from([1, 3, 5, 9])),
            "tail": draw(st.binary(max_size=3)).hex(), "blen": draw(st.sampled_from([0, 1, 0xFC, 0xFD, 0xFE, 0x100, 0xFFFF, 0x10000, 70000])), "fill": draw(st.integers(0, 255))}


def _encode_width(i, width):
    """i written with a chosen (possibly non-minimal) CompactSize width, or None if it does not fit"""
    if width == 1:
        return bytes([i]) if i < 0xFD else None
    n = {3: 2, 5: 4, 9: 8}[width]
    if i >= 2 ** (8 * n):
        return None
    return bytes([{3: 0xFD, 5: 0xFE, 9: 0xFF}[width]]) + i.to_bytes(n, "little")


def check_prim(case):
    i = case["i"]
    enc = var_int.serialize(i)
    if enc != tx_ref.compact_size(i) or len(enc) != var_int._size(i):
        raise Violation("prims:var_int-encode", f"{i}: {enc.hex()}")
    try:
        back = var_int.parse(enc, 2**64 - 1)
    except BTClibValueError:
        back = None
    if back != i:
        raise Violation("prims:var_int-roundtrip", f"{i} -> {back}")
    # default cap MAX_SIZE
    try:
        v = var_int.parse(enc)
        if i > var_int.MAX_SIZE:
            raise Violation("prims:var_int-over-MAX_SIZE-accepted", str(i))
    except BTClibValueError:
        if i <= var_int.MAX_SIZE:
            raise Violation("prims:var_int-refused-under-MAX_SIZE", str(i))
    # a chosen width: accepted iff minimal
    data = _encode_width(i, case["width"])
    if data is not None:
        s = BytesIO(data + bytes.fromhex(case["tail"]))
        try:
            v = var_int.parse(s, 2**64 - 1)
            if data != enc:
                raise Violation(f"prims:non-minimal-var_int-accepted:width={case['width']}", f"{data.hex()} -> {v}")
            if v != i or s.tell() != len(data):
                raise Violation("prims:var_int-stream-position", f"{data.hex()} read {s.tell()} of {len(data)}")
        except BTClibValueError:
            if data == enc:
                raise Violation("prims:minimal-var_int-refused", data.hex())
        # truncated
        if len(data) > 1:
            try:
                var_int.parse(data[:-1], 2**64 - 1)
                raise Violation("prims:truncated-var_int-accepted", data[:-1].hex())
            except BTClibValueError:
                pass
    # var_bytes
    b = bytes([case["fill"]]) * case["blen"]
    vb = var_bytes.serialize(b)
    if vb != tx_ref.ser_string(b) or len(vb) != var_bytes._size(b):
        raise Violation("prims:var_bytes-encode", str(case["blen"]))
    s = BytesIO(vb + bytes.fromhex(case["tail"]))
    if var_bytes.parse(s) != b or s.tell() != len(vb):
        raise Violation("prims:var_bytes-roundtrip", str(case["blen"]))
    if len(vb) > 1:
        try:
            var_bytes.parse(vb[:-1])
            raise Violation("prims:truncated-var_bytes-accepted", str(case["blen"]))
        except LIBEXC:
            pass
    return Outcome(True, (f"width={len(enc)}", "minimal" if data == enc else "non-minimal" if data else "unfit"))


# ---------------------------------------------------------------- tx objects
def _json_rt(d):
    return json.loads(json.dumps(d))


@st.composite
def tx_obj_case(draw):
    k = draw(st.integers(0, 9))
    return {"tx": draw(g.valid_tx_case(big_scripts=k in (0, 1), big_counts=k == 2)), "strip": draw(st.booleans())}


def check_tx_obj(case):
    txd = case["tx"]
    try:
        tx = build.tx(txd)  # check_validity=True: the library vouches for the object
    except LIBEXC:
        return Outcome(False, ("generator-refused",))  # the property is about the objects the library takes as valid
    full, stripped = tx_ref.serialize(txd, True), tx_ref.serialize(txd, False)
    if tx.serialize(True) != full or tx.serialize(False) != stripped:
        raise Violation(f"tx_objects:serialize-differs-from-model:witness={tx_ref.has_witness(txd)}", f"lib={tx.serialize(True).hex()} ref={full.hex()}")
    back = Tx.parse(full)
    if back != tx or back.vwitness != tx.vwitness:
        raise Violation("tx_objects:parse-back-not-equal", full.hex())
    bs = Tx.parse(stripped)
    if bs.serialize(True) != stripped or bs.id != tx.id:
        raise Violation("tx_objects:stripped-roundtrip", stripped.hex())
    if tx.id != tx_ref.txid(txd) or tx.hash != tx_ref.wtxid(txd):
        raise Violation("tx_objects:id-or-hash", "")
    sz, ssz = len(full), len(stripped)
    if tx.size != sz or tx._serialized_size(False) != ssz or tx.weight != 3 * ssz + sz or tx.vsize != -(-(3 * ssz + sz) // 4):
        raise Violation("tx_objects:size-weight-vsize", f"size={tx.size}/{sz} weight={tx.weight}/{3*ssz+sz} vsize={tx.vsize}")
    if tx.is_segwit != tx_ref.has_witness(txd):
        raise Violation("tx_objects:is_segwit", "")
    d = _json_rt(tx.to_dict())
    if Tx.from_dict(d) != tx or Tx.from_dict(d).serialize(True) != full:
        raise Violation("tx_objects:json-roundtrip", json.dumps(d)[:300])
    # parts
    for k, i in enumerate(txd["vin"]):
        ti = tx.vin[k]
        raw = tx_ref.ser_txin(i)
        if ti.serialize() != raw or TxIn.parse(raw).serialize() != raw or len(raw) != ti._serialized_size():
            raise Violation("tx_objects:txin", raw.hex())
        if TxIn.from_dict(_json_rt(ti.to_dict())) != ti:
            raise Violation("tx_objects:txin-json", "")
        op = tx_ref.ser_outpoint(i)
        if ti.prev_out.serialize() != op or OutPoint.parse(op) != ti.prev_out or OutPoint.from_dict(_json_rt(ti.prev_out.to_dict())) != ti.prev_out:
            raise Violation("tx_objects:outpoint", op.hex())
        w = tx_ref.ser_witness(i["witness"])
        if ti.script_witness.serialize() != w or Witness.parse(w) != ti.script_witness or Witness.from_dict(_json_rt(ti.script_witness.to_dict())) != ti.script_witness or ti.script_witness._serialized_size() != len(w):
            raise Violation("tx_objects:witness", w.hex())
    for k, o in enumerate(txd["vout"]):
        to = tx.vout[k]
        raw = tx_ref.ser_txout(o)
        if to.serialize() != raw or TxOut.parse(raw) != to or to._serialized_size() != len(raw) or TxOut.from_dict(_json_rt(to.to_dict())) != to:
            raise Violation("tx_objects:txout", raw.hex())
    boundary = any(len(bytes.fromhex(x)) >= 0xFD for i in txd["vin"] for x in [i["script_sig"], *i["witness"]]) or any(len(o["spk"]) >= 2 * 0xFD for o in txd["vout"])
    boundary = boundary or len(txd["vin"]) >= 252 or len(txd["vout"]) >= 252 or any(len(i["witness"]) >= 252 for i in txd["vin"])
    return Outcome(True, ("witness" if tx_ref.has_witness(txd) else "no-witness", "compactsize-boundary" if boundary else "small"))


# ---------------------------------------------------------------- tx bytes under mutation
TX_MUTS = ["none", "truncate", "append", "bitflip", "nonminimal-count", "count+1", "count-1", "marker-flag", "marker-empty-witnesses", "flag-2", "zero-inputs", "drop-locktime-byte", "script-len+1", "splice"]


@st.composite
def tx_bytes_case(draw):
    return {"tx": draw(g.tx_case(min_in=0, max_in=3, max_out=3)), "mut": draw(st.sampled_from(TX_MUTS)), "pos": draw(st.integers(0, 10**6)), "byte": draw(st.integers(0, 255)),
            "check_validity": draw(st.booleans()), "as_stream": draw(st.booleans())}


def _mutate_tx_bytes(txd, mut, pos, byte):
    raw = tx_ref.serialize(txd, True)
    wit = tx_ref.has_witness(txd)
    if mut == "truncate":
        return raw[: pos % (len(raw) + 1)]
    if mut == "append":
        return raw + bytes([byte]) * (1 + pos % 4)
    if mut == "bitflip":
        b = bytearray(raw); k = pos % (8 * len(raw)); b[k // 8] ^= 1 << (k % 8); return bytes(b)
    off = 4 + (2 if wit else 0)
    if mut == "nonminimal-count":
        n = len(txd["vin"])
        return raw[:off] + b"\xfd" + n.to_bytes(2, "little") + raw[off + 1 :] if n < 0xFD else raw
    if mut == "count+1":
        return raw[:off] + bytes([(raw[off] + 1) & 0xFF]) + raw[off + 1 :]
    if mut == "count-1":
        return raw[:off] + bytes([(raw[off] - 1) & 0xFF]) + raw[off + 1 :]
    if mut == "marker-flag":
        return raw[:4] + b"\x00\x01" + raw[4:] if not wit else raw[:4] + raw[6:]
    if mut == "marker-empty-witnesses":
        t = json.loads(json.dumps(txd))
        for i in t["vin"]:
            i["witness"] = []
        r = tx_ref.serialize(t, False)
        return r[:4] + b"\x00\x01" + r[4:-4] + b"\x00" * len(t["vin"]) + r[-4:]
    if mut == "flag-2":
        return raw[:5] + bytes([2 + byte % 250]) + raw[6:] if wit else raw
    if mut == "zero-inputs":
        t = dict(txd, vin=[])
        return tx_ref.serialize(t, False)
    if mut == "drop-locktime-byte":
        return raw[:-1]
    if mut == "script-len+1" and txd["vin"]:
        k = off + 1 + 36
        return raw[:k] + bytes([(raw[k] + 1) & 0xFF]) + raw[k + 1 :] if k < len(raw) else raw
    if mut == "splice":
        k = pos % (len(raw) + 1)
        return raw[:k] + raw[k // 2 :]
    return raw


def check_tx_bytes(case):
    data = _mutate_tx_bytes(case["tx"], case["mut"], case["pos"], case["byte"])
    cv = case["check_validity"]
    try:
        model = tx_ref.parse(data)
    except tx_ref.ParseError:
        model = None
    arg = BytesIO(data) if case["as_stream"] else data
    try:
        tx = Tx.parse(arg, check_validity=cv)
    except LIBEXC:
        tx = None
    if tx is not None:
        out = tx.serialize(True, check_validity=cv)
        if case["as_stream"]:
            # a caller's stream may hold more: what must round-trip is exactly what was consumed
            data = data[: arg.tell()]
            try:
                model = tx_ref.parse(data)
            except tx_ref.ParseError:
                model = None
        if out != data:
            raise Violation(f"tx_bytes:accepted-bytes-do-not-reserialize:{case['mut']}:cv={cv}", f"in={data.hex()} out={out.hex()}")
        if model is None:
            # e.g. `00 02` after the version: Core (witness-aware) reads an unknown flag and refuses, the library reads
            # "no inputs, two outputs" and writes the same bytes back -- the property is the identity, which holds
            return Outcome(True, (case["mut"], "accepted-core-refuses", f"cv={cv}"))
        if tx.id != tx_ref.txid(model) or tx.hash != tx_ref.wtxid(model) or tx.size != len(data):
            raise Violation("tx_bytes:ids-of-accepted-bytes", data.hex())
    elif model is not None and not cv:
        # which of the encodings Core reads an unchecked parse refuses is the parser's choice (the property is about what it accepts): counted, not judged
        return Outcome(False, (case["mut"], "refused-core-parses", f"cv={cv}"))
    return Outcome(tx is not None and len(data) > 10, (case["mut"], "accepted" if tx is not None else "refused", f"cv={cv}"))


# ---------------------------------------------------------------- block header / block
GENESIS_TS = 1231006505
REGTEST_BITS = bytes.fromhex("207fffff")


def _mine(hdr80: bytearray):
    """regtest target 0x7fffff * 256^(0x20-3): about 2 tries"""
    target = 0x7FFFFF << (8 * (0x20 - 3))
    for nonce in range(10000):
        hdr80[76:80] = nonce.to_bytes(4, "little")
        if int.from_bytes(tx_ref.hash256(bytes(hdr80)), "little") <= target:
            return nonce
    raise HarnessError("cannot mine a regtest header")


def _merkle(hashes):
    hs = list(hashes)
    while len(hs) > 1:
        if len(hs) % 2:
            hs.append(hs[-1])
        hs = [tx_ref.hash256(hs[i] + hs[i + 1]) for i in range(0, len(hs), 2)]
    return hs[0]


@st.composite
def block_case(draw):
    ntx = draw(st.integers(0, 4))
    txs = [draw(g.valid_tx_case(max_in=2, max_out=2)) for _ in range(ntx)]
    for t in txs:
        for i in t["vin"]:
            i["witness"] = []  # keeps the block free of a witness commitment requirement
    return {"version": draw(st.one_of(st.sampled_from([1, 2, 4, 0x20000000, 0x7FFFFFFF]), st.integers(1, 0x7FFFFFFF))), "prev": draw(g.hex32()),
            "time": draw(st.one_of(st.sampled_from([GENESIS_TS, 0xFFFFFFFF, GENESIS_TS + 1]), st.integers(GENESIS_TS, 0xFFFFFFFF))),
            "height": draw(st.integers(0, 2**31 - 1)), "cb_script_extra": draw(st.binary(max_size=40)).hex(), "cb_value": draw(st.integers(0, 50 * 10**8)),
            "txs": txs, "mut": draw(st.sampled_from(["none", "none", "truncate", "append", "count+1", "nonminimal-count", "bitflip"])), "pos": draw(st.integers(0, 10**6))}


def check_block(case):
    # coinbase with a BIP34 height push
    h = case["height"]
    hb = h.to_bytes((h.bit_length() + 8) // 8 or 1, "little") if h > 16 else b""
    push = (bytes([len(hb)]) + hb) if h > 16 else (bytes([0x50 + h]) if h else b"\x00")
    cb_script = (push + bytes.fromhex(case["cb_script_extra"]) + b"\x00\x00")[:100]
    coinbase = {"version": 1, "lock_time": 0, "vin": [{"txid": "00" * 32, "vout": 0xFFFFFFFF, "script_sig": cb_script.hex(), "sequence": 0xFFFFFFFF, "witness": []}],
                "vout": [{"value": case["cb_value"], "spk": "51"}]}
    txs = [coinbase] + json.loads(json.dumps(case["txs"]))
    for k, t in enumerate(txs[1:]):
        t["vin"][0]["vout"] = k  # distinct transactions (a duplicated transaction is an invalid block)
        t["vin"][0]["txid"] = "11" * 32
        t["vin"] = t["vin"][:1]
    root = _merkle([tx_ref.txid(t)[::-1] for t in txs])
    hdr = bytearray(case["version"].to_bytes(4, "little") + bytes.fromhex(case["prev"])[::-1] + root + case["time"].to_bytes(4, "little") + REGTEST_BITS[::-1] + b"\x00" * 4)
    nonce = _mine(hdr)
    raw_hdr = bytes(hdr)
    raw = raw_hdr + tx_ref.compact_size(len(txs)) + b"".join(tx_ref.serialize(t, True) for t in txs)
    # objects
    header = BlockHeader(case["version"], bytes.fromhex(case["prev"]), root[::-1], datetime.datetime.fromtimestamp(case["time"], datetime.timezone.utc), REGTEST_BITS, nonce)
    if header.serialize() != raw_hdr:
        raise Violation("block:header-serialize-differs-from-model", f"lib={header.serialize().hex()} ref={raw_hdr.hex()}")
    if BlockHeader.parse(raw_hdr) != header or header.hash != tx_ref.hash256(raw_hdr)[::-1] or BlockHeader.from_dict(_json_rt(header.to_dict())) != header:
        raise Violation("block:header-roundtrip", raw_hdr.hex())
    for bad in (raw_hdr[:-1], raw_hdr + b"\x00"):
        try:
            BlockHeader.parse(bad)
            raise Violation("block:header-wrong-length-accepted", bad.hex())
        except LIBEXC:
            pass
    try:
        block = Block(header, [build.tx(t) for t in txs], check_validity=False)
        block.assert_valid(REGTEST_BITS)
    except LIBEXC:
        return Outcome(False, ("generator-refused",))  # the property is about the blocks the library takes as valid
    ser = block.serialize(check_validity=False)
    if ser != raw:
        raise Violation("block:serialize-differs-from-model", "")
    back = Block.parse(raw, check_validity=False)
    if back != block or back.serialize(check_validity=False) != raw:
        raise Violation("block:parse-back", "")
    stripped_len = 80 + len(tx_ref.compact_size(len(txs))) + sum(len(tx_ref.serialize(t, False)) for t in txs)
    if block.size != len(raw) or block.stripped_size != stripped_len or block.weight != 3 * stripped_len + len(raw) or block.vsize != -(-(3 * stripped_len + len(raw)) // 4):
        raise Violation("block:sizes", f"{block.size} {block.stripped_size} {block.weight} {block.vsize}")
    if case["height"] > 16 and block.height != (None if case["version"] == 1 else case["height"]):
        raise Violation("block:bip34-height", f"{block.height} vs {case['height']}")
    d = _json_rt(block.to_dict(check_validity=False))
    if Block.from_dict(d, check_validity=False) != block:
        raise Violation("block:json-roundtrip", "")
    # bytes under mutation
    mut, pos = case["mut"], case["pos"]
    data = raw
    if mut == "truncate":
        data = raw[: pos % len(raw)]
    elif mut == "append":
        data = raw + b"\x00"
    elif mut == "count+1":
        data = raw[:80] + bytes([raw[80] + 1]) + raw[81:]
    elif mut == "nonminimal-count":
        data = raw[:80] + b"\xfd" + len(txs).to_bytes(2, "little") + raw[81:]
    elif mut == "bitflip":
        b = bytearray(raw); k = pos % (8 * len(raw)); b[k // 8] ^= 1 << (k % 8); data = bytes(b)
    try:
        blk = Block.parse(data, check_validity=False)
    except LIBEXC:
        blk = None
    if blk is not None and blk.serialize(check_validity=False) != data:
        raise Violation(f"block:accepted-bytes-do-not-reserialize:{mut}", data.hex()[:400])
    if blk is not None and mut in ("truncate", "append", "count+1", "nonminimal-count"):
        raise Violation(f"block:malformed-accepted:{mut}", "")
    return Outcome(True, (f"txs={len(txs)}", mut))


# ---------------------------------------------------------------- key origin + signatures
@st.composite
def misc_case(draw):
    return {"fp": draw(st.binary(min_size=4, max_size=4)).hex(), "path": draw(st.lists(st.one_of(st.sampled_from([0, 1, 2**31 - 1, 2**31, 2**32 - 1]), st.integers(0, 2**32 - 1)), max_size=10)),
            "extra": draw(st.binary(max_size=3)).hex(), "rf": draw(st.one_of(st.integers(27, 42), st.integers(0, 255))), "r": draw(st.integers(0, 2**256 - 1)), "s": draw(st.integers(0, 2**256 - 1)),
            "valid_sig": draw(st.booleans()), "q": draw(st.integers(1, 2**200)), "b64mut": draw(st.sampled_from(["none", "pad", "space", "noncanonical", "urlsafe"]))}


def check_misc(case):
    fp, path = bytes.fromhex(case["fp"]), case["path"]
    ko = BIP32KeyOrigin(fp, path)
    raw = fp + b"".join(i.to_bytes(4, "little") for i in path)
    if ko.serialize() != raw or BIP32KeyOrigin.parse(raw) != ko or BIP32KeyOrigin.from_dict(_json_rt(ko.to_dict())) != ko or BIP32KeyOrigin.from_description(ko.description) != ko:
        raise Violation("misc:key-origin-roundtrip", raw.hex())
    extra = bytes.fromhex(case["extra"])
    if len(extra) % 4:
        try:
            BIP32KeyOrigin.parse(raw + extra)
            raise Violation("misc:key-origin-ragged-accepted", (raw + extra).hex())
        except LIBEXC:
            pass
    # bms.Sig: 65 bytes / base64
    if case["valid_sig"]:
        from vlib.models import ecdsa_ref as eref
        from vlib.models.bip340_ref import G, n, p
        w = eref.sign_with_nonce(case["r"] % n, 1 + case["q"] % (n - 1), 1 + case["s"] % (n - 1), (p, 0, 7, G, n), True)
        r, s = w[0], w[1]
    else:
        r, s = case["r"], case["s"]
    data = bytes([case["rf"]]) + r.to_bytes(32, "big") + s.to_bytes(32, "big")
    try:
        sig = bms.Sig.parse(data)
    except LIBEXC:
        sig = None
    if sig is not None:
        if sig.serialize() != data or not 27 <= case["rf"] <= 42:
            raise Violation("misc:bms-sig-roundtrip-or-flag", data.hex())
        b64 = sig.b64encode()
        if b64 != base64.b64encode(data).decode() or bms.Sig.b64decode(b64) != sig:
            raise Violation("misc:bms-b64", b64)
        m = case["b64mut"]
        alt = {"none": b64, "pad": b64 + "=", "space": b64[:10] + " " + b64[10:], "noncanonical": b64[:-2] + chr(ord(b64[-2]) ^ 1) + b64[-1] if b64.endswith("=") else b64, "urlsafe": b64.replace("+", "-").replace("/", "_")}[m]
        if alt != b64:
            try:
                s2 = bms.Sig.b64decode(alt)
                if s2.b64encode() != alt:
                    raise Violation(f"misc:bms-b64-noncanonical-accepted:{m}", alt)
            except LIBEXC:
                pass
    elif case["valid_sig"] and 27 <= case["rf"] <= 42:
        raise Violation("misc:bms-valid-sig-refused", data.hex())
    for bad in (data[:-1], data + b"\x00"):
        try:
            bms.Sig.parse(bad)
            raise Violation("misc:bms-wrong-length-accepted", bad.hex())
        except LIBEXC:
            pass
    return Outcome(True, ("bms-accepted" if sig is not None else "bms-refused",))


# ---------------------------------------------------------------- extended keys, ECDSA and BIP340 signatures as wire objects
N_SECP = 0xFFFFFFFFFFFFFFFFFFFFFFFFFFFFFFFEBAAEDCE6AF48A03BBFD25E8CD0364141


@st.composite
def keysig_case(draw):
    return {"kind": draw(st.sampled_from(["xkey", "xkey", "dsa", "dsa", "ssa"])), "net": draw(st.sampled_from(["mainnet", "testnet", "regtest", "signet"])), "prv": draw(st.booleans()),
            "which": draw(st.integers(0, 7)), "depth": draw(st.sampled_from([0, 1, 2, 5, 254, 255])), "fp": draw(st.binary(min_size=4, max_size=4)).hex(),
            "index": draw(st.one_of(st.sampled_from([0, 1, 2**31 - 1, 2**31, 2**32 - 1]), st.integers(0, 2**32 - 1))), "cc": draw(st.binary(min_size=32, max_size=32)).hex(),
            "k": draw(st.one_of(st.sampled_from([1, 2, N_SECP - 1]), st.integers(1, N_SECP - 1))),
            "r": draw(st.one_of(st.sampled_from([1, 127, 128, 255, 256, 2**255 - 1, 2**255, N_SECP - 1]), st.integers(1, N_SECP - 1))),
            "s": draw(st.one_of(st.sampled_from([1, 127, 128, 2**255 - 1, 2**255, N_SECP - 1]), st.integers(1, N_SECP - 1))),
            "edit": draw(st.sampled_from(["none", "none", "trailing", "short", "pad-r", "long-form-length", "total-length", "flip"])), "pos": draw(st.integers(0, 200)), "as_stream": draw(st.booleans())}


def check_keysig(case):
    from btclib.bip32 import BIP32KeyData
    from btclib.ecc import ssa
    from btclib.network import NETWORKS
    from vlib.models import base58_ref, ecdsa_ref, fastec

    kind, edit = case["kind"], case["edit"]
    if kind == "xkey":
        net = NETWORKS[case["net"]]
        names = [n for n in dir(net) if (n.endswith("_prv") if case["prv"] else n.endswith("_pub")) and isinstance(getattr(net, n), bytes) and len(getattr(net, n)) == 4]
        version = getattr(net, sorted(names)[case["which"] % len(names)])
        depth = case["depth"]
        fp, index = (bytes(4), 0) if depth == 0 else (bytes.fromhex(case["fp"]), case["index"])
        key = b"\x00" + case["k"].to_bytes(32, "big") if case["prv"] else bip32_ser_p(fastec.mul(case["k"], fastec.G))
        raw = version + bytes([depth]) + fp + index.to_bytes(4, "big") + bytes.fromhex(case["cc"]) + key
        try:
            obj = BIP32KeyData(version, depth, fp, index, bytes.fromhex(case["cc"]), key)
        except LIBEXC:
            return Outcome(False, ("xkey", "generator-refused"))
        cls, text = BIP32KeyData, base58_ref.check_encode(raw)
        if obj.b58encode() != text or BIP32KeyData.b58decode(text) != obj:
            raise Violation("keys_sigs:xkey-base58", text)
    elif kind == "dsa":
        r, s = case["r"], case["s"]
        if fastec.lift_x(r) is None:  # the class takes r only where some curve point has it as x (mod n): the drawn number picks such a point
            r = fastec.mul(r, fastec.G)[0] % N_SECP or 1
        raw = ecdsa_ref.der_encode(r, s)
        try:
            obj = dsa.Sig(r, s)
        except LIBEXC:
            return Outcome(False, ("dsa", "generator-refused"))
        cls = dsa.Sig
    else:
        r, s = case["r"] % fastec.P or 1, case["s"]
        if fastec.lift_x(r) is None:
            return Outcome(False, ("ssa", "r-not-an-x-coordinate"))
        raw = r.to_bytes(32, "big") + s.to_bytes(32, "big")
        try:
            obj = ssa.Sig(r, s)
        except LIBEXC:
            return Outcome(False, ("ssa", "generator-refused"))
        cls = ssa.Sig
    if obj.serialize() != raw:
        raise Violation(f"keys_sigs:{kind}:serialize-differs-from-model", f"lib={obj.serialize().hex()} ref={raw.hex()}")
    stream = BytesIO(raw + b"\xaa\xbb")
    if cls.parse(raw) != obj or cls.parse(raw.hex()) != obj or (kind != "dsa" and (cls.parse(stream) != obj or stream.tell() != len(raw))):
        raise Violation(f"keys_sigs:{kind}:parse-back-not-equal", raw.hex())
    # the bytes under an edit: whatever is accepted is written back as it was read
    if edit == "none":
        return Outcome(True, (kind, "valid"))
    if edit == "trailing":
        data = raw + b"\x00"
    elif edit == "short":
        data = raw[:-1]
    elif edit == "flip":
        k = case["pos"] % len(raw)
        data = raw[:k] + bytes([raw[k] ^ (1 << (case["pos"] % 8))]) + raw[k + 1:]
    elif kind != "dsa":
        return Outcome(False, (kind, "edit-not-applicable"))
    elif edit == "pad-r":  # a superfluous leading zero octet on r (and the lengths adjusted): not DER
        rl = raw[3]
        data = bytes([0x30, raw[1] + 1, 0x02, rl + 1, 0x00]) + raw[4:]
    elif edit == "long-form-length":  # the sequence length in the long form where the short one fits
        data = bytes([0x30, 0x81, raw[1]]) + raw[2:]
    else:  # total-length: the sequence claims one octet more than follows
        data = bytes([0x30, raw[1] + 1]) + raw[2:]
    try:
        got = cls.parse(BytesIO(data) if case["as_stream"] and kind != "dsa" and edit != "trailing" else data)
    except LIBEXC:
        got = None
    if got is not None:
        try:
            out = got.serialize()
        except LIBEXC as e:
            raise Violation(f"keys_sigs:{kind}:accepted-bytes-refused-by-the-writer:{edit}", f"{data.hex()}: {e}") from e
        if out != data:
            raise Violation(f"keys_sigs:{kind}:accepted-bytes-do-not-reserialize:{edit}", f"in={data.hex()} out={out.hex()}")
    return Outcome(True, (kind, edit, "accepted" if got is not None else "refused"))


def bip32_ser_p(P) -> bytes:
    return bytes([2 + (P[1] & 1)]) + P[0].to_bytes(32, "big")


from checks import c05_p2p, c05_psbt  # noqa: E402

SUBCHECKS = [
    SubCheck("psbt", c05_psbt.check_psbt, "PSBT v0/v2 with every optional field present/absent (falsy-but-present values forced): object -> bytes -> object equal, base64, to_dict/from_dict through JSON, lone input/output maps; the bytes re-assembled by an independent map splitter with shuffled keys / added unknown keys / duplicated keys / a final script beside signing fields: parse, re-serialize is a fixed point holding exactly the same multiset of (map, key, value) pairs; non-trivial: >=6 key-value pairs", c05_psbt.psbt_case, quick=900, thorough=12000),
    SubCheck("p2p", c05_p2p.check_p2p, "every p2p payload class and the Message envelope: valid objects (field-by-field generators) serialize, parse back equal (modulo the documented include_witness normalisation), frame into a Message and back; the serialization under truncation/extension/bit flips/count edits/splices is refused or re-serializes to exactly the consumed bytes; non-trivial: non-empty payload", lambda: c05_p2p.p2p_case(), quick=2500, thorough=40000),
    SubCheck("p2p_blocks", c05_p2p.check_p2p_slow, "BlockPayload over real mainnet blocks", lambda: c05_p2p.p2p_case(["BlockPayload"]), quick=16, thorough=200, shards=2),
    SubCheck("prims", check_prim, "CompactSize / var_bytes: encode = model, decode inverse, stream position exact, non-minimal widths and truncations refused, MAX_SIZE cap", prim_case, quick=4000, thorough=40000),
    SubCheck("tx_objects", check_tx_obj, "valid transactions (and their inputs, outpoints, witnesses, outputs): serialize = independent model, parse back equal, id/hash/size/weight/vsize of the bytes, JSON round trip", tx_obj_case, quick=1200, thorough=15000),
    SubCheck("tx_bytes", check_tx_bytes, "serialized transactions under truncation, extension, bit flips, non-minimal/edited counts, marker/flag edits, splices, with check_validity on/off, bytes or stream: accepted => identical re-serialization and Core's parser accepts; non-trivial: accepted and longer than 10 bytes", tx_bytes_case, quick=6000, thorough=100000),
    SubCheck("blocks", check_block, "regtest-mined headers and blocks of 1..5 transactions: serialize = model, parse back, sizes/weight, BIP34 height, JSON; mutated bytes re-serialize identically or are refused", block_case, quick=500, thorough=5000),
    SubCheck("keys_sigs", check_keysig, "valid extended keys (every version of four networks, depths 0..255, boundary indexes), ECDSA signatures (DER, boundary r and s) and BIP340 signatures as wire objects: serialize = the layout "
             "written by hand (78 bytes / DER / 64 bytes), parse back equal from bytes, hex text and a stream left at the end of the encoding, base58 form of keys; then the bytes with a trailing byte, a byte short, one bit flipped, "
             "and (DER) a padded integer, a long-form length, a wrong total length: whatever is accepted writes back exactly the bytes read; non-trivial: valid object built", keysig_case, quick=3000, thorough=40000),
    SubCheck("misc", check_misc, "BIP32KeyOrigin bytes/dict/description; bms.Sig 65 bytes and canonical base64", misc_case, quick=1500, thorough=15000),
    SubCheck("coverage_guided", None, "atheris / libFuzzer campaigns (btclib instrumented, in-process) from arbitrary bytes over the wire parsers - transaction (check_validity on and off), block and header, psbt, p2p message envelope, script / witness, extended key and the three signature encodings - seeded with a few valid encodings, libFuzzer seed derived from VERIF_SEED; oracle inside the target: whatever bytes a parser accepts are written back exactly as consumed and parse again to the same bytes, a transaction's id, hash, size and weight are those the wire model computes from the bytes, a parsed PSBT re-serializes to a fixed point; non-trivial: inputs libFuzzer kept because they reached new coverage",
             units=lambda tier: __import__("checks.c19_fuzz", fromlist=["units"]).units(tier, "C05"), run_unit=lambda unit, col: __import__("checks.c19_fuzz", fromlist=["run_unit"]).run_unit(unit, col, "C05")),
]
