"""C04 — the libsecp256k1 and pure-Python backends are observationally identical."""

from __future__ import annotations

import hashlib

from hypothesis import strategies as st

from btclib.bip32 import derive_, rootxprv_from_seed_, xpub_from_xprv_
from btclib.curves.curve import double_mult_var, is_libsecp256k1_serving, mult, multi_mult_var, secp256k1, set_libsecp256k1_serving
from btclib.curves.sec_point import bytes_from_prv_key_int, point_from_octets
from btclib.ecc import bms, dh, dsa, ellswift, ssa
from btclib.exceptions import BTClibRuntimeError, BTClibTypeError, BTClibValueError
from btclib.script import taproot as tap
from btclib.script.engine.script import dsa_verify as eng_dsa_verify
from btclib.script.engine.tapscript import ssa_verify as eng_ssa_verify
from btclib import silent_payments as sp
from btclib.tx import OutPoint
from vlib.models import fastec
from vlib.runner import HarnessError, Outcome, SubCheck, Violation

PROPERTY = "C04"
LEVEL = "exploration"
RULE = (
    "An operation table of dual-path APIs, each with a strategy producing valid and hostile arguments; every call is observed with the bindings serving, "
    "switched off, and serving again; the observation is ('ok', canonical value) or ('exc', exact exception class)."
)
ASSUMPTIONS = ["the two arms check each other: no reference model decides which is right (C01-C03, C07, C08, C12 do that)", "exception messages are not compared, classes are"]
N, P = fastec.N, fastec.P


def canon(v):
    if isinstance(v, (bytes, bytearray)):
        return "b:" + bytes(v).hex()
    if isinstance(v, tuple):
        return [canon(x) for x in v]
    if isinstance(v, list):
        return [canon(x) for x in v]
    if isinstance(v, (dsa.Sig, ssa.Sig)):
        return [type(v).__name__, v.r, v.s]
    if isinstance(v, bms.Sig):
        return ["bms", v.rf, v.dsa_sig.r, v.dsa_sig.s]
    if isinstance(v, sp.SilentPaymentOutput):
        return ["spo", v.pub_key.hex(), v.prv_key_tweak]
    if hasattr(v, "key") and hasattr(v, "chain_code"):
        return ["xkey", v.version.hex(), v.depth, v.parent_fingerprint.hex(), v.index, v.chain_code.hex(), v.key.hex()]
    return v


def observe(fn):
    from vlib.runner import _through_btclib

    try:
        return ["ok", canon(fn())]
    except HarnessError:
        raise
    except Exception as e:  # noqa: BLE001
        if _through_btclib(e.__traceback__) is None and not type(e).__module__.startswith("btclib"):
            # the callables build their arguments as they run: an exception that never saw a library frame is a fault of that building, the same
            # on both arms, and would otherwise read as agreement
            raise HarnessError(f"exception outside the library while observing: {type(e).__name__}: {e}") from e
        return ["exc", type(e).__module__ + "." + type(e).__name__]


def pt(spec):
    """point spec -> tuple: ['k', int] = k*G ; ['inf'] ; ['off', k] = off-curve ; ['raw', x, y]"""
    if spec[0] == "k":
        return fastec.mul(spec[1] % N or 1, fastec.G)
    if spec[0] == "inf":
        return (5, 0)
    if spec[0] == "off":
        Q = fastec.mul(spec[1] % N or 1, fastec.G)
        return (Q[0], (Q[1] + 1) % P or 1)
    return (spec[1], spec[2])


def point_spec():
    return st.one_of(st.integers(1, 2**256).map(lambda k: ["k", k]), st.sampled_from([["inf"], ["k", 1], ["k", N - 1]]), st.integers(1, 2**64).map(lambda k: ["off", k]),
                     st.tuples(st.integers(0, 2**256), st.integers(0, 2**256)).map(lambda t: ["raw", t[0], t[1]]))


def scalar():
    return st.one_of(st.sampled_from([0, 1, 2, N - 1, N, N + 1, 2 * N, -1, -N, 2**256 - 1, 2**256]), st.integers(-(2**260), 2**260), st.integers(1, N - 1))


def key():
    return st.one_of(st.sampled_from([1, 2, N - 1]), st.integers(1, N - 1))


def badkey():
    return st.one_of(key(), st.sampled_from([0, N, N + 1, -1, 2**256]))


def msg32():
    """32-byte digests: uniform, and the values around the group order and the field prime, where a reduction has its edges"""
    edge = [0, 1, N - 1, N, N + 1, P - 1, P, P + 1, 2**256 - 1, 2**255, N // 2, N // 2 + 1]
    return st.one_of(st.binary(min_size=32, max_size=32), st.sampled_from(edge).map(lambda v: v.to_bytes(32, "big"))).map(bytes.hex)


def sec_bytes():
    """SEC-looking octets: every prefix, right and wrong lengths, valid and invalid x"""
    return st.tuples(st.sampled_from([2, 3, 4, 6, 7, 0, 5, 1, 8]), st.integers(1, 2**64), st.sampled_from(["ok", "ok", "flip-y", "x>=p", "off", "short", "long", "parity"])).map(list)


def make_sec(spec) -> bytes:
    prefix, k, how = spec
    Q = fastec.mul(k, fastec.G)
    x, y = Q
    if how == "flip-y":
        y = P - y
    if how == "off":
        y = (y + 1) % P or 1
    if how == "x>=p":
        x = P + (x % 977)
    if how == "parity" and prefix in (6, 7):
        prefix = 6 + (1 - y % 2)
    xb = (x % 2**256).to_bytes(32, "big")
    if prefix in (2, 3):
        out = bytes([prefix]) + xb
    else:
        out = bytes([prefix]) + xb + y.to_bytes(32, "big")
    if how == "short":
        out = out[:-1]
    if how == "long":
        out += b"\x00"
    return out


# ------------------------------------------------------------------ the operation table: name -> (args strategy, runner(args) -> callable)
def _sp_world(a):
    """sender/receiver silent-payment world from JSON args"""
    ins = a["inputs"]
    prv = []
    pubs = []
    for k, kind in ins:
        d = k % N or 1
        Q = fastec.mul(d, fastec.G)
        if kind == "p2tr":
            spk = b"\x51\x20" + Q[0].to_bytes(32, "big")
        else:
            sec = bytes([2 + (Q[1] & 1)]) + Q[0].to_bytes(32, "big")
            h = hashlib.new("ripemd160", hashlib.sha256(sec).digest()).digest()
            spk = b"\x00\x14" + h
        prv.append((d, spk))
        pubs.append((Q, spk))
    outpoints = [OutPoint(hashlib.sha256(b"op%d" % j).digest(), j) for j in range(len(ins))]
    b_scan, b_spend = a["b_scan"] % N or 1, a["b_spend"] % N or 1
    B_spend = fastec.mul(b_spend, fastec.G)
    return prv, pubs, outpoints, b_scan, b_spend, B_spend


OPS = {}


def op(name, strat):
    def deco(f):
        OPS[name] = (strat, f)
        return f
    return deco


@op("mult", st.fixed_dictionaries({"m": scalar(), "P": point_spec()}))
def _(a):
    return lambda: mult(a["m"], pt(a["P"]))


@op("mult_G", st.fixed_dictionaries({"m": scalar()}))
def _(a):
    return lambda: mult(a["m"])


@op("double_mult", st.fixed_dictionaries({"u": scalar(), "H": point_spec(), "v": scalar(), "Q": point_spec()}))
def _(a):
    return lambda: double_mult_var(a["u"], pt(a["H"]), a["v"], pt(a["Q"]))


@op("multi_mult", st.fixed_dictionaries({"terms": st.lists(st.tuples(scalar(), point_spec()).map(list), min_size=0, max_size=5), "pad": st.sampled_from([0, 0, 55, 60])}))
def _(a):
    terms = a["terms"] + [[j + 1, ["k", j + 7]] for j in range(a["pad"])]
    return lambda: multi_mult_var([t[0] for t in terms], [pt(t[1]) for t in terms])


@op("pubkey_from_prvkey", st.fixed_dictionaries({"q": scalar(), "compressed": st.booleans()}))
def _(a):
    return lambda: bytes_from_prv_key_int(a["q"], secp256k1, a["compressed"])


@op("point_from_octets", st.fixed_dictionaries({"sec": sec_bytes(), "hybrid": st.booleans()}))
def _(a):
    return lambda: point_from_octets(make_sec(a["sec"]), secp256k1, hybrid=a["hybrid"])


@op("dsa_sign", st.fixed_dictionaries({"q": badkey(), "msg": msg32(), "grind": st.booleans(), "lower_s": st.booleans(), "msglen": st.sampled_from([32, 32, 32, 31, 33, 0])}))
def _(a):
    m = bytes.fromhex(a["msg"])[: a["msglen"]] + b"\x00" * max(0, a["msglen"] - 32)
    return lambda: dsa.sign_(m, a["q"], None, a["lower_s"], grind=a["grind"])


@op("dsa_sign_recoverable", st.fixed_dictionaries({"q": badkey(), "msg": msg32(), "lower_s": st.booleans()}))
def _(a):
    return lambda: dsa.sign_recoverable_(bytes.fromhex(a["msg"]), a["q"], None, a["lower_s"])


def _sig_variants():
    return st.sampled_from(["valid", "high-s", "r+1", "s=0", "r=0", "r=n", "s=n", "r>n", "s>2^256", "other-msg", "der-bytes", "der-lax", "der-garbage"])


@op("dsa_verify", st.fixed_dictionaries({"q": key(), "msg": msg32(), "variant": _sig_variants(), "key": sec_bytes(), "use_own_key": st.booleans()}))
def _(a):
    m = bytes.fromhex(a["msg"])
    r, s = fastec.ecdsa_sign(m, a["q"])
    v = a["variant"]
    if v == "high-s": s = N - s
    elif v == "r+1": r += 1
    elif v == "s=0": s = 0
    elif v == "r=0": r = 0
    elif v == "r=n": r = N
    elif v == "s=n": s = N
    elif v == "r>n": r += N
    elif v == "s>2^256": s += 2**256
    elif v == "other-msg": m = hashlib.sha256(m).digest()
    Q = fastec.mul(a["q"], fastec.G)
    keyarg = (bytes([2 + (Q[1] & 1)]) + Q[0].to_bytes(32, "big")) if a["use_own_key"] else make_sec(a["key"])
    if v.startswith("der"):
        from vlib.models.ecdsa_ref import der_encode
        d = der_encode(r, s)
        if v == "der-lax":
            d = d[:4] + b"\x00" + d[4:]
            d = d[:1] + bytes([d[1] + 1]) + d[2:3] + bytes([d[3] + 1]) + d[4:]
        if v == "der-garbage":
            d = d + b"\x00"
        sigarg = d
    else:
        sigarg = dsa.Sig(r, s, check_validity=False)
    return lambda: dsa.verify_(m, keyarg, sigarg)


@op("dsa_recover", st.fixed_dictionaries({"q": key(), "msg": msg32(), "key_id": st.integers(-1, 5), "variant": st.sampled_from(["valid", "valid", "high-s", "r+1", "other-msg", "Q=inf", "Q=inf"])}))
def _(a):
    m = bytes.fromhex(a["msg"])
    r, s = fastec.ecdsa_sign(m, a["q"])
    if a["variant"] == "Q=inf":
        # a signature anybody can write: K = k*G, r = x(K), s = c/k, so that s*K == c*G and the key recovered for K's own parity is infinity
        c = int.from_bytes(m, "big") % N
        k = a["q"]
        K = fastec.mul(k, fastec.G)
        r, s = K[0] % N, c * pow(k, -1, N) % N or 1
    if a["variant"] == "high-s": s = N - s
    if a["variant"] == "r+1": r += 1
    if a["variant"] == "other-msg": m = hashlib.sha256(m).digest()
    sig = dsa.Sig(r, s, check_validity=False)
    return lambda: [dsa.recover_pub_key_(a["key_id"], m, sig) if 0 <= a["key_id"] <= 3 else None, dsa.recover_pub_keys_(m, sig)] if a["key_id"] != 5 else dsa.recover_pub_key_(7, m, sig)


@op("sig_assert", st.fixed_dictionaries({"q": key(), "msg": msg32(), "scheme": st.sampled_from(["dsa", "ssa"]), "variant": st.sampled_from(["valid", "K=inf", "K=inf", "bit-s", "other-msg", "s=0", "r=0"])}))
def _(a):
    """assert_as_valid_: the exception CLASS of a refusal, where verify_ folds every refusal into False. K=inf is a signature the key holder can write."""
    m = bytes.fromhex(a["msg"])
    d = a["q"]
    if a["scheme"] == "dsa":
        r, s = fastec.ecdsa_sign(m, d)
        c = int.from_bytes(m, "big") % N
        if a["variant"] == "K=inf":
            r, s = (-c * pow(d, -1, N)) % N or 1, s  # u*G + v*Q = (c + r*d)/s * G = infinity
        key = fastec.mul(d, fastec.G)
    else:
        sig = fastec.schnorr_sign(m, d)
        r, s = int.from_bytes(sig[:32], "big"), int.from_bytes(sig[32:], "big")
        P_ = fastec.mul(d, fastec.G)
        dd = d if P_[1] % 2 == 0 else N - d
        if a["variant"] == "K=inf":
            r = fastec.mul(7 + d % 1000, fastec.G)[0]
            e = int.from_bytes(fastec.tagged_hash("BIP0340/challenge", r.to_bytes(32, "big") + P_[0].to_bytes(32, "big") + m), "big") % N
            s = e * dd % N  # s*G - e*P = infinity
        key = P_[0]
    if a["variant"] == "bit-s": s ^= 1
    if a["variant"] == "other-msg": m = hashlib.sha256(m).digest()
    if a["variant"] == "s=0": s = 0
    if a["variant"] == "r=0": r = 0
    mod = dsa if a["scheme"] == "dsa" else ssa
    sig_obj = mod.Sig(r, s, check_validity=False)
    return lambda: mod.assert_as_valid_(m, key, sig_obj)


@op("ssa_sign", st.fixed_dictionaries({"q": badkey(), "msg": st.binary(max_size=70).map(bytes.hex), "aux": msg32(), "auxlen": st.sampled_from([32, 32, 31, 33])}))
def _(a):
    aux = (bytes.fromhex(a["aux"]) + b"\x00")[: a["auxlen"]]
    return lambda: ssa.sign_(bytes.fromhex(a["msg"]), a["q"], aux)


@op("ssa_verify", st.fixed_dictionaries({"q": key(), "msg": st.binary(max_size=70).map(bytes.hex), "variant": st.sampled_from(["valid", "valid", "bit-s", "bit-r", "s>=n", "s=n", "r=p", "r>=p", "x>=p", "x-unliftable", "x-as-sec", "sig-bytes", "sig-63", "neg-s"]), "x": st.integers(0, 2**256 - 1)}))
def _(a):
    m = bytes.fromhex(a["msg"])
    sig = fastec.schnorr_sign(m, a["q"])
    r, s = int.from_bytes(sig[:32], "big"), int.from_bytes(sig[32:], "big")
    Q = fastec.mul(a["q"], fastec.G)
    x = Q[0]
    v = a["variant"]
    keyarg = x
    if v == "bit-s": s ^= 1
    elif v == "bit-r": r ^= 1
    elif v == "s>=n": s += N
    elif v == "s=n": s = N
    elif v == "r=p": r = P
    elif v == "r>=p": r += P
    elif v == "neg-s": s = N - s
    elif v == "x>=p": keyarg = x + P
    elif v == "x-unliftable":
        xx = a["x"] % P
        while fastec.lift_x(xx) is not None:
            xx = (xx + 1) % P
        keyarg = xx
    elif v == "x-as-sec": keyarg = bytes([2 + (Q[1] & 1)]) + x.to_bytes(32, "big")
    sigarg = ssa.Sig(r, s, check_validity=False)
    if v == "sig-bytes": sigarg = sig
    if v == "sig-63": sigarg = sig[:63]
    return lambda: ssa.verify_(m, keyarg, sigarg)


@op("ssa_batch", st.fixed_dictionaries({"n": st.integers(1, 5), "seed": st.integers(0, 2**32), "bad": st.sampled_from(["none", "none", "first-s", "last-s", "x-unliftable", "s+n"])}))
def _(a):
    ms, xs, sigs = [], [], []
    for j in range(a["n"]):
        q = int.from_bytes(hashlib.sha256(b"%d:%d" % (a["seed"], j)).digest(), "big") % (N - 1) + 1
        m = hashlib.sha256(b"m%d" % j).digest()
        sg = fastec.schnorr_sign(m, q)
        ms.append(m); xs.append(fastec.mul(q, fastec.G)[0]); sigs.append([int.from_bytes(sg[:32], "big"), int.from_bytes(sg[32:], "big")])
    if a["bad"] == "first-s": sigs[0][1] ^= 1
    if a["bad"] == "last-s": sigs[-1][1] ^= 1
    if a["bad"] == "s+n": sigs[0][1] += N
    if a["bad"] == "x-unliftable":
        xx = xs[0]
        while fastec.lift_x(xx) is not None:
            xx = (xx + 1) % P
        xs[0] = xx
    return lambda: ssa.batch_verify_(ms, xs, [ssa.Sig(r, s, check_validity=False) for r, s in sigs])


@op("bms", st.fixed_dictionaries({"q": key(), "msg": st.binary(max_size=40).map(bytes.hex), "addr": st.sampled_from(["p2pkh", "p2wpkh", "p2wpkh_p2sh", "none", "other"]), "flip": st.sampled_from(["none", "none", "rf", "msg"])}))
def _(a):
    from btclib import b32, b58
    m = bytes.fromhex(a["msg"])
    q = a["q"]

    def run():
        addr = {"p2pkh": lambda: b58.p2pkh(q), "p2wpkh": lambda: b32.p2wpkh(q), "p2wpkh_p2sh": lambda: b58.p2wpkh_p2sh(q), "none": lambda: None, "other": lambda: b58.p2pkh(q % (N - 2) + 1)}[a["addr"]]()
        try:
            sig = bms.sign(m, q, addr)
        except BTClibValueError:
            if a["addr"] == "other":
                return "refused-foreign-address"
            raise
        vaddr = addr or b58.p2pkh(q)
        if a["flip"] == "rf":
            sig = bms.Sig(27 + (sig.rf - 27 + 1) % 16, sig.dsa_sig)
        return [canon(sig), bms.verify(m if a["flip"] != "msg" else m + b"x", vaddr, sig)]
    return run


@op("bip32_derive", st.fixed_dictionaries({"seed": st.binary(min_size=16, max_size=32).map(bytes.hex), "path": st.lists(st.one_of(st.sampled_from([0, 1, 2**31 - 1, 2**31, 2**32 - 1]), st.integers(0, 2**32 - 1)), max_size=5), "public": st.booleans()}))
def _(a):
    def run():
        root = rootxprv_from_seed_(bytes.fromhex(a["seed"]))
        return derive_(xpub_from_xprv_(root) if a["public"] else root, a["path"])
    return run


@op("taproot_tweak", st.fixed_dictionaries({"x": st.one_of(key().map(lambda k: ["k", k]), st.integers(0, 2**256 - 1).map(lambda x: ["x", x])), "root": st.sampled_from(["", "11" * 32, "00" * 32]), "what": st.sampled_from(["pub", "prv", "check", "check-bad-parity", "check-short-control"])}))
def _(a):
    x = fastec.mul(a["x"][1], fastec.G)[0] if a["x"][0] == "k" else a["x"][1]
    xb = x.to_bytes(32, "big")
    root = bytes.fromhex(a["root"])
    w = a["what"]
    if w == "pub":
        return lambda: tap.output_pubkey_from_merkle_root(xb, root)
    if w == "prv":
        return lambda: tap.output_prvkey_from_merkle_root(a["x"][1] % 2**256 if a["x"][0] == "k" else x, root)

    def run():
        script = b"\x51"
        q = b"\x11" * 32
        try:
            leaf = fastec.tagged_hash("TapLeaf", b"\xc0\x01\x51")
            q, par = fastec.tap_tweak_pubkey(xb, leaf)
        except Exception:  # noqa: BLE001
            par = 0
        control = bytes([0xC0 | (par ^ (w == "check-bad-parity"))]) + xb
        if w == "check-short-control":
            control = control[:-1]
        return tap.check_output_pubkey(q, script, control)
    return run


@op("ecdh", st.fixed_dictionaries({"d": badkey(), "Q": point_spec(), "size": st.integers(1, 70), "info": st.sampled_from([None, "", "aabb"])}))
def _(a):
    return lambda: dh.diffie_hellman(a["d"], pt(a["Q"]), a["size"], None if a["info"] is None else bytes.fromhex(a["info"]))


@op("ellswift", st.fixed_dictionaries({"ell_a": st.binary(min_size=64, max_size=64).map(bytes.hex), "ell_b": st.binary(min_size=64, max_size=64).map(bytes.hex), "q": badkey(), "party": st.integers(0, 2), "len": st.sampled_from([64, 64, 63, 65])}))
def _(a):
    ea = bytes.fromhex(a["ell_a"])[: a["len"]] + b"\x00" * max(0, a["len"] - 64)
    return lambda: [ellswift.decode_var(ea), ellswift.xdh(ea, bytes.fromhex(a["ell_b"]), a["q"], a["party"])]


@op("engine_dsa_verify", st.fixed_dictionaries({"q": key(), "msg": msg32(), "key": sec_bytes(), "own": st.booleans(), "sig": st.sampled_from(["valid", "high-s", "lax", "garbage", "empty", "r=0"])}))
def _(a):
    from vlib.models.ecdsa_ref import der_encode
    m = bytes.fromhex(a["msg"])
    r, s = fastec.ecdsa_sign(m, a["q"])
    if a["sig"] == "high-s": s = N - s
    if a["sig"] == "r=0": r = 0
    d = der_encode(r, s)
    if a["sig"] == "lax": d = b"\x30\x81" + d[1:]
    if a["sig"] == "garbage": d = d[:-2]
    if a["sig"] == "empty": d = b""
    Q = fastec.mul(a["q"], fastec.G)
    pk = make_sec([a["key"][0], a["q"], a["key"][2]]) if a["own"] else make_sec(a["key"])
    return lambda: eng_dsa_verify(m, pk, d)


@op("engine_ssa_verify", st.fixed_dictionaries({"q": key(), "msg": msg32(), "pk": st.sampled_from(["own", "x>=p", "unliftable", "31", "33"]), "sig": st.sampled_from(["valid", "bit", "63", "65", "s>=n"]), "x": st.integers(0, 2**256 - 1)}))
def _(a):
    m = bytes.fromhex(a["msg"])
    sig = fastec.schnorr_sign(m, a["q"])
    x = fastec.mul(a["q"], fastec.G)[0]
    pk = x.to_bytes(32, "big")
    if a["pk"] == "x>=p": pk = (P + x % 900).to_bytes(32, "big")
    if a["pk"] == "unliftable":
        xx = a["x"] % P
        while fastec.lift_x(xx) is not None:
            xx = (xx + 1) % P
        pk = xx.to_bytes(32, "big")
    if a["pk"] == "31": pk = pk[:31]
    if a["pk"] == "33": pk = pk + b"\x00"
    if a["sig"] == "bit": sig = sig[:-1] + bytes([sig[-1] ^ 1])
    if a["sig"] == "63": sig = sig[:63]
    if a["sig"] == "65": sig = sig + b"\x01"
    if a["sig"] == "s>=n": sig = sig[:32] + (2**256 - 1).to_bytes(32, "big")
    return lambda: eng_ssa_verify(m, pk, sig)


SP_ARGS = st.fixed_dictionaries({
    "inputs": st.lists(st.tuples(st.integers(1, 2**200), st.sampled_from(["p2tr", "p2wpkh"])).map(list), min_size=1, max_size=3),
    "b_scan": st.integers(1, 2**200), "b_spend": st.integers(1, 2**200), "n_pay": st.integers(1, 3), "label": st.sampled_from([None, 0, 1, 7]),
    "decoys": st.lists(st.sampled_from(["oncurve", "offcurve", "x>=p", "zero"]), max_size=3), "what": st.sampled_from(["output_keys", "scan", "scan"]), "shuffle": st.integers(0, 1000),
})


@op("silent_payments", SP_ARGS)
def _(a):
    def run():
        prv, pubs, outpoints, b_scan, b_spend, B_spend = _sp_world(a)
        B_scan = fastec.mul(b_scan, fastec.G)
        if a["label"] is None:
            addr = sp.address_from_keys(B_scan, B_spend)
            labels = sp.label_lookup(b_scan, [0])
        else:
            addr = sp.labeled_address_from_keys(b_scan, B_spend, a["label"])
            labels = sp.label_lookup(b_scan, [0, a["label"]])
        keys = sp.output_keys(prv, outpoints, [addr] * a["n_pay"])
        if a["what"] == "output_keys":
            return keys
        outs = list(keys)
        for j, d in enumerate(a["decoys"]):
            x = fastec.mul(1000 + j, fastec.G)[0]
            if d == "offcurve":
                while fastec.lift_x(x) is not None:
                    x = (x + 1) % P
            if d == "x>=p":
                x = P + j
            if d == "zero":
                x = 0
            outs.append(x.to_bytes(32, "big"))
        import random
        random.Random(a["shuffle"]).shuffle(outs)
        found = sp.scan_transaction_outputs(b_scan, B_spend, outpoints, pubs, outs, labels)
        return sorted(canon(f) for f in found)
    return run


@st.composite
def op_case(draw):
    name = draw(st.sampled_from(sorted(OPS)))
    return {"op": name, "args": draw(OPS[name][0]), "blind_seed": draw(st.integers(0, 2**32))}


def check_op(case):
    from vlib import determinism

    fn_factory = OPS[case["op"]][1]
    prev = is_libsecp256k1_serving()
    obs = []
    try:
        for serving in (True, False, True):
            set_libsecp256k1_serving(serving=serving)
            determinism.reset(case)
            obs.append(observe(fn_factory(case["args"])))
    finally:
        set_libsecp256k1_serving(serving=prev)
    for o in obs:
        if o[0] == "exc" and o[1].startswith("vlib"):
            raise HarnessError(f"harness exception in op {case['op']}: {o[1]}")
    if obs[0] != obs[1]:
        raise Violation(f"{case['op']}:bindings={obs[0][0]}{':' + obs[0][1].split('.')[-1] if obs[0][0] == 'exc' else ''}:python={obs[1][0]}{':' + obs[1][1].split('.')[-1] if obs[1][0] == 'exc' else ''}", f"bindings={str(obs[0])[:300]} python={str(obs[1])[:300]}")
    if obs[0] != obs[2]:
        raise Violation(f"{case['op']}:history-dependent", f"first={str(obs[0])[:200]} after toggling={str(obs[2])[:200]}")
    nontrivial = obs[0][0] == "ok" or not obs[0][1].endswith("TypeError")
    outcome = obs[0][0] if obs[0][0] == "ok" else obs[0][1].split(".")[-1]
    verdict = f":{obs[0][1]}" if obs[0][0] == "ok" and isinstance(obs[0][1], bool) else ""
    return Outcome(nontrivial, (case["op"], outcome, f"{case['op']}:{outcome}{verdict}"))


def validate_models() -> None:
    """The two arms exist and the switch works (an install where the bindings are found but do not load would otherwise read as a crash of the library)."""
    import btclib._libsecp256k1 as bridge

    if not getattr(bridge, "INSTALLED", False):
        raise HarnessError("btclib reports the libsecp256k1 bindings as not installed: there is one arm only")
    prev = is_libsecp256k1_serving()
    try:
        seen = []
        for want in (True, False, True):
            set_libsecp256k1_serving(serving=want)
            seen.append(is_libsecp256k1_serving())
    except Exception as e:  # noqa: BLE001
        raise HarnessError(f"the back-end switch refuses: {type(e).__name__}: {e}") from e
    finally:
        set_libsecp256k1_serving(serving=prev)
    if seen != [True, False, True]:
        raise HarnessError(f"the back-end switch does not switch: {seen}")


SUBCHECKS = [
    SubCheck("op_table", check_op, "each dual-path operation with valid and hostile arguments observed under bindings on / off / on again; non-trivial: the call got past argument typing on both arms (a value or a non-type error)", op_case, quick=16000, thorough=200000, max_buckets=8),
]
