"""C05 sub-checks for PSBT v0/v2 (generators: vlib/gens/psbts.py; oracle: vlib/models/psbt_ref.py map splitter)."""

from __future__ import annotations

import json

from hypothesis import strategies as st

from btclib.exceptions import BTClibRuntimeError, BTClibTypeError, BTClibValueError
from btclib.psbt import Psbt, PsbtIn, PsbtOut
from vlib.gens import psbts as gp
from vlib.models import psbt_ref as pref
from vlib.runner import Outcome, Violation

LIBEXC = (BTClibValueError, BTClibTypeError, BTClibRuntimeError)
# key types of an input map that Core (and btclib, by documented design) stop writing once the input carries a final script
IN_FINAL = {0x07, 0x08}
IN_DROPPED = {0x02, 0x03, 0x04, 0x05, 0x06, 0x0A, 0x0B, 0x0C, 0x0D, 0x13, 0x14, 0x15, 0x16, 0x17, 0x18, 0x1A, 0x1B, 0x1C}


@st.composite
def psbt_case(draw):
    return {"psbt": draw(gp.psbt_case(dirty_finalized=False)), "edit": draw(st.sampled_from(["none", "none", "shuffle-keys", "add-unknown", "dup-key", "final+signing", "truncate", "append", "drop-separator"])),
            "seed": draw(st.integers(0, 10**6)), "scope": draw(st.integers(0, 10))}


def _rt(d):
    return json.loads(json.dumps(d))


def check_psbt(case):
    try:
        p = gp.build_psbt(case["psbt"])
    except LIBEXC:
        return Outcome(False, ("generator-refused",))  # e.g. an "unknown" key type the library has since learnt: not an object it takes as valid
    ver = p.version
    b = p.serialize()
    # objects -> bytes -> objects
    p2 = Psbt.parse(b)
    if p2 != p:
        raise Violation(f"psbt:parse-back-not-equal:v{ver}", _diff(p, p2))
    b2 = p2.serialize()
    if b2 != b:
        raise Violation(f"psbt:not-a-fixed-point:v{ver}", "")
    if Psbt.b64decode(p.b64encode()) != p:
        raise Violation("psbt:base64-roundtrip", "")
    d = _rt(p.to_dict())
    try:
        pd = Psbt.from_dict(d)
    except LIBEXC as e:
        raise Violation(f"psbt:from_dict-refuses-own-to_dict:{type(e).__name__}", str(e)[:300])
    if pd != p:
        raise Violation(f"psbt:json-roundtrip:v{ver}", _diff(p, pd))
    for i, (pi, ci) in enumerate(zip(p.inputs, case["psbt"]["inputs"])):
        raw = pi.serialize(psbt_version=ver)
        if PsbtIn.parse(raw, psbt_version=ver).serialize(psbt_version=ver) != raw or PsbtIn.from_dict(_rt(pi.to_dict())) != pi:
            raise Violation("psbt:lone-input-roundtrip", f"input {i}")
    for i, po in enumerate(p.outputs):
        raw = po.serialize(psbt_version=ver)
        if PsbtOut.parse(raw, psbt_version=ver).serialize(psbt_version=ver) != raw or PsbtOut.from_dict(_rt(po.to_dict())) != po:
            raise Violation("psbt:lone-output-roundtrip", f"output {i}")
    # every pair the object holds is on the wire exactly once per key
    maps = pref.split(b)
    if len(maps) != 1 + len(p.inputs) + len(p.outputs):
        raise Violation("psbt:map-count", f"{len(maps)}")
    for m in maps:
        keys = [k for k, _ in m]
        if len(set(keys)) != len(keys):
            raise Violation("psbt:duplicate-key-written", "")
    # bytes -> objects -> bytes, under map-level edits
    import random

    rng = random.Random(case["seed"])
    edit = case["edit"]
    maps2 = [list(m) for m in maps]
    scope = case["scope"] % len(maps2)
    expect_refusal = False
    if edit == "shuffle-keys":
        for m in maps2:
            rng.shuffle(m)
    elif edit == "add-unknown":
        known = gp.KNOWN_GLOBAL_TYPES if scope == 0 else gp.KNOWN_IN_TYPES if scope <= len(p.inputs) else gp.KNOWN_OUT_TYPES
        t = next(x for x in range(0x40 + rng.randrange(100), 0xFC) if x not in known)
        key = bytes([t]) + rng.randbytes(rng.randrange(4))
        if key not in [k for k, _ in maps2[scope]]:
            maps2[scope].insert(rng.randrange(len(maps2[scope]) + 1), (key, rng.randbytes(rng.randrange(6))))
    elif edit == "dup-key":
        if maps2[scope]:
            k, v = maps2[scope][rng.randrange(len(maps2[scope]))]
            maps2[scope].append((k, v))
            expect_refusal = True
    elif edit == "final+signing":
        # an input that carries signing fields AND a final script: legal bytes (a Finalizer that did not clean up)
        for idx in range(1, 1 + len(p.inputs)):
            types = {k[0] for k, _ in maps2[idx]}
            if types & IN_DROPPED and not types & IN_FINAL:
                maps2[idx].append((b"\x07", b"\x51"))
                break
    data = pref.join(maps2)
    if edit == "truncate":
        data = b[: rng.randrange(len(b))]
        expect_refusal = True
    elif edit == "append":
        data = b + bytes([rng.randrange(1, 256)])
    elif edit == "drop-separator":
        data = b[:-1]
        expect_refusal = True
    cv = rng.random() < 0.7  # the unchecked parse reads the same encodings and is held to the same fixed point
    try:
        q = Psbt.parse(data, check_validity=cv)
    except LIBEXC:
        q = None
    if q is None:
        if edit in ("none", "shuffle-keys", "add-unknown"):
            raise Violation(f"psbt:valid-encoding-refused:{edit}:v{ver}", data.hex()[:400])
        return Outcome(True, (f"v{ver}", edit, "refused", f"cv={cv}"))
    if expect_refusal:
        raise Violation(f"psbt:malformed-accepted:{edit}", data.hex()[:400])
    try:
        out = q.serialize(check_validity=cv)
    except LIBEXC as e:
        raise Violation(f"psbt:accepted-bytes-refused-by-the-writer:{edit}:cv={cv}", f"{data.hex()[:400]}: {e}") from e
    if Psbt.parse(out, check_validity=cv).serialize(check_validity=cv) != out:
        raise Violation(f"psbt:reserialization-not-a-fixed-point:{edit}", "")
    try:
        want, got = pref.pairs(data), pref.pairs(out)
    except pref.ParseError:
        if edit == "append":
            raise Violation("psbt:trailing-byte-accepted", "")
        raise
    if want != got:
        lost = [x for x in want if x not in got]
        gained = [x for x in got if x not in want]
        fin = all(1 <= i <= len(p.inputs) and k[0] in IN_DROPPED and any(kk[0] in IN_FINAL for kk, _ in maps2[i]) for i, k, _ in lost)
        if lost and fin and not gained:
            raise Violation("psbt:pairs-lost:signing-fields-of-a-finalized-input", f"{len(lost)} pairs, e.g. type 0x{lost[0][1][0]:02x} of input {lost[0][0] - 1}")
        raise Violation(f"psbt:pairs-not-preserved:{edit}:v{ver}", f"lost={[(i, k.hex(), v.hex()[:20]) for i, k, v in lost[:3]]} gained={[(i, k.hex(), v.hex()[:20]) for i, k, v in gained[:3]]}")
    nfields = sum(len(m) for m in maps)
    return Outcome(nfields >= 6, (f"v{ver}", edit, "accepted"))


def _diff(a, b):
    da, db = a.to_dict(check_validity=False), b.to_dict(check_validity=False)
    out = []

    def walk(x, y, path):
        if isinstance(x, dict) and isinstance(y, dict):
            for k in sorted(set(x) | set(y)):
                walk(x.get(k), y.get(k), f"{path}.{k}")
        elif isinstance(x, list) and isinstance(y, list) and len(x) == len(y):
            for i, (u, v) in enumerate(zip(x, y)):
                walk(u, v, f"{path}[{i}]")
        elif x != y:
            out.append(f"{path}: {str(x)[:60]} -> {str(y)[:60]}")

    walk(da, db, "")
    return "; ".join(out[:5])
