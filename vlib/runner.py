"""Common machinery: tiers, seeds, sharding, evidence/replay writers, known findings.

A property module (checks/Cxx.py) exposes

    PROPERTY = "Cxx"
    LEVEL    = "exploration"
    SUBCHECKS = [SubCheck(...), ...]
    def validate_models(): ...      # optional: raise to refuse to run (exit 2)

Every sub-check is  strategy() -> JSON-able case   +   check(case) -> Outcome.
Exit codes: 0 property held on everything explored, 1 violation (with a
"VIOLATION property=<id> replay=<path>" line), 2 harness error (never VIOLATION).
"""

from __future__ import annotations

import hashlib
import json
import multiprocessing as mp
import os
import sys
import time
import traceback
from collections import Counter
from dataclasses import dataclass, field
from typing import Any, Callable

VERIF = os.path.dirname(os.path.dirname(os.path.abspath(__file__)))
REPO = os.environ.get("VERIF_REPO", "/repo")
NPROC = min(16, os.cpu_count() or 1)


class Violation(Exception):
    """The property is broken on this case. `signature` labels the root cause."""

    def __init__(self, signature: str, detail: str = "") -> None:
        super().__init__(f"{signature}: {detail}")
        self.signature = signature
        self.detail = detail


class HarnessError(Exception):
    """The harness (not the library) is at fault; never reported as a violation."""


@dataclass
class Outcome:
    nontrivial: bool = True
    tags: tuple = ()


@dataclass
class SubCheck:
    name: str
    check: Callable[[dict], Outcome | None]
    rule: str
    strategy: Callable[[], Any] | None = None  # () -> hypothesis strategy of dict cases
    quick: int = 200  # examples in total (split over shards)
    thorough: int = 2000
    # exhaustive part: units(tier) -> list of JSON units, run_unit(unit, col) -> None
    units: Callable[[str], list] | None = None
    run_unit: Callable[[Any, "Collector"], None] | None = None
    exhaustive: bool = False
    shards: int | None = None  # override number of hypothesis shards
    max_buckets: int = 2


def canon(case: Any) -> str:
    return json.dumps(case, sort_keys=True, separators=(",", ":"), default=str)


def case_hash(case: Any) -> bytes:
    return hashlib.sha256(canon(case).encode()).digest()[:10]


class Collector:
    """Per-worker accumulator of what was explored."""

    MAX_SAMPLES = 3

    def __init__(self) -> None:
        self.evaluations = 0
        self.nontrivial: set[bytes] = set()
        self.bulk_nontrivial = 0  # distinct by construction (enumerations)
        self.tags: Counter = Counter()
        self.samples: list = []
        self.failures: dict[str, dict] = {}  # signature -> {case, detail}
        self.excluded: Counter = Counter()
        self.harness_errors: list[str] = []

    def case(self, case: Any, outcome: Outcome | None) -> None:
        self.evaluations += 1
        if outcome is None:
            outcome = Outcome()
        if outcome.nontrivial:
            self.nontrivial.add(case_hash(case))
            if len(self.samples) < self.MAX_SAMPLES:
                self.samples.append(case)
        for t in outcome.tags:
            self.tags[t] += 1

    def bulk(self, evaluations: int, nontrivial: int, sample: Any = None, tags: dict | None = None) -> None:
        """Enumerated cases, distinct by construction."""
        self.evaluations += evaluations
        self.bulk_nontrivial += nontrivial
        if sample is not None and len(self.samples) < self.MAX_SAMPLES:
            self.samples.append(sample)
        if tags:
            self.tags.update(tags)

    def fail(self, signature: str, case: Any, detail: str) -> None:
        cur = self.failures.get(signature)
        if cur is None or len(canon(case)) < len(canon(cur["case"])):
            self.failures[signature] = {"case": case, "detail": detail[:2000]}

    def export(self) -> dict:
        return {
            "evaluations": self.evaluations,
            "nontrivial": list(self.nontrivial),
            "bulk_nontrivial": self.bulk_nontrivial,
            "tags": dict(self.tags),
            "samples": self.samples,
            "failures": self.failures,
            "excluded": dict(self.excluded),
            "harness_errors": self.harness_errors,
        }


def _through_btclib(tb) -> str | None:
    """Innermost btclib frame of a traceback, or None."""
    inner = None
    for fs in traceback.extract_tb(tb):
        fn = fs.filename.replace("\\", "/")
        if "/btclib/" in fn and "/verif/" not in fn:
            inner = f"{fn.split('/btclib/', 1)[1]}:{fs.name}"
    return inner


def run_case(sub: SubCheck, case: dict) -> Outcome | None:
    """check(case) with unexpected exceptions classified.

    An exception that passed through library code is a violation (the library
    must answer or refuse with the class the check expects: checks catch what
    they expect); one raised purely inside the harness is a harness error.
    """
    from . import determinism

    determinism.reset(case)
    try:
        return sub.check(case)
    except (Violation, HarnessError):
        raise
    except RecursionError as e:  # pragma: no cover
        raise Violation(f"{sub.name}:crash:RecursionError", repr(e)[:300]) from e
    except Exception as e:
        frame = _through_btclib(e.__traceback__)
        tb = "".join(traceback.format_exception(type(e), e, e.__traceback__))[-1800:]
        if frame is None:
            raise HarnessError(f"{sub.name}: {type(e).__name__}: {e}\n{tb}") from e
        raise Violation(f"{sub.name}:crash:{type(e).__name__}@{frame}", tb) from e


def derive_seed(base: int, *parts: Any) -> int:
    h = hashlib.sha256((":".join([str(base), *map(str, parts)])).encode()).digest()
    return int.from_bytes(h[:8], "big")


def _hyp_worker(args) -> dict:
    modname, subname, shard, nshards, n_examples, base_seed, known_sigs, shrink_budget = args
    import importlib

    from hypothesis import HealthCheck, Phase, given, seed, settings
    from hypothesis.errors import HypothesisException

    mod = importlib.import_module(modname)
    sub = next(s for s in mod.SUBCHECKS if s.name == subname)
    col = Collector()
    excluded = set(known_sigs)
    remaining = n_examples
    for attempt in range(sub.max_buckets + 1):
        if remaining <= 0:
            break
        state = {"target": None, "deadline": None, "n": 0}

        def body(case):
            state["n"] += 1
            if state["target"] is not None and time.time() > state["deadline"]:
                # shrink budget spent: only the best case so far keeps failing, the shrinker converges at once
                if canon(case) != canon(col.failures[state["target"]]["case"]):
                    return
            try:
                out = run_case(sub, case)
            except Violation as v:
                sig = v.signature
                if sig in excluded:
                    col.excluded[sig] += 1
                    col.evaluations += 1
                    return
                col.fail(sig, case, v.detail)
                if state["target"] is None:
                    state["target"] = sig
                    state["deadline"] = time.time() + shrink_budget
                if sig != state["target"]:
                    return
                best = col.failures[sig]["case"]
                if time.time() > state["deadline"] and canon(case) != canon(best):
                    return
                raise
            col.case(case, out)

        test = settings(
            max_examples=remaining,
            database=None,
            deadline=None,
            derandomize=False,
            report_multiple_bugs=False,
            suppress_health_check=list(HealthCheck),
            phases=[Phase.generate, Phase.shrink],
            print_blob=False,
        )(seed(derive_seed(base_seed, subname, shard, attempt))(given(sub.strategy())(body)))
        try:
            test()
        except HarnessError as e:
            col.harness_errors.append(str(e)[:3000])
            break
        except Violation:
            pass
        except HypothesisException as e:
            if state["target"] is None:
                col.harness_errors.append(f"{subname}: hypothesis: {type(e).__name__}: {e}"[:3000])
                break
        except BaseException as e:  # noqa: BLE001
            if state["target"] is None:
                col.harness_errors.append(
                    f"{subname}: {type(e).__name__}: {e}\n" + traceback.format_exc()[-1500:]
                )
                break
        remaining -= state["n"]
        if state["target"] is None:
            break
        excluded.add(state["target"])
    return col.export()


def _unit_worker(args) -> dict:
    modname, subname, unit = args
    import importlib

    mod = importlib.import_module(modname)
    sub = next(s for s in mod.SUBCHECKS if s.name == subname)
    col = Collector()
    try:
        sub.run_unit(unit, col)
    except HarnessError as e:
        col.harness_errors.append(str(e)[:3000])
    except Violation as v:
        col.fail(v.signature, {"unit": unit}, v.detail)
    except Exception as e:  # noqa: BLE001
        frame = _through_btclib(e.__traceback__)
        tb = traceback.format_exc()[-1800:]
        if frame is None:
            col.harness_errors.append(f"{subname} unit {unit}: {type(e).__name__}: {e}\n{tb}")
        else:
            col.fail(f"{subname}:crash:{type(e).__name__}@{frame}", {"unit": unit}, tb)
    return col.export()


def load_known(prop: str) -> list[dict]:
    path = os.path.join(VERIF, "known_findings.json")
    if not os.path.exists(path):
        return []
    with open(path) as f:
        data = json.load(f)
    return [e for e in data.get("findings", []) if e.get("property") == prop]


def _merge(acc: dict, part: dict) -> None:
    acc["evaluations"] += part["evaluations"]
    acc["nontrivial"].update(bytes(x) for x in part["nontrivial"])
    acc["bulk_nontrivial"] += part["bulk_nontrivial"]
    acc["tags"].update(part["tags"])
    for s in part["samples"]:
        if len(acc["samples"]) < 4:
            acc["samples"].append(s)
    for sig, f in part["failures"].items():
        cur = acc["failures"].get(sig)
        if cur is None or len(canon(f["case"])) < len(canon(cur["case"])):
            acc["failures"][sig] = f
    acc["excluded"].update(part["excluded"])
    acc["harness_errors"].extend(part["harness_errors"])


def _truncate(obj: Any, limit: int = 1500) -> Any:
    s = canon(obj)
    if len(s) <= limit:
        return obj
    return {"truncated_json": s[:limit] + "...", "full_length": len(s)}


def main(mod, argv: list[str] | None = None) -> int:
    import argparse

    ap = argparse.ArgumentParser()
    ap.add_argument("--tier", default=os.environ.get("VERIF_TIER", "quick"), choices=["quick", "thorough"])
    ap.add_argument("--replay")
    ap.add_argument("--only", help="comma-separated sub-check names")
    ap.add_argument("--scale", type=float, default=float(os.environ.get("VERIF_SCALE", "1")))
    ns = ap.parse_args(argv)
    prop = mod.PROPERTY
    base_seed = int(os.environ.get("VERIF_SEED", "1") or "1")
    t0 = time.time()

    import btclib

    if not os.path.abspath(btclib.__file__).startswith(os.path.abspath(REPO) + os.sep):
        print(f"HARNESS-ERROR property={prop} btclib imported from {btclib.__file__}, not {REPO}")
        return 2

    # the checks switch between btclib's two secp256k1 back ends; without the bindings package the
    # switch is refused by design, which is an environment fault and not a finding
    import importlib.util

    if importlib.util.find_spec("btclib_secp256k1") is None:
        print(f"HARNESS-ERROR property={prop} the btclib_secp256k1 bindings are not installed in this interpreter")
        return 2

    if ns.replay:
        return replay(mod, ns.replay)

    try:
        if hasattr(mod, "validate_models"):
            mod.validate_models()
    except Exception as e:  # noqa: BLE001
        print(f"HARNESS-ERROR property={prop} model validation failed: {type(e).__name__}: {e}")
        traceback.print_exc()
        return 2

    known = load_known(prop)
    known_open = [e for e in known if e.get("status") == "known"]
    known_sigs = [e["match"]["signature"] for e in known_open]

    subs = mod.SUBCHECKS
    if ns.only:
        want = set(ns.only.split(","))
        subs = [s for s in subs if s.name in want]

    ctx = mp.get_context("fork")
    total = {
        "evaluations": 0,
        "distinct_nontrivial": 0,
        "subchecks": {},
        "samples": [],
        "violations": [],
        "known": [],
        "harness_errors": [],
    }
    shrink_budget = 20 if ns.tier == "quick" else 180
    violations: list[tuple[str, str, dict]] = []
    known_hit: dict[str, dict] = {}

    # 1. committed regression replays
    rdir = os.path.join(VERIF, "replays", prop)
    n_replayed = 0
    if os.path.isdir(rdir) and not ns.only:
        for fn in sorted(os.listdir(rdir)):
            if not fn.endswith(".json"):
                continue
            with open(os.path.join(rdir, fn)) as f:
                rep = json.load(f)
            sub = next((s for s in mod.SUBCHECKS if s.name == rep["subcheck"]), None)
            if sub is None:
                total["harness_errors"].append(f"replay {fn}: unknown subcheck {rep['subcheck']}")
                continue
            n_replayed += 1
            try:
                case = rep["case"]
                if isinstance(case, dict) and set(case) == {"unit"} and sub.run_unit is not None:
                    # a failing unit of an exhaustive sub-check: run the unit again
                    ucol = Collector()
                    sub.run_unit(case["unit"], ucol)
                    if ucol.failures:
                        sig, f = next(iter(ucol.failures.items()))
                        raise Violation(sig, f["detail"])
                else:
                    run_case(sub, case)
            except Violation as v:
                if v.signature in known_sigs:
                    known_hit[v.signature] = {"case": rep["case"], "detail": v.detail}
                else:
                    violations.append((sub.name, v.signature, {"case": rep["case"], "detail": v.detail}))
            except HarnessError as e:
                total["harness_errors"].append(f"replay {fn}: {e}")

    # 2. generated search + enumerations
    with ctx.Pool(NPROC) as pool:
        for sub in subs:
            ts = time.time()
            acc = {
                "evaluations": 0,
                "nontrivial": set(),
                "bulk_nontrivial": 0,
                "tags": Counter(),
                "samples": [],
                "failures": {},
                "excluded": Counter(),
                "harness_errors": [],
            }
            jobs = []
            if sub.strategy is not None:
                n = int((sub.quick if ns.tier == "quick" else sub.thorough) * ns.scale)
                nshards = sub.shards or NPROC
                nshards = max(1, min(nshards, n))
                per = -(-n // nshards)
                jobs.append(
                    pool.map_async(
                        _hyp_worker,
                        [
                            (mod.__name__, sub.name, sh, nshards, per, base_seed, known_sigs, shrink_budget)
                            for sh in range(nshards)
                        ],
                        chunksize=1,
                    )
                )
            if sub.units is not None:
                units = sub.units(ns.tier)
                jobs.append(
                    pool.map_async(_unit_worker, [(mod.__name__, sub.name, u) for u in units], chunksize=1)
                )
            for j in jobs:
                for part in j.get():
                    _merge(acc, part)
            distinct = len(acc["nontrivial"]) + acc["bulk_nontrivial"]
            total["evaluations"] += acc["evaluations"]
            total["distinct_nontrivial"] += distinct
            total["subchecks"][sub.name] = {
                "evaluations": acc["evaluations"],
                "distinct_nontrivial": distinct,
                "rule": sub.rule,
                "exhaustive": bool(sub.exhaustive),
                "tags": dict(sorted(acc["tags"].items(), key=lambda kv: -kv[1])[:40]),
                "excluded_known": dict(acc["excluded"]),
                "wall_s": round(time.time() - ts, 1),
            }
            for s in acc["samples"][:2]:
                total["samples"].append({"subcheck": sub.name, "case": _truncate(s)})
            total["harness_errors"].extend(acc["harness_errors"])
            for sig, f in acc["failures"].items():
                if sig in known_sigs:
                    known_hit[sig] = f
                else:
                    violations.append((sub.name, sig, f))
            for sig, cnt in acc["excluded"].items():
                if sig in known_sigs and sig not in known_hit:
                    known_hit[sig] = {"case": None, "detail": f"met {cnt} times"}

    # 3. report
    rc = 0
    for e in known_open:
        sig = e["match"]["signature"]
        if sig in known_hit:
            print(f"KNOWN-FINDING: property={prop} {e['what']}")
            total["known"].append({"key": e.get("key"), "signature": sig})
    fdir = os.path.join(VERIF, "found", prop)
    seen = set()
    for subname, sig, f in violations:
        if sig in seen:
            continue
        seen.add(sig)
        # confirm outside hypothesis: a failure that does not replay is not reported as a violation
        sub = next(s for s in mod.SUBCHECKS if s.name == subname)
        if "unit" not in (f["case"] if isinstance(f["case"], dict) else {}):
            try:
                run_case(sub, f["case"])
                total["harness_errors"].append(f"non-reproducible failure {sig}: {canon(f['case'])[:500]}")
                continue
            except Violation:
                pass
            except HarnessError as e:
                total["harness_errors"].append(str(e))
                continue
        os.makedirs(fdir, exist_ok=True)
        path = os.path.join(fdir, f"{subname}-{hashlib.sha256(sig.encode()).hexdigest()[:10]}.json")
        with open(path, "w") as fh:
            json.dump(
                {"property": prop, "subcheck": subname, "signature": sig, "detail": f["detail"], "case": f["case"]},
                fh,
                indent=1,
                default=str,
            )
        print(f"VIOLATION property={prop} replay={path}")
        print(f"  signature: {sig}")
        print("  detail: " + f["detail"].replace("\n", "\n    ")[:1500])
        total["violations"].append({"subcheck": subname, "signature": sig, "replay": path})
        rc = 1
    if total["harness_errors"]:
        for h in total["harness_errors"][:5]:
            print(f"HARNESS-ERROR property={prop} {h}")
        if rc == 0:
            rc = 2

    wall = time.time() - t0
    evidence = {
        "property_id": prop,
        "tier": ns.tier,
        "seed": base_seed,
        "level": getattr(mod, "LEVEL", "exploration"),
        "coverage": {
            "evaluations": total["evaluations"],
            "distinct_nontrivial": total["distinct_nontrivial"],
            "rule": getattr(mod, "RULE", "")
            + " Per sub-check rules: "
            + " | ".join(f"{s.name}: {s.rule}" for s in subs),
            "samples": total["samples"][:12],
            "exhaustive": False,
            "subchecks": total["subchecks"],
            "replayed_regressions": n_replayed,
            "known_findings_met": total["known"],
            "harness_errors": total["harness_errors"][:5],
        },
        "assumptions": getattr(mod, "ASSUMPTIONS", []),
        "wall_s": round(wall, 2),
        "violations": len(total["violations"]),
    }
    if not ns.only and not os.environ.get("VERIF_NO_EVIDENCE"):
        os.makedirs(os.path.join(VERIF, "evidence"), exist_ok=True)
        with open(os.path.join(VERIF, "evidence", f"{prop}.json"), "w") as fh:
            json.dump(evidence, fh, indent=1, default=str)
    print(
        f"{prop} tier={ns.tier} seed={base_seed} evaluations={total['evaluations']} "
        f"distinct_nontrivial={total['distinct_nontrivial']} violations={len(total['violations'])} "
        f"known={len(total['known'])} wall={wall:.1f}s exit={rc}"
    )
    for name, sc in total["subchecks"].items():
        print(f"  {name}: eval={sc['evaluations']} nontrivial={sc['distinct_nontrivial']} {sc['wall_s']}s")
        if os.environ.get("VERIF_SHOW_TAGS"):
            print("    tags: " + ", ".join(f"{k}={v}" for k, v in sc.get("tags", {}).items()))
    return rc


def replay(mod, path: str) -> int:
    prop = mod.PROPERTY
    with open(path) as f:
        rep = json.load(f)
    sub = next((s for s in mod.SUBCHECKS if s.name == rep["subcheck"]), None)
    if sub is None:
        print(f"HARNESS-ERROR property={prop} unknown subcheck in replay")
        return 2
    case = rep["case"]
    try:
        if isinstance(case, dict) and set(case) == {"unit"}:
            col = Collector()
            sub.run_unit(case["unit"], col)
            if col.failures:
                sig, f = next(iter(col.failures.items()))
                raise Violation(sig, f["detail"])
        else:
            run_case(sub, case)
    except Violation as v:
        known_sigs = [e["match"]["signature"] for e in load_known(prop) if e.get("status") == "known"]
        if v.signature in known_sigs:
            print(f"KNOWN-FINDING: property={prop} {v.signature}")
            return 0
        print(f"VIOLATION property={prop} replay={path}")
        print(f"  signature: {v.signature}\n  detail: {v.detail[:1500]}")
        return 1
    except HarnessError as e:
        print(f"HARNESS-ERROR property={prop} {e}")
        return 2
    print(f"{prop} replay ok: {path}")
    return 0
