"""A harness-owned thread scheduler: the interleaving is part of the case.

N worker threads each run one thunk. Through `sys.settrace` every worker stops at the
yield points of the *watched* functions (Python functions of the library named in
`watched`: at their call, at every line -- optionally every opcode -- and at their
return), and a controller releases exactly one parked worker at a time, chosen by the
generated schedule (a list of [worker, burst] entries, consumed cyclically; the worker number is
reduced modulo the number of parked workers and is released `burst` times in a row). So the same case gives the same interleaving of the watched
regions, and a failing schedule shrinks like any other list.

Real locks: a worker released by the controller may block on a lock that a *parked*
worker holds (WordLists.load_lang is under one). The controller notices that nothing
happened for `stall_s` seconds, marks the released workers as blocked and goes on
scheduling the parked ones without waiting for them; a blocked worker continues on its
own when the lock is released and is an ordinary worker again at its next yield point. That is still a legal interleaving;
it is the one place where wall-clock time enters, and it is counted in the statistics
(`stalls`). If every worker is released and nothing happens for `deadlock_s`, the run is
reported as a deadlock (workers are daemon threads and are abandoned).
"""

from __future__ import annotations

import queue
import sys
import threading


class Scheduler:
    def __init__(self, schedule, watched, root, *, opcodes=False, stall_s=0.3, deadlock_s=20.0, per_frame=80):
        self.schedule = list(schedule) or [0]
        self.watched = frozenset(watched)
        self.root = root
        self.opcodes = opcodes
        self.stall_s = stall_s
        self.deadlock_s = deadlock_s
        self.per_frame = per_frame
        self.counts: dict[int, int] = {}
        self.events: queue.Queue = queue.Queue()
        self.sems: list[threading.Semaphore] = []
        self.index: dict[int, int] = {}
        self.stats = {"yields": 0, "switches": 0, "stalls": 0, "deadlock": False, "watched_hit": set()}

    # -- worker side
    def _trace(self, frame, event, arg):
        if event == "call":
            code = frame.f_code
            if code.co_name in self.watched and code.co_filename.startswith(self.root):
                if self.opcodes:
                    frame.f_trace_opcodes = True
                self.stats["watched_hit"].add(code.co_name)
                self._yield()
                return self._local
        return None

    def _local(self, frame, event, arg):
        # at most `per_frame` yield points in one activation: a 2048-word comprehension is one region, not 30000
        if event == "return":
            self.counts.pop(id(frame), None)
            self._yield()
        elif event in ("line", "opcode"):
            c = self.counts.get(id(frame), 0)
            if c < self.per_frame:
                self.counts[id(frame)] = c + 1
                self._yield()
        return self._local

    def _yield(self):
        i = self.index.get(threading.get_ident())
        if i is None:  # a thread this scheduler does not own
            return
        self.events.put(("yield", i))
        self.sems[i].acquire()

    # -- controller side
    def run(self, thunks):
        n = len(thunks)
        results = [None] * n
        self.sems = [threading.Semaphore(0) for _ in range(n)]
        ready = threading.Semaphore(0)

        def body(i):
            self.index[threading.get_ident()] = i
            ready.release()
            self.sems[i].acquire()
            sys.settrace(self._trace)
            try:
                results[i] = ("ok", thunks[i]())
            except BaseException as e:  # noqa: BLE001  reported to the check, which decides
                results[i] = ("exc", type(e).__module__ + "." + type(e).__name__, str(e)[:300])
            finally:
                sys.settrace(None)
                self.events.put(("done", i))

        threads = [threading.Thread(target=body, args=(i,), daemon=True) for i in range(n)]
        for t in threads:
            t.start()
            ready.acquire()
        parked, running, done = set(range(n)), set(), set()
        k, last, idle = 0, None, 0.0

        burst = {"who": None, "left": 0}

        def pick():
            # a schedule entry is [who, burst]: worker `who` (modulo the parked ones) is released `burst` times in a row
            # (as long as it is the one parked), so that both fine and coarse interleavings are reachable
            nonlocal k, last
            live = sorted(parked)
            if burst["left"] > 0 and burst["who"] in parked:
                i = burst["who"]
                burst["left"] -= 1
            else:
                entry = self.schedule[k % len(self.schedule)]
                who, run = (entry, 1) if isinstance(entry, int) else (entry[0], entry[1])
                k += 1
                i = live[who % len(live)]
                burst["who"], burst["left"] = i, max(0, run - 1)
            if last is not None and i != last:
                self.stats["switches"] += 1
            last = i
            parked.discard(i)
            running.add(i)
            self.sems[i].release()

        blocked: set[int] = set()  # released workers that did not come back within stall_s: waiting on a real lock
        while len(done) < n:
            if not (running - blocked) and parked:
                pick()
            try:
                kind, i = self.events.get(timeout=self.stall_s)
            except queue.Empty:
                if running - blocked:
                    self.stats["stalls"] += 1
                    blocked |= running
                    idle = 0.0
                elif not parked:
                    idle += self.stall_s
                    if idle >= self.deadlock_s:
                        self.stats["deadlock"] = True
                        break
                continue
            idle = 0.0
            running.discard(i)
            blocked.discard(i)
            if kind == "yield":
                self.stats["yields"] += 1
                parked.add(i)
            else:
                done.add(i)
        if not self.stats["deadlock"]:
            for t in threads:
                t.join()
        self.stats["watched_hit"] = sorted(self.stats["watched_hit"])
        return results, self.stats
