"""Oracles for the coverage-guided tier: one function per target, bytes in, exception out on a violation.

Importable without atheris (the replay path and the Hypothesis-driven smoke run use the same functions).
A target raises FuzzViolation(signature, detail); every other exception that escapes a library call and is
not one of the library's three classes is a contract violation too (C19) and is left to propagate: the
driver buckets it by (type, innermost btclib frame).

Every assertion names the property that states it: C19 owns "return or library exception" and "the bytes consumed
parse alone"; the identities (accepted bytes re-serialize, ids and sizes are the model's, text forms re-parse to
an equal object) belong to C05, C06, C14 and C15. A campaign raises only for the properties in ACTIVE (FUZZ_PROPS),
so that a change which breaks a round trip and keeps every parser inside its contract is reported by the check of
the round trip and not by C19's.
"""

from __future__ import annotations

import os
from io import BytesIO

from btclib.exceptions import BTClibRuntimeError, BTClibTypeError, BTClibValueError

LIBEXC = (BTClibValueError, BTClibTypeError, BTClibRuntimeError)


ACTIVE = {x for x in (os.environ.get("FUZZ_PROPS") or "C19").split(",") if x}


class FuzzViolation(Exception):
    def __init__(self, signature, detail="", prop="C19"):
        super().__init__(f"{signature}: {detail}")
        self.signature = signature
        self.detail = detail
        self.prop = prop


def _fail(prop, signature, detail="", cause=None):
    if prop in ACTIVE:
        raise FuzzViolation(signature, detail, prop) from cause


def _stream_identity(name, parse, serialize, data, equal=None):
    """parse(stream) returned => the object writes back exactly the bytes it consumed, and the bytes alone parse to an equal object."""
    stream = BytesIO(data)
    try:
        obj = parse(stream)
    except LIBEXC:
        return None
    used = data[: stream.tell()]
    try:
        out = serialize(obj)
    except LIBEXC as e:
        _fail("C05", f"{name}:accepted-bytes-refused-by-the-writer", f"{used.hex()[:400]}: {e}", e)
        return obj
    if out != used:
        _fail("C05", f"{name}:accepted-bytes-do-not-reserialize", f"in={used.hex()[:400]} out={out.hex()[:400]}")
    try:
        again = parse(used)
    except LIBEXC as e:
        _fail("C19", f"{name}:consumed-bytes-refused-as-bytes", f"{used.hex()[:400]}: {e}", e)
        return obj
    try:
        if serialize(again) != used:
            _fail("C05", f"{name}:second-parse-differs", used.hex()[:400])
    except LIBEXC:
        pass
    return obj


def t_tx(data: bytes) -> None:
    from btclib.tx import Tx
    from vlib.models import tx_ref

    for cv in (False, True):
        tx = _stream_identity(f"tx:cv={cv}", lambda d, cv=cv: Tx.parse(d, check_validity=cv), lambda t, cv=cv: t.serialize(True, check_validity=cv), data)
        if tx is None:
            continue
        try:
            used = tx.serialize(True, check_validity=False)
            model = tx_ref.parse(used)
        except (tx_ref.ParseError, *LIBEXC):
            model = None
        if model is not None and (tx.id != tx_ref.txid(model) or tx.hash != tx_ref.wtxid(model) or tx.size != len(used) or tx.weight != tx_ref.weight(model)):
            _fail("C05", "tx:ids-or-sizes-of-accepted-bytes", used.hex()[:400])
        for consumer in (lambda: tx.vsize, lambda: tx.is_segwit, lambda: tx.is_coinbase, lambda: tx.sig_op_count, lambda: tx.to_dict(check_validity=False), lambda: tx.to_dict()):
            try:
                consumer()
            except LIBEXC:
                pass


def t_block(data: bytes) -> None:
    from btclib.block.block import Block
    from btclib.block.block_header import BlockHeader

    _stream_identity("header", lambda d: BlockHeader.parse(d, check_validity=False), lambda h: h.serialize(check_validity=False), data)
    b = _stream_identity("block", lambda d: Block.parse(d, check_validity=False), lambda b: b.serialize(True, check_validity=False), data)
    if b is not None:
        for consumer in (lambda: b.size, lambda: b.weight, lambda: b.vsize, lambda: b.stripped_size, lambda: b.assert_valid(), lambda: b.to_dict(check_validity=False)):
            try:
                consumer()
            except LIBEXC:
                pass


def t_psbt(data: bytes) -> None:
    from btclib.psbt.psbt import Psbt

    for cv in (True, False):
        try:
            p = Psbt.parse(data, check_validity=cv)
        except LIBEXC:
            continue
        try:
            out = p.serialize(check_validity=cv)
            q = Psbt.parse(out, check_validity=cv)
            if q.serialize(check_validity=cv) != out:
                _fail("C05", f"psbt:serialization-not-a-fixed-point:cv={cv}", data.hex()[:400])
        except LIBEXC as e:
            _fail("C05", f"psbt:own-serialization-refused:cv={cv}", f"{data.hex()[:300]}: {e}", e)
        for consumer in (lambda: p.tx, lambda: p.unique_id, lambda: p.lock_time, lambda: p.to_dict(check_validity=cv), lambda: p.estimated_weight, lambda: p.assert_signable(), lambda: p.b64encode(check_validity=cv)):
            try:
                consumer()
            except LIBEXC:
                pass


def t_message(data: bytes) -> None:
    from btclib.p2p.message import Message

    _stream_identity("message", lambda d: Message.parse(d), lambda m: m.serialize(), data)


def t_script(data: bytes) -> None:
    from btclib.script import script, taproot
    from btclib.script.script_pub_key import ScriptPubKey
    from btclib.script.witness import Witness

    for name, mod in (("script", script), ("tapscript", taproot)):
        try:
            items = mod.parse(data)
        except LIBEXC:
            continue
        if name == "script":
            try:
                out = script.serialize(items)
            except LIBEXC:
                continue  # parse is total and marks what it could not read; serialize refuses the marker
            try:
                if script.serialize(script.parse(out)) != out:
                    _fail("C05", "script:serialize-parse-not-a-fixed-point", data.hex()[:300])
            except LIBEXC as e:
                _fail("C05", "script:own-serialization-refused", f"{data.hex()[:300]}: {e}", e)
    _stream_identity("witness", lambda d: Witness.parse(d, check_validity=False), lambda w: w.serialize(check_validity=False), data)
    try:
        spk = ScriptPubKey(data, check_validity=False)
        spk.type, spk.address
    except LIBEXC:
        pass


def t_keys_sigs(data: bytes) -> None:
    from btclib.bip32.bip32 import BIP32KeyData
    from btclib.bip32.key_origin import BIP32KeyOrigin
    from btclib.curves.sec_point import point_from_octets
    from btclib.ecc import bms, dsa, ssa

    _stream_identity("bip32key", lambda d: BIP32KeyData.parse(d), lambda k: k.serialize(), data)
    _stream_identity("dsa-sig", lambda d: dsa.Sig.parse(d), lambda s: s.serialize(), data)
    _stream_identity("ssa-sig", lambda d: ssa.Sig.parse(d), lambda s: s.serialize(), data)
    _stream_identity("bms-sig", lambda d: bms.Sig.parse(d), lambda s: s.serialize(), data)
    for call in (lambda: BIP32KeyOrigin.parse(data), lambda: point_from_octets(data), lambda: dsa.Sig.parse(data, strict=False)):
        try:
            call()
        except LIBEXC:
            pass


def _text(data: bytes) -> str:
    return data.decode("utf-8", errors="replace")


def t_descriptor(data: bytes) -> None:
    from btclib.descriptors import descriptors

    text = _text(data)
    try:
        d = descriptors.parse(text)
    except LIBEXC:
        try:
            descriptors.checksum(text)
        except LIBEXC:
            pass
        return
    try:
        back = descriptors.parse(str(d))
        if back != d or str(back) != str(d):
            _fail("C14", "descriptor:text-does-not-parse-to-an-equal-descriptor", f"{text[:300]!r} -> {str(d)[:300]!r}")
    except LIBEXC as e:
        _fail("C14", "descriptor:own-text-refused", f"{text[:300]!r} -> {str(d)[:300]!r}: {e}", e)
    try:
        d.script_pub_key(0), d.address(0)
    except LIBEXC:
        pass


def t_miniscript(data: bytes) -> None:
    from btclib.descriptors import miniscript

    text = _text(data)
    for ctx in ("P2WSH", "tapscript"):
        try:
            node = miniscript.parse(text, ctx)
        except LIBEXC:
            continue
        try:
            back = miniscript.parse(str(node), ctx)
            if back != node:
                _fail("C15", "miniscript:text-does-not-re-parse-to-the-same-expression", f"{text[:300]!r}")
        except LIBEXC as e:
            _fail("C15", "miniscript:own-text-refused", f"{text[:300]!r}: {e}", e)
        s = node.script() if callable(node.script) else node.script
        if len(s) != node.script_size:
            _fail("C15", "miniscript:script-size", text[:300])
        try:
            again = miniscript.from_script(s, ctx)
        except LIBEXC as e:
            _fail("C15", "miniscript:own-script-does-not-read-back", f"{text[:300]!r}: {e}", e)
            continue
        s2 = again.script() if callable(again.script) else again.script
        if s2 != s:
            _fail("C15", "miniscript:read-back-compiles-differently", text[:300])


def t_miniscript_script(data: bytes) -> None:
    from btclib.descriptors import miniscript

    for ctx in ("P2WSH", "tapscript"):
        try:
            node = miniscript.from_script(data, ctx)
        except LIBEXC:
            if miniscript.reads_back(data, ctx) is not False:
                _fail("C15", "miniscript:reads_back-true-for-a-script-from_script-refuses", data.hex()[:300])
            continue
        s = node.script() if callable(node.script) else node.script
        if bytes(s) != data:
            _fail("C15", "miniscript:accepted-script-compiles-to-other-bytes", f"{data.hex()[:300]} -> {bytes(s).hex()[:300]}")
        if miniscript.reads_back(data, ctx) is not True:
            _fail("C15", "miniscript:reads_back-false-for-a-script-that-reads-back", data.hex()[:300])
        try:
            again = miniscript.parse(str(node), ctx)
        except LIBEXC:
            continue  # from_script reads 33 octets where a key belongs; parse also asks that they are a point (C15 is about expressions, not about arbitrary scripts)
        if again != node:
            _fail("C15", "miniscript:text-of-a-read-script-re-parses-to-another-expression", data.hex()[:300])


def t_text_codecs(data: bytes) -> None:
    from btclib import b32, b58, base58, bech32
    from btclib.bip21 import Bip21
    from btclib.bip32.bip32 import BIP32KeyData
    from btclib.psbt.psbt import Psbt

    text = _text(data)
    for call in (lambda: base58.decode(text), lambda: bech32.decode(text), lambda: b32.witness_from_address(text), lambda: b58.h160_from_address(text), lambda: BIP32KeyData.b58decode(text), lambda: Psbt.b64decode(text), lambda: Bip21.parse(text)):
        try:
            call()
        except LIBEXC:
            pass
    # C06: on every input, and on a string the reference checksums for a (hrp, version, program) decoded from the input and then edits character by
    # character (a fuzzer cannot forge a checksum; handed one it can explore everything behind it), the verdict and the payload are the reference's
    from btclib.network import NETWORKS
    from vlib.models import segwit_addr_ref as sref

    hrps = sorted({n.hrp for n in NETWORKS.values()})
    candidates = [text]
    if len(data) >= 3:
        hrp = hrps[data[0] % len(hrps)]
        ver = data[1] % 18
        prog = list(data[3 : 3 + data[2] % 42])
        spec = sref.Encoding.BECH32 if (ver == 0) != bool(data[1] & 0x40) else sref.Encoding.BECH32M
        built = sref.bech32_encode(hrp, [ver % 32] + sref.convertbits(prog, 8, 5), spec)
        if data[1] & 0x80:
            built = built.upper()
        rest = data[3 + data[2] % 42 :]
        chars = list(built)
        for k in range(0, len(rest) - 1, 2):  # (position, character) pairs
            pos = rest[k] % len(chars)
            if rest[k + 1] < 0x80:
                chars[pos] = chr(rest[k + 1])
            else:
                # a character outside ASCII that case mapping sends into the alphabet (KELVIN SIGN -> k), at the next k from the position on if there is one
                ks = [q % len(chars) for q in range(pos, pos + len(chars)) if chars[q % len(chars)] in "kK"]
                chars[ks[0] if ks else pos] = "\u212a"
        candidates += [built, "".join(chars)]
    for t in candidates:
        if t.strip() != t:
            continue  # which blanks a decoder forgives around an address is its own business
        want = None
        for hrp in hrps:
            ver, prog = sref.decode(hrp, t)
            if ver is not None:
                want = (ver, bytes(prog), hrp)
        try:
            w = b32.witness_from_address(t)
        except LIBEXC:
            w = None
        if (w is None) != (want is None):
            _fail("C06", f"segwit-address:verdict:lib={'refused' if w is None else 'accepted'}:ref={'refused' if want is None else 'accepted'}", repr(t))
        if w is None or want is None:
            continue
        if (w[0], bytes(w[1])) != want[:2] or NETWORKS[w[2]].hrp != want[2]:
            _fail("C06", "segwit-address:payload-differs-from-the-reference", f"{t!r}: lib={w!r} ref={want!r}")
        try:
            again = b32.address_from_witness(w[0], w[1], w[2])
        except LIBEXC as e:
            _fail("C06", "segwit-address:decoded-payload-refused-by-the-encoder", f"{t!r}: {e}", e)
            continue
        if again != sref.encode(want[2], want[0], list(want[1])):
            _fail("C06", "segwit-address:decode-encode-differs", f"{t!r} -> {again!r}")


TARGETS = {
    "tx": t_tx,
    "block": t_block,
    "psbt": t_psbt,
    "message": t_message,
    "script": t_script,
    "keys_sigs": t_keys_sigs,
    "descriptor": t_descriptor,
    "miniscript": t_miniscript,
    "miniscript_script": t_miniscript_script,
    "text_codecs": t_text_codecs,
}
