"""Runs core_script_ref on Bitcoin Core's script_tests.json / tx_valid.json / tx_invalid.json (vendored in /verif/vectors).
The model must agree with every vector (verdict and error code) before C08 trusts it."""

from __future__ import annotations

import json
import os
import re

from . import core_script_ref as cs
from . import fastec, tx_ref

VECT = os.path.join(os.path.dirname(os.path.dirname(os.path.dirname(os.path.abspath(__file__)))), "vectors")
NUMS = bytes.fromhex("50929b74c1a04954b78b4b6035e97a5e078a5a0f28ec96d547bfee9ace803ac0")


def parse_asm(s: str) -> bytes:
    """Core's ParseScript (core_read.cpp)"""
    out = b""
    for w in s.split():
        if not w:
            continue
        if re.fullmatch(r"-?[0-9]+", w):
            n = int(w)
            if n == -1 or 1 <= n <= 16:
                out += bytes([0x4F if n == -1 else 0x50 + n])
            elif n == 0:
                out += b"\x00"
            else:
                out += cs.push_data(cs.num_encode(n))
        elif w.startswith("0x") and len(w) > 2 and re.fullmatch(r"[0-9a-fA-F]+", w[2:]):
            out += bytes.fromhex(w[2:])
        elif len(w) >= 2 and w[0] == "'" and w[-1] == "'":
            out += cs.push_data(w[1:-1].encode())
        else:
            name = w if w.startswith("OP_") else "OP_" + w
            if name not in cs.OP:
                raise ValueError(f"unknown token {w}")
            out += bytes([cs.OP[name]])
    return out


def parse_flags(s: str) -> set:
    if not s or s == "NONE":
        return set()
    return set(s.split(","))


def build_spend(script_sig: bytes, spk: bytes, witness: list[bytes], amount: int):
    credit = {"version": 1, "lock_time": 0, "vin": [{"txid": "00" * 32, "vout": 0xFFFFFFFF, "script_sig": "0000", "sequence": 0xFFFFFFFF, "witness": []}],
              "vout": [{"value": amount, "spk": spk.hex()}]}
    spend = {"version": 1, "lock_time": 0, "vin": [{"txid": tx_ref.txid(credit).hex(), "vout": 0, "script_sig": script_sig.hex(), "sequence": 0xFFFFFFFF, "witness": [w.hex() for w in witness]}],
             "vout": [{"value": amount, "spk": ""}]}
    return spend, [{"value": amount, "spk": spk.hex()}]


def script_test_cases():
    data = json.load(open(os.path.join(VECT, "script_tests.json")))
    for x in data:
        if len(x) == 1:
            continue
        amount, wit = 0, []
        i = 0
        if not isinstance(x[0], str):
            wit = list(x[0][:-1])
            amount = int(round(x[0][-1] * 10**8))
            i = 1
        ssig, spk, flags, expected = x[i], x[i + 1], x[i + 2], x[i + 3]
        # taproot placeholders
        wout, q = [], b""
        for el in wit:
            if el.startswith("#SCRIPT#"):
                wout.append(parse_asm(el[len("#SCRIPT#") :]))
            elif el == "#CONTROLBLOCK#":
                leaf = cs.tagged("TapLeaf", b"\xc0" + tx_ref.ser_string(wout[-1]))
                q, par = fastec.tap_tweak_pubkey(NUMS, leaf)
                wout.append(bytes([0xC0 | par]) + NUMS)
            else:
                wout.append(bytes.fromhex(el))
        spk = spk.replace("#TAPROOTOUTPUT#", "0x" + q.hex())
        yield parse_asm(ssig), parse_asm(spk), wout, amount, parse_flags(flags), expected, x


def run_script_tests():
    """-> (n, mismatches)"""
    bad = []
    n = 0
    for ssig, spk, wit, amount, flags, expected, raw in script_test_cases():
        n += 1
        tx, spent = build_spend(ssig, spk, wit, amount)
        if "CLEANSTACK" in flags:  # script_tests.cpp DoTest
            flags = flags | {"P2SH", "WITNESS"}
        got = cs.verify_input(tx, 0, spent, flags)
        if got != expected:
            bad.append((got, expected, raw))
    return n, bad


def tx_test_cases(fname):
    data = json.load(open(os.path.join(VECT, fname)))
    for x in data:
        if len(x) == 1 and isinstance(x[0], str):
            continue
        prevs, raw, flags = x
        tx = tx_ref.parse(bytes.fromhex(raw))
        pmap = {}
        for p in prevs:
            h, n_, spk = p[0], p[1], p[2]
            amt = p[3] if len(p) > 3 else 0
            pmap[(h, n_ & 0xFFFFFFFF)] = {"value": amt, "spk": parse_asm(spk).hex()}
        yield tx, pmap, parse_flags(flags), x


def check_transaction(tx) -> bool:
    """Core's CheckTransaction (the parts the tx_invalid vectors rely on)"""
    if not tx["vin"] or not tx["vout"]:
        return False
    total = 0
    for o in tx["vout"]:
        if o["value"] < 0 or o["value"] > 21_000_000 * 10**8:
            return False
        total += o["value"]
        if total > 21_000_000 * 10**8:
            return False
    ops = [(i["txid"], i["vout"]) for i in tx["vin"]]
    if len(set(ops)) != len(ops):
        return False
    null = lambda i: i["txid"] == "00" * 32 and i["vout"] == 0xFFFFFFFF
    if len(tx["vin"]) == 1 and null(tx["vin"][0]):
        if not 2 <= len(tx["vin"][0]["script_sig"]) // 2 <= 100:
            return False
    elif any(null(i) for i in tx["vin"]):
        return False
    if len(tx_ref.serialize(tx, False)) * 4 > 4_000_000:
        return False
    return True


def run_tx_tests():
    """tx_valid: passes with every flag EXCEPT the listed ones; tx_invalid: fails with the listed flags"""
    bad = []
    n = 0
    allflags = set(cs.ALL_FLAG_NAMES) - {"DISCOURAGE_UPGRADABLE_TAPROOT_VERSION", "DISCOURAGE_OP_SUCCESS", "DISCOURAGE_UPGRADABLE_PUBKEYTYPE"}

    def fill(fl):
        fl = set(fl)
        if "CLEANSTACK" in fl:
            fl |= {"P2SH", "WITNESS"}
        if "WITNESS" in fl:
            fl |= {"P2SH"}
        return fl

    for fname, valid in (("tx_valid.json", True), ("tx_invalid.json", False)):
        for tx, pmap, flags, raw in tx_test_cases(fname):
            n += 1
            if "BADTX" in flags:
                if check_transaction(tx):
                    bad.append(("BADTX-accepted", raw))
                continue
            use = fill(allflags - flags) if valid else fill(flags)
            ok = check_transaction(tx)
            if ok:
                try:
                    spent = [pmap[(i["txid"], i["vout"])] for i in tx["vin"]]
                except KeyError:
                    bad.append(("missing-prevout", raw))
                    continue
                for k in range(len(tx["vin"])):
                    r = cs.verify_input(tx, k, spent, use)
                    if r != "OK":
                        ok = False
                        break
            if ok != valid:
                bad.append((f"{fname}: model says {'valid' if ok else 'invalid'}", raw))
    return n, bad


if __name__ == "__main__":
    n, bad = run_script_tests()
    print("script_tests:", n, "mismatches:", len(bad))
    for b in bad[:25]:
        print("  got", b[0], "expected", b[1], json.dumps(b[2])[:260])
    n, bad = run_tx_tests()
    print("tx tests:", n, "mismatches:", len(bad))
    for b in bad[:15]:
        print("  ", b[0], json.dumps(b[1])[:300])
