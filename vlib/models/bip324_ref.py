"""ElligatorSwift (BIP324): XSwiftEC, XSwiftECInv, ellswift_decode, x-only ECDH and the BIP's shared-secret hash,
transcribed from the BIP text / its reference ellswift code.  Parametrised by (p, b) of a curve y^2 = x^3 + b so that
the same text serves the other a == 0 curves; secp256k1 is the default and the one the BIP's vectors pin.  stdlib only.

The y of a decoded point is not BIP324's (which is x-only): libsecp256k1's ellswift module (include/secp256k1_ellswift.h,
"the Y coordinate has the same parity as t") decides it, with t reduced mod p."""

from __future__ import annotations

import hashlib

P256 = 0xFFFFFFFFFFFFFFFFFFFFFFFFFFFFFFFFFFFFFFFFFFFFFFFFFFFFFFFEFFFFFC2F
B256 = 7


def sqrt_mod(a: int, p: int):
    """A square root of a mod p (p odd prime) or None.  For p % 4 == 3 the root a^((p+1)/4) as in the BIP's FE.sqrt."""
    a %= p
    if a == 0:
        return 0
    if pow(a, (p - 1) // 2, p) != 1:
        return None
    if p % 4 == 3:
        return pow(a, (p + 1) // 4, p)
    # Tonelli-Shanks
    q, s = p - 1, 0
    while q % 2 == 0:
        q //= 2
        s += 1
    z = 2
    while pow(z, (p - 1) // 2, p) != p - 1:
        z += 1
    m, c, t, r = s, pow(z, q, p), pow(a, q, p), pow(a, (q + 1) // 2, p)
    while t != 1:
        i, t2 = 0, t
        while t2 != 1:
            t2 = t2 * t2 % p
            i += 1
        b = pow(c, 1 << (m - i - 1), p)
        m, c = i, b * b % p
        t, r = t * c % p, r * b % p
    return r


def is_valid_x(x: int, p: int = P256, b: int = B256) -> bool:
    v = (pow(x, 3, p) + b) % p
    return v == 0 or pow(v, (p - 1) // 2, p) == 1  # the BIP's GE.is_valid_x: x^3 + b is a square


def minus_3_sqrt(p: int) -> int:
    r = sqrt_mod(-3 % p, p)
    if r is None:
        raise ValueError("no sqrt(-3): the map is not defined over this field")
    return r


def inv(a: int, p: int) -> int:
    return pow(a % p, -1, p)


def xswiftec(u: int, t: int, p: int = P256, b: int = B256, c: int | None = None) -> int:
    c = minus_3_sqrt(p) if c is None else c
    u %= p
    t %= p
    if u == 0:
        u = 1
    if t == 0:
        t = 1
    if (pow(u, 3, p) + t * t + b) % p == 0:
        t = 2 * t % p
    X = (pow(u, 3, p) + b - t * t) * inv(2 * t, p) % p
    Y = (X + t) * inv(c * u, p) % p
    for x in ((u + 4 * Y * Y) % p, (-X * inv(Y, p) - u) * inv(2, p) % p, (X * inv(Y, p) - u) * inv(2, p) % p):
        if is_valid_x(x, p, b):
            return x
    raise AssertionError("xswiftec: no valid x")


def xswiftec_inv(x: int, u: int, case: int, p: int = P256, b: int = B256, c: int | None = None):
    c = minus_3_sqrt(p) if c is None else c
    x %= p
    u %= p
    if case & 2 == 0:
        if is_valid_x((-x - u) % p, p, b):
            return None
        v = x
        s = -(pow(u, 3, p) + b) * inv(u * u + u * v + v * v, p) % p
    else:
        s = (x - u) % p
        if s == 0:
            return None
        r = sqrt_mod(-s * (4 * (pow(u, 3, p) + b) + 3 * s * u * u) % p, p)
        if r is None:
            return None
        if case & 1 and r == 0:
            return None
        v = (-u + r * inv(s, p)) * inv(2, p) % p
    w = sqrt_mod(s, p)
    if w is None:
        return None
    i2 = inv(2, p)
    if case & 5 == 0:
        return -w * (u * (1 - c) * i2 + v) % p
    if case & 5 == 1:
        return w * (u * (1 + c) * i2 + v) % p
    if case & 5 == 4:
        return w * (u * (1 - c) * i2 + v) % p
    return -w * (u * (1 + c) * i2 + v) % p


def ellswift_decode_x(ell: bytes, p: int = P256, b: int = B256) -> int:
    half = len(ell) // 2
    return xswiftec(int.from_bytes(ell[:half], "big"), int.from_bytes(ell[half:], "big"), p, b)


def lift_x_even(x: int, p: int, b: int):
    y = sqrt_mod((pow(x, 3, p) + b) % p, p)
    if y is None:
        return None
    return (x, y if y % 2 == 0 else p - y)


def ellswift_decode_point(ell: bytes, p: int = P256, b: int = B256):
    half = len(ell) // 2
    x = ellswift_decode_x(ell, p, b)
    t = int.from_bytes(ell[half:], "big") % p
    Pt = lift_x_even(x, p, b)
    return (Pt[0], p - Pt[1]) if t % 2 else Pt


def tagged_hash(tag: str, msg: bytes) -> bytes:
    t = hashlib.sha256(tag.encode()).digest()
    return hashlib.sha256(t + t + msg).digest()


def v2_ecdh_hash(ell_a: bytes, ell_b: bytes, x_shared: bytes) -> bytes:
    """BIP324: sha256_tagged("bip324_ellswift_xonly_ecdh", ellswift_A || ellswift_B || x32), A the initiator."""
    return tagged_hash("bip324_ellswift_xonly_ecdh", ell_a + ell_b + x_shared)


def validate(decode_rows, inv_rows) -> list[str]:
    bad = []
    for i, row in enumerate(decode_rows):
        if ellswift_decode_x(bytes.fromhex(row["ellswift"])) != int(row["x"], 16):
            bad.append(f"decode {i}")
    for i, row in enumerate(inv_rows):
        u, x = int(row["u"], 16), int(row["x"], 16)
        for case in range(8):
            want = row[f"case{case}_t"]
            got = xswiftec_inv(x, u, case)
            if (None if want == "" else int(want, 16)) != got:
                bad.append(f"inv {i} case {case}")
            if got is not None and xswiftec(u, got) != x:
                bad.append(f"inv {i} case {case}: not an inverse")
    return bad
