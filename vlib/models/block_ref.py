"""Block-level reference models: merkle (Core's ComputeMerkleRoot / branch), SipHash-2-4, BIP158 GCS, BIP152 short ids,
arith_uint256 compact encoding, retarget and work. stdlib only."""

from __future__ import annotations

import hashlib

from .tx_ref import compact_size, hash256

MASK64 = (1 << 64) - 1


# ------------------------------------------------------------------ merkle
def merkle_root_mutated(hashes: list[bytes]):
    """Core's ComputeMerkleRoot(hashes, &mutated)"""
    mutated = False
    hs = list(hashes)
    if not hs:
        return b"\x00" * 32, False
    while len(hs) > 1:
        for pos in range(0, len(hs) - 1, 2):
            if hs[pos] == hs[pos + 1]:
                mutated = True
        if len(hs) & 1:
            hs.append(hs[-1])
        hs = [hash256(hs[i] + hs[i + 1]) for i in range(0, len(hs), 2)]
    return hs[0], mutated


def merkle_branch(hashes: list[bytes], index: int) -> list[bytes]:
    """sibling per level, bottom-up (Core's old GetMerkleBranch)"""
    branch = []
    hs = list(hashes)
    while len(hs) > 1:
        if len(hs) & 1:
            hs.append(hs[-1])
        branch.append(hs[index ^ 1])
        hs = [hash256(hs[i] + hs[i + 1]) for i in range(0, len(hs), 2)]
        index >>= 1
    return branch


def root_from_branch(leaf: bytes, branch: list[bytes], index: int):
    """Core's old CheckMerkleBranch; None where a right child equals its sibling (the CVE-2012-2459 twin position)"""
    if index < 0 or index >> len(branch):
        return None  # the position must exist in a tree of this depth: "this leaf at this index and no other"
    h = leaf
    for sib in branch:
        if index & 1:
            if sib == h:
                return None
            h = hash256(sib + h)
        else:
            h = hash256(h + sib)
        index >>= 1
    return h


# ------------------------------------------------------------------ siphash-2-4
def _rotl(x, b):
    return ((x << b) | (x >> (64 - b))) & MASK64


def siphash24(k0: int, k1: int, data: bytes) -> int:
    v0 = 0x736F6D6570736575 ^ k0
    v1 = 0x646F72616E646F6D ^ k1
    v2 = 0x6C7967656E657261 ^ k0
    v3 = 0x7465646279746573 ^ k1

    def rounds(n):
        nonlocal v0, v1, v2, v3
        for _ in range(n):
            v0 = (v0 + v1) & MASK64; v1 = _rotl(v1, 13); v1 ^= v0; v0 = _rotl(v0, 32)
            v2 = (v2 + v3) & MASK64; v3 = _rotl(v3, 16); v3 ^= v2
            v0 = (v0 + v3) & MASK64; v3 = _rotl(v3, 21); v3 ^= v0
            v2 = (v2 + v1) & MASK64; v1 = _rotl(v1, 17); v1 ^= v2; v2 = _rotl(v2, 32)

    n = len(data)
    for i in range(0, n - n % 8, 8):
        m = int.from_bytes(data[i : i + 8], "little")
        v3 ^= m
        rounds(2)
        v0 ^= m
    last = data[n - n % 8 :] + b"\x00" * (7 - n % 8) + bytes([n & 0xFF])
    m = int.from_bytes(last, "little")
    v3 ^= m
    rounds(2)
    v0 ^= m
    v2 ^= 0xFF
    rounds(4)
    return v0 ^ v1 ^ v2 ^ v3


# ------------------------------------------------------------------ BIP158
P, M = 19, 784931


class BitWriter:
    def __init__(self):
        self.bits = []

    def write(self, value, n):
        for i in range(n - 1, -1, -1):
            self.bits.append((value >> i) & 1)

    def bytes(self):
        b = self.bits + [0] * (-len(self.bits) % 8)
        return bytes(int("".join(map(str, b[i : i + 8])), 2) for i in range(0, len(b), 8))


def gcs_filter(block_hash_internal: bytes, elements: set[bytes]) -> bytes:
    """BIP158 basic filter bytes: CompactSize(N) || golomb-rice coded sorted deltas. block hash in internal (wire) order."""
    k0 = int.from_bytes(block_hash_internal[:8], "little")
    k1 = int.from_bytes(block_hash_internal[8:16], "little")
    n = len(elements)
    f = n * M
    values = sorted((siphash24(k0, k1, e) * f) >> 64 for e in elements)
    w = BitWriter()
    last = 0
    for v in values:
        d = v - last
        last = v
        q, r = d >> P, d & ((1 << P) - 1)
        for _ in range(q):
            w.write(1, 1)
        w.write(0, 1)
        w.write(r, P)
    return compact_size(n) + w.bytes()


def gcs_hashes(block_hash_internal: bytes, elements: set[bytes]) -> list[int]:
    k0 = int.from_bytes(block_hash_internal[:8], "little")
    k1 = int.from_bytes(block_hash_internal[8:16], "little")
    f = len(elements) * M
    return sorted((siphash24(k0, k1, e) * f) >> 64 for e in elements)


def filter_header(filter_bytes: bytes, prev_header: bytes) -> bytes:
    return hash256(hash256(filter_bytes) + prev_header)


# ------------------------------------------------------------------ BIP152
def short_id(header80: bytes, nonce: int, wtxid_internal: bytes) -> int:
    d = hashlib.sha256(header80 + nonce.to_bytes(8, "little")).digest()
    k0, k1 = int.from_bytes(d[:8], "little"), int.from_bytes(d[8:16], "little")
    return siphash24(k0, k1, wtxid_internal) & 0xFFFFFFFFFFFF


# ------------------------------------------------------------------ arith_uint256
def set_compact(ncompact: int):
    """-> (value mod 2^256 as Core would hold it, negative, overflow)"""
    size = ncompact >> 24
    word = ncompact & 0x007FFFFF
    if size <= 3:
        word >>= 8 * (3 - size)
        value = word
    else:
        value = (word << (8 * (size - 3))) & ((1 << 256) - 1)
    negative = word != 0 and (ncompact & 0x00800000) != 0
    overflow = word != 0 and ((size > 34) or (word > 0xFF and size > 33) or (word > 0xFFFF and size > 32))
    return value, negative, overflow


def get_compact(value: int) -> int:
    size = (value.bit_length() + 7) // 8
    if size <= 3:
        compact = (value & MASK64) << (8 * (3 - size))
    else:
        compact = (value >> (8 * (size - 3))) & MASK64
    if compact & 0x00800000:
        compact >>= 8
        size += 1
    return compact | (size << 24)


def next_work(bits: int, actual_timespan: int, pow_limit: int, target_timespan: int = 14 * 24 * 3600) -> int:
    """CalculateNextWorkRequired (no retarget-disable, no BIP94)"""
    if actual_timespan < target_timespan // 4:
        actual_timespan = target_timespan // 4
    if actual_timespan > target_timespan * 4:
        actual_timespan = target_timespan * 4
    new, _, _ = set_compact(bits)
    new = (new * actual_timespan) & ((1 << 256) - 1)
    new //= target_timespan
    if new > pow_limit:
        new = pow_limit
    return get_compact(new)


def block_proof(bits: int) -> int:
    target, neg, over = set_compact(bits)
    if neg or over or target == 0:
        return 0
    return ((~target & ((1 << 256) - 1)) // (target + 1)) + 1
