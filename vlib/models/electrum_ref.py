"""Electrum's seed scheme, transcribed from spesmilo/electrum (electrum/mnemonic.py, old_mnemonic.py,
keystore.py: bip39_is_checksum_valid, Old_KeyStore.stretch_key/format_seed). stdlib only; never imports btclib.

There is no specification other than Electrum's code, so this is a line-for-line reading of it:
    normalize_text, is_CJK, seed_prefix / is_new_seed / is_old_seed / seed_type,
    Mnemonic.mnemonic_encode / mnemonic_decode / make_seed (with the drawn entropy as a parameter) / mnemonic_to_seed,
    old_mnemonic.mn_encode / mn_decode, Old_KeyStore.stretch_key.
Word lists are data, read from the files btclib ships.
"""

from __future__ import annotations

import hashlib
import hmac
import string
import unicodedata

from . import bip39_ref

SEED_PREFIX = "01"  # Standard wallet
SEED_PREFIX_SW = "100"  # Segwit wallet
SEED_PREFIX_2FA = "101"  # Two-factor authentication
SEED_PREFIX_2FA_SW = "102"  # Two-factor auth, using segwit
PREFIXES = {"standard": SEED_PREFIX, "segwit": SEED_PREFIX_SW, "2fa": SEED_PREFIX_2FA, "2fa_segwit": SEED_PREFIX_2FA_SW}

# http://www.asahi-net.or.jp/~ax2s-kmtn/ref/unicode/e_asia.html
CJK_INTERVALS = [
    (0x4E00, 0x9FFF, "CJK Unified Ideographs"),
    (0x3400, 0x4DBF, "CJK Unified Ideographs Extension A"),
    (0x20000, 0x2A6DF, "CJK Unified Ideographs Extension B"),
    (0x2A700, 0x2B73F, "CJK Unified Ideographs Extension C"),
    (0x2B740, 0x2B81F, "CJK Unified Ideographs Extension D"),
    (0xF900, 0xFAFF, "CJK Compatibility Ideographs"),
    (0x2F800, 0x2FA1D, "CJK Compatibility Ideographs Supplement"),
    (0x3190, 0x319F, "Kanbun"),
    (0x2E80, 0x2EFF, "CJK Radicals Supplement"),
    (0x2F00, 0x2FDF, "CJK Radicals"),
    (0x31C0, 0x31EF, "CJK Strokes"),
    (0x2FF0, 0x2FFF, "Ideographic Description Characters"),
    (0xE0100, 0xE01EF, "Variation Selectors Supplement"),
    (0x3100, 0x312F, "Bopomofo"),
    (0x31A0, 0x31BF, "Bopomofo Extended"),
    (0xFF00, 0xFFEF, "Halfwidth and Fullwidth Forms"),
    (0x3040, 0x309F, "Hiragana"),
    (0x30A0, 0x30FF, "Katakana"),
    (0x31F0, 0x31FF, "Katakana Phonetic Extensions"),
    (0x1B000, 0x1B0FF, "Kana Supplement"),
    (0xAC00, 0xD7AF, "Hangul Syllables"),
    (0x1100, 0x11FF, "Hangul Jamo"),
    (0xA960, 0xA97F, "Hangul Jamo Extended A"),
    (0xD7B0, 0xD7FF, "Hangul Jamo Extended B"),
    (0x3130, 0x318F, "Hangul Compatibility Jamo"),
    (0xA4D0, 0xA4FF, "Lisu"),
    (0x16F00, 0x16F9F, "Miao"),
    (0xA000, 0xA48F, "Yi Syllables"),
    (0xA490, 0xA4CF, "Yi Radicals"),
]


def is_CJK(c: str) -> bool:
    n = ord(c)
    for imin, imax, _name in CJK_INTERVALS:
        if imin <= n <= imax:
            return True
    return False


def normalize_text(seed: str) -> str:
    # normalize
    seed = unicodedata.normalize("NFKD", seed)
    # lower
    seed = seed.lower()
    # remove accents
    seed = "".join([c for c in seed if not unicodedata.combining(c)])
    # normalize whitespaces
    seed = " ".join(seed.split())
    # remove whitespaces between CJK
    seed = "".join([seed[i] for i in range(len(seed)) if not (seed[i] in string.whitespace and is_CJK(seed[i - 1]) and is_CJK(seed[i + 1]))])
    return seed


# ---------------------------------------------------------------- word lists (data)
# electrum reads en, es, ja, pt (its own 1626-word list), zh; btclib also offers the other BIP39 files under electrum's scheme
FILES = dict(bip39_ref.FILES, pt="electrum_portuguese.txt")
LANGS = list(FILES)
_cache: dict[str, tuple[list[str], dict[str, int]]] = {}
_old: list[str] = []
_old_index: dict[str, int] = {}


def _load(lang: str):
    if lang not in _cache:
        words = bip39_ref.read_wordfile(FILES[lang])
        if len(set(words)) != len(words) or len(words) != (1626 if lang == "pt" else 2048):
            raise ValueError(f"electrum list {lang}: {len(words)} words")
        _cache[lang] = (words, {w: i for i, w in enumerate(words)})
    return _cache[lang]


def wordlist(lang: str) -> list[str]:
    return _load(lang)[0]


def old_wordlist() -> list[str]:
    if not _old:
        _old.extend(bip39_ref.read_wordfile("electrum_old_english.txt"))
        if len(_old) != 1626 or len(set(_old)) != 1626:
            raise ValueError("old electrum list")
        _old_index.update({w: i for i, w in enumerate(_old)})
    return _old


# ---------------------------------------------------------------- old_mnemonic.py
def mn_encode(message: str) -> list[str]:
    wl = old_wordlist()
    n = len(wl)
    assert len(message) % 8 == 0
    out = []
    for i in range(len(message) // 8):
        word = message[8 * i : 8 * i + 8]
        x = int(word, 16)
        w1 = x % n
        w2 = ((x // n) + w1) % n
        w3 = ((x // n // n) + w2) % n
        out += [wl[w1], wl[w2], wl[w3]]
    return out


def mn_decode(wlist: list[str]) -> str:
    old_wordlist()
    n = 1626
    out = ""
    for i in range(len(wlist) // 3):
        word1, word2, word3 = wlist[3 * i : 3 * i + 3]
        w1 = _old_index[word1]  # KeyError where electrum's list.index raises ValueError
        w2 = _old_index[word2] % n
        w3 = _old_index[word3] % n
        x = w1 + n * ((w2 - w1) % n) + n * n * ((w3 - w2) % n)
        out += "%08x" % x
    return out


# ---------------------------------------------------------------- mnemonic.py
def seed_version_hex(x: str) -> str:
    return hmac.new(b"Seed version", normalize_text(x).encode("utf8"), hashlib.sha512).hexdigest()


def is_new_seed(x: str, prefix: str = SEED_PREFIX) -> bool:
    return seed_version_hex(x).startswith(prefix)


def is_old_seed(seed: str) -> bool:
    seed = normalize_text(seed)
    words = seed.split()
    try:
        # checks here are deliberately left weak for legacy reasons, see #3149
        mn_decode(words)
        uses_electrum_words = True
    except Exception:
        uses_electrum_words = False
    try:
        raw = bytes.fromhex(seed)
        is_hex = len(raw) == 16 or len(raw) == 32
    except Exception:
        is_hex = False
    return is_hex or (uses_electrum_words and (len(words) == 12 or len(words) == 24))


def seed_type(x: str) -> str:
    num_words = len(x.split())
    if is_old_seed(x):
        return "old"
    elif is_new_seed(x, SEED_PREFIX):
        return "standard"
    elif is_new_seed(x, SEED_PREFIX_SW):
        return "segwit"
    elif is_new_seed(x, SEED_PREFIX_2FA) and (num_words == 12 or num_words >= 20):
        return "2fa"
    elif is_new_seed(x, SEED_PREFIX_2FA_SW):
        return "2fa_segwit"
    return ""


def mnemonic_encode(i: int, lang: str) -> str:
    wl = wordlist(lang)
    n = len(wl)
    words = []
    while i:
        x = i % n
        i = i // n
        words.append(wl[x])
    return " ".join(words)


def mnemonic_decode(seed: str, lang: str) -> int:
    idx = _load(lang)[1]
    n = len(idx)
    words = seed.split()
    i = 0
    while words:
        w = words.pop()
        k = idx[w]
        i = i * n + k
    return i


def bip39_is_checksum_valid(mnemonic: str, lang: str) -> tuple[bool, bool]:
    """keystore.bip39_is_checksum_valid with wordlist = the electrum list of `lang` (as make_seed calls it)."""
    idx = _load(lang)[1]
    words = [unicodedata.normalize("NFKD", word) for word in mnemonic.split()]
    words_len = len(words)
    n = len(idx)
    i = 0
    words.reverse()
    while words:
        w = words.pop()
        if w not in idx:
            return False, False
        i = i * n + idx[w]
    if words_len not in [12, 15, 18, 21, 24]:
        return False, True
    checksum_length = 11 * words_len // 33  # num bits
    entropy_length = 32 * checksum_length  # num bits
    entropy = i >> checksum_length
    checksum = i % 2**checksum_length
    entropy_bytes = int.to_bytes(entropy, length=entropy_length // 8, byteorder="big")
    hashed = int.from_bytes(hashlib.sha256(entropy_bytes).digest(), byteorder="big")
    calculated_checksum = hashed >> (256 - checksum_length)
    return checksum == calculated_checksum, True


def make_seed_from(entropy: int, seed_type_: str, lang: str, max_tries: int = 2_000_000) -> tuple[str, int]:
    """make_seed's search loop with the drawn entropy given: returns (seed, the integer it encodes)."""
    prefix = PREFIXES[seed_type_]
    nonce = 0
    while nonce < max_tries:
        nonce += 1
        i = entropy + nonce
        seed = mnemonic_encode(i, lang)
        if i != mnemonic_decode(seed, lang):
            raise Exception("Cannot extract same entropy from mnemonic!")
        if is_old_seed(seed):
            continue
        # Make sure the mnemonic we generate is not also a valid bip39 seed by accident.
        if bip39_is_checksum_valid(seed, lang) == (True, True):
            continue
        if is_new_seed(seed, prefix):
            return seed, i
    raise RuntimeError("search bound exceeded")


def mnemonic_to_seed(mnemonic: str, passphrase: str | None) -> bytes:
    PBKDF2_ROUNDS = 2048
    mnemonic = normalize_text(mnemonic)
    passphrase = passphrase or ""
    passphrase = normalize_text(passphrase)
    return hashlib.pbkdf2_hmac("sha512", mnemonic.encode("utf-8"), b"electrum" + passphrase.encode("utf-8"), iterations=PBKDF2_ROUNDS)


# ---------------------------------------------------------------- Old_KeyStore
def old_format_seed(seed: str) -> str:
    seed = normalize_text(seed)
    # see if seed was entered as hex
    if seed:
        try:
            bytes.fromhex(seed)
            return str(seed)
        except Exception:
            pass
    words = seed.split()
    seed = mn_decode(words)
    if not seed:
        raise Exception("Invalid seed")
    return seed


def old_stretch_key(seed: bytes) -> int:
    x = seed
    for _ in range(100000):
        x = hashlib.sha256(x + seed).digest()
    return int.from_bytes(x, "big")
