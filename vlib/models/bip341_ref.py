"""BIP341 helper functions (taproot_tweak_pubkey / _seckey, taproot_tree_helper, control-block verification),
transcribed from the BIP over bip340_ref. A tree here is: ("leaf", version, script_bytes) or ("branch", left, right)."""

from __future__ import annotations

from .bip340_ref import G, bytes_from_int, has_even_y, int_from_bytes, lift_x, n, point_add, point_mul, tagged_hash
from .tx_ref import ser_string


def taproot_tweak_pubkey(pubkey: bytes, h: bytes):
    t = int_from_bytes(tagged_hash("TapTweak", pubkey + h))
    if t >= n:
        raise ValueError("tweak out of range")
    P = lift_x(int_from_bytes(pubkey))
    if P is None:
        raise ValueError("not liftable")
    Q = point_add(P, point_mul(G, t))
    return 0 if has_even_y(Q) else 1, bytes_from_int(Q[0])


def taproot_tweak_seckey(seckey0: int, h: bytes) -> int:
    P = point_mul(G, seckey0)
    seckey = seckey0 if has_even_y(P) else n - seckey0
    t = int_from_bytes(tagged_hash("TapTweak", bytes_from_int(P[0]) + h))
    if t >= n:
        raise ValueError("tweak out of range")
    return (seckey + t) % n


def leaf_hash(version: int, script: bytes) -> bytes:
    return tagged_hash("TapLeaf", bytes([version]) + ser_string(script))


def tree_helper(tree):
    """-> ([((version, script), path_bytes)], hash) in left-to-right leaf order"""
    if tree[0] == "leaf":
        _, v, s = tree
        return [((v, s), b"")], leaf_hash(v, s)
    left, left_h = tree_helper(tree[1])
    right, right_h = tree_helper(tree[2])
    ret = [(l, c + right_h) for l, c in left] + [(l, c + left_h) for l, c in right]
    if right_h < left_h:
        left_h, right_h = right_h, left_h
    return ret, tagged_hash("TapBranch", left_h + right_h)


def verify_control(q: bytes, script: bytes, control: bytes) -> bool:
    """BIP341 script-path validation of the commitment (steps on the control block only)."""
    if len(control) < 33 or (len(control) - 33) % 32 or len(control) > 33 + 32 * 128 or len(q) != 32:
        return False
    m = (len(control) - 33) // 32
    p = control[1:33]
    k = leaf_hash(control[0] & 0xFE, script)
    for j in range(m):
        e = control[33 + 32 * j : 65 + 32 * j]
        k = tagged_hash("TapBranch", k + e) if k < e else tagged_hash("TapBranch", e + k)
    t = int_from_bytes(tagged_hash("TapTweak", p + k))
    if t >= n:
        return False
    P = lift_x(int_from_bytes(p))
    if P is None:
        return False
    Q = point_add(P, point_mul(G, t))
    if Q is None:
        return False
    return q == bytes_from_int(Q[0]) and (control[0] & 1) == (Q[1] & 1)
