"""BIP85 transcribed from bip-0085.mediawiki. stdlib + sibling models; never imports btclib.

    k = CKDpriv walk of a fully hardened path m/83696968'/app'/...;  entropy = HMAC-SHA512(key="bip-entropy-from-k", msg=ser256(k))
    applications: 39' (BIP39: entropy[:ENT/8] -> mnemonic), 2' (WIF of entropy[:32], compressed), 32' (xprv: chain code = entropy[:32],
    key = entropy[32:]), 128169' (hex: entropy[:n], 16<=n<=64), 707764' (base64(entropy)[:len], 20..86), 707785' (base85 RFC1924 [:len], 10..80),
    89101' (dice from BIP85-DRNG-SHAKE256), DRNG = SHAKE256(entropy) read as a stream.
"""

from __future__ import annotations

import hashlib
import hmac

from . import base58_ref, bip32_ref, bip39_ref

H = 0x80000000
PURPOSE = 83696968
LANG_CODE = {"en": 0, "ja": 1, "ko": 2, "es": 3, "zh": 4, "zh_tw": 5, "fr": 6, "it": 7, "cs": 8, "pt": 9}
WORDS_ENT = {12: 16, 15: 20, 18: 24, 21: 28, 24: 32}
B64 = "ABCDEFGHIJKLMNOPQRSTUVWXYZabcdefghijklmnopqrstuvwxyz0123456789+/"
B85 = "0123456789ABCDEFGHIJKLMNOPQRSTUVWXYZabcdefghijklmnopqrstuvwxyz!#$%&()*+-;<=>?@^_`{|}~"  # RFC 1924


def child_key(master_k: int, master_c: bytes, path: list[int]) -> int:
    """private key at a fully hardened path below (k, c) (no public keys needed)."""
    k, c = master_k, master_c
    for i in path:
        if i < H:
            raise ValueError("unhardened")
        k, c = bip32_ref.ckd_priv(k, c, i)
    return k


def entropy(master_k: int, master_c: bytes, path: list[int]) -> bytes:
    k = child_key(master_k, master_c, path)
    return hmac.new(b"bip-entropy-from-k", k.to_bytes(32, "big"), hashlib.sha512).digest()


def drng(ent: bytes, n: int) -> bytes:
    return hashlib.shake_256(ent).digest(n) if n else b""


def base64_text(data: bytes) -> str:
    out = ""
    for i in range(0, len(data), 3):
        chunk = data[i : i + 3]
        v = int.from_bytes(chunk + b"\x00" * (3 - len(chunk)), "big")
        s = "".join(B64[(v >> 6 * (3 - j)) & 63] for j in range(4))
        out += s[: len(chunk) + 1] + "=" * (3 - len(chunk))
    return out


def base85_text(data: bytes) -> str:
    """RFC1924 alphabet, 4 bytes -> 5 characters (input padded with zeros, output trimmed: 64 bytes need none)."""
    pad = (-len(data)) % 4
    data += b"\x00" * pad
    out = ""
    for i in range(0, len(data), 4):
        v = int.from_bytes(data[i : i + 4], "big")
        out += "".join(B85[(v // 85**j) % 85] for j in reversed(range(5)))
    return out[: len(out) - pad]


def dice(ent: bytes, sides: int, rolls: int) -> list[int]:
    bits_per_roll = (sides - 1).bit_length()  # ceil(log2(sides))
    bytes_per_roll = (bits_per_roll + 7) // 8
    out = []
    pos = 0
    stream = b""
    while len(out) < rolls:
        if len(stream) < pos + bytes_per_roll:
            stream = drng(ent, max(256, 2 * (pos + bytes_per_roll)))
        trial = int.from_bytes(stream[pos : pos + bytes_per_roll], "big")
        pos += bytes_per_roll
        trial >>= 8 * bytes_per_roll - bits_per_roll
        if trial >= sides:
            continue
        out.append(trial)
    return out


def xprv_text(version: bytes, chain_code: bytes, key32: bytes) -> str:
    return base58_ref.check_encode(version + b"\x00" + b"\x00" * 4 + b"\x00" * 4 + chain_code + b"\x00" + key32)


def mnemonic(ent: bytes, words: int, lang: str) -> list[str]:
    return bip39_ref.words_from_entropy(ent[: WORDS_ENT[words]], lang)
